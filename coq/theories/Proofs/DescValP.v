(* Resource descriptors hold the caller's values at the specification's offsets (C10, second half).
   a. the model's descriptor bytes are the Spec layer's reference encoding of the same arguments;
   b. the Spec decoder of Spec/DescDecodeS.v, run on the item the walker cuts out of the model's bytes, returns exactly
      the caller's values;
   c. the same for every descriptor of a resource template, in order;
   d. descriptors with different values have different bytes. *)
From Coq Require Import NArith ZArith List Lia Bool Arith.
From ACPI Require Import Lib.Bytes Lib.Sx Lib.Machine Impl.AmlCore Impl.AmlTerm Spec.AmlCoreS Spec.AmlTermS
  Spec.DescDecodeS Proofs.DescP.
Import ListNotations.
Open Scope N_scope.

(* ---------------------------------------------------------------- vocabulary *)

(* arguments a caller of the Rust constructors can pass: bool / u8 / u16 / u32 / u64 / the Rust enums *)
Definition desc_in_range (d : desc) : Prop :=
  match d with
  | DMem32 rw base len => rw < 2 /\ base < 2 ^ 32 /\ len < 2 ^ 32
  | DAddr w ty ca rw min max tr =>
      (w = 16 \/ w = 32 \/ w = 64) /\ ty < 3 /\ ca < 4 /\ rw < 2 /\ min < 2 ^ w /\ max < 2 ^ w /\
      match tr with Some t => t < 2 ^ w | None => True end
  | DIO min max al len => min < 2 ^ 16 /\ max < 2 ^ 16 /\ al < 2 ^ 8 /\ len < 2 ^ 8
  | DIrq c e a s n => c < 2 /\ e < 2 /\ a < 2 /\ s < 2 /\ n < 2 ^ 32
  | DReg sp w o ac ad => sp < 2 ^ 8 /\ w < 2 ^ 8 /\ o < 2 ^ 8 /\ ac < 2 ^ 8 /\ ad < 2 ^ 64
  end.

(* the exchange form of a descriptor: codes 20..24 of the vocabulary documented in Spec/AmlTermS.v *)
Definition desc_to_sx (d : desc) : list sx :=
  match d with
  | DMem32 rw base len => [SA 20; SA rw; SA base; SA len]
  | DAddr w ty ca rw min max tr =>
      [SA 21; SA w; SA ty; SA ca; SA rw; SA min; SA max; SL (match tr with Some t => [SA t] | None => [] end)]
  | DIO min max al len => [SA 22; SA min; SA max; SA al; SA len]
  | DIrq c e a s n => [SA 23; SA c; SA e; SA a; SA s; SA n]
  | DReg sp w o ac ad => [SA 24; SA sp; SA w; SA o; SA ac; SA ad]
  end.

(* the mapping is the inverse of the vocabulary's own parser *)
Lemma desc_of_to_sx d : desc_of_sx (desc_to_sx d) = Some d.
Proof. destruct d as [rw base len|w ty ca rw mn mx [t|]|mn mx al len|c e a s n|sp wd off ac ad]; reflexivity. Qed.

Lemma term_of_desc_sx d : term_of_sx (SL (desc_to_sx d)) = Some (TDesc d).
Proof. destruct d as [rw base len|w ty ca rw mn mx [t|]|mn mx al len|c e a s n|sp wd off ac ad]; reflexivity. Qed.

(* what the caller asked for, in the words of the specification's fields *)
Definition values_of (d : desc) : dvalue :=
  match d with
  | DMem32 rw base len => VMem32 rw base len
  | DAddr w ty ca rw min max tr =>
      VAddr w ty 0x0C (match ty with 0 => 2 * ca + rw | 1 => 3 | _ => 0 end) 0 min max
            (match ty with 2 => 0 | _ => match tr with Some t => t | None => 0 end end) (max - min + 1)
  | DIO min max al len => VIO 1 min max al len
  | DIrq c e a s n => VIrq c e a s 0 1 [n]
  | DReg sp w o ac ad => VReg sp w o ac ad
  end.

(* ---------------------------------------------------------------- a. the bytes are the reference encoding *)

Lemma tflags_mem ca rw : ca < 4 -> rw < 2 -> N.lor (cast U8 (N.shiftl ca 1)) rw = ca * 2 + rw.
Proof.
  intros Hc Hr.
  assert (C : ca = 0 \/ ca = 1 \/ ca = 2 \/ ca = 3) by lia. assert (R : rw = 0 \/ rw = 1) by lia.
  destruct C as [->|[->|[->| ->]]], R as [->| ->]; reflexivity.
Qed.

Lemma irq_flags c e a s :
  c < 2 -> e < 2 -> a < 2 -> s < 2 ->
  N.lor (N.lor (N.lor (N.shiftl s 3) (N.shiftl a 2)) (N.shiftl e 1)) c = c + 2 * e + 4 * a + 8 * s.
Proof.
  intros Hc He Ha Hs.
  assert (C : c = 0 \/ c = 1) by lia. assert (E : e = 0 \/ e = 1) by lia.
  assert (A : a = 0 \/ a = 1) by lia. assert (S : s = 0 \/ s = 1) by lia.
  destruct C as [->| ->], E as [->| ->], A as [->| ->], S as [->| ->]; reflexivity.
Qed.

Theorem desc_is_reference d : desc_in_range d -> enc_desc d = ref_desc (desc_to_sx d).
Proof.
  destruct d as [rw base len|w ty ca rw mn mx tr|mn mx al len|c e a s n|sp wd off ac ad]; intros Hr.
  - reflexivity.
  - destruct Hr as (Hw & Hty & Hca & Hrw & _).
    assert (Ety : ty = 0 \/ ty = 1 \/ ty = 2) by lia.
    cbn [enc_desc].
    destruct Hw as [->|[->| ->]];
      change (16 =? 16) with true; change (32 =? 16) with false; change (32 =? 32) with true;
      change (64 =? 16) with false; change (64 =? 32) with false; change (64 =? 64) with true; cbn [option_bind];
      unfold sub_c, add_c;
      destruct tr as [t|]; cbn [desc_to_sx ref_desc];
      change (2 ^ (8 * N.of_nat 2)) with U16; change (2 ^ (8 * N.of_nat 4)) with U32; change (2 ^ (8 * N.of_nat 8)) with U64;
      destruct (N.leb_spec mn mx) as [Hle|Hgt]; destruct (N.ltb_spec mx mn) as [Hlt|Hge]; try lia; cbn [option_bind orb negb];
      try reflexivity;
      match goal with |- context [?x + 1 <? ?m] => destruct (N.ltb_spec (x + 1) m) as [Hfit|Hbig] end;
      cbn [option_bind negb]; try reflexivity;
      destruct Ety as [->|[->| ->]]; try rewrite (tflags_mem ca rw Hca Hrw); reflexivity.
  - reflexivity.
  - destruct Hr as (Hc & He & Ha & Hs & _). cbn [enc_desc desc_to_sx ref_desc].
    rewrite (irq_flags c e a s Hc He Ha Hs). reflexivity.
  - reflexivity.
Qed.

(* in particular the model refuses exactly what the reference refuses *)
Corollary desc_refused_together d :
  desc_in_range d -> (enc_desc d = None <-> ref_desc (desc_to_sx d) = None).
Proof. intros Hr. rewrite (desc_is_reference d Hr). reflexivity. Qed.

(* ---------------------------------------------------------------- b. the decoder returns the caller's values *)

Lemma unle1 x : unle [x] = x.
Proof. cbn [unle]. lia. Qed.

Lemma bit0_small x : x < 2 -> bit 0 x = x.
Proof. intros H. unfold bit. rewrite N.pow_0_r, N.div_1_r. now apply N.mod_small. Qed.

(* [unle (le w x) = x], in the shape [cbn [le]] leaves it *)
Ltac rd_le w x H :=
  let E := fresh "E" in
  pose proof (unle_le_small w x H) as E; cbn [le] in E; rewrite !E; clear E.

Ltac open_decoder :=
  unfold desc_decode, dec_mem32, dec_qword, dec_dword, dec_word, dec_io, dec_irq, dec_reg, lg, sm, rd_field;
  cbn [app le length Nat.eqb firstn skipn Nat.sub]; rewrite ?unle1.

Lemma dec_mem32_ok rw base len :
  rw < 2 -> base < 2 ^ 32 -> len < 2 ^ 32 ->
  desc_decode 0x86 ([rw] ++ le 4 base ++ le 4 len) = Some (VMem32 rw base len).
Proof.
  intros Hrw Hb Hl. open_decoder. rd_le 4%nat base Hb. rd_le 4%nat len Hl. rewrite (bit0_small rw Hrw). reflexivity.
Qed.

Lemma dec_word_ok ty gf tf g mn mx t ln :
  g < 2 ^ 16 -> mn < 2 ^ 16 -> mx < 2 ^ 16 -> t < 2 ^ 16 -> ln < 2 ^ 16 ->
  desc_decode 0x88 ([ty; gf; tf] ++ le 2 g ++ le 2 mn ++ le 2 mx ++ le 2 t ++ le 2 ln) = Some (VAddr 16 ty gf tf g mn mx t ln).
Proof.
  intros Hg Hmn Hmx Ht Hln. open_decoder.
  rd_le 2%nat g Hg. rd_le 2%nat mn Hmn. rd_le 2%nat mx Hmx. rd_le 2%nat t Ht. rd_le 2%nat ln Hln. reflexivity.
Qed.

Lemma dec_dword_ok ty gf tf g mn mx t ln :
  g < 2 ^ 32 -> mn < 2 ^ 32 -> mx < 2 ^ 32 -> t < 2 ^ 32 -> ln < 2 ^ 32 ->
  desc_decode 0x87 ([ty; gf; tf] ++ le 4 g ++ le 4 mn ++ le 4 mx ++ le 4 t ++ le 4 ln) = Some (VAddr 32 ty gf tf g mn mx t ln).
Proof.
  intros Hg Hmn Hmx Ht Hln. open_decoder.
  rd_le 4%nat g Hg. rd_le 4%nat mn Hmn. rd_le 4%nat mx Hmx. rd_le 4%nat t Ht. rd_le 4%nat ln Hln. reflexivity.
Qed.

Lemma dec_qword_ok ty gf tf g mn mx t ln :
  g < 2 ^ 64 -> mn < 2 ^ 64 -> mx < 2 ^ 64 -> t < 2 ^ 64 -> ln < 2 ^ 64 ->
  desc_decode 0x8A ([ty; gf; tf] ++ le 8 g ++ le 8 mn ++ le 8 mx ++ le 8 t ++ le 8 ln) = Some (VAddr 64 ty gf tf g mn mx t ln).
Proof.
  intros Hg Hmn Hmx Ht Hln. open_decoder.
  rd_le 8%nat g Hg. rd_le 8%nat mn Hmn. rd_le 8%nat mx Hmx. rd_le 8%nat t Ht. rd_le 8%nat ln Hln. reflexivity.
Qed.

Lemma dec_io_ok mn mx al len :
  mn < 2 ^ 16 -> mx < 2 ^ 16 ->
  desc_decode 0x47 ([1] ++ le 2 mn ++ le 2 mx ++ [al; len]) = Some (VIO 1 mn mx al len).
Proof.
  intros Hmn Hmx. open_decoder. rd_le 2%nat mn Hmn. rd_le 2%nat mx Hmx. reflexivity.
Qed.

Lemma dec_irq_ok c e a s n :
  c < 2 -> e < 2 -> a < 2 -> s < 2 -> n < 2 ^ 32 ->
  desc_decode 0x89 ([c + 2 * e + 4 * a + 8 * s; 1] ++ le 4 n) = Some (VIrq c e a s 0 1 [n]).
Proof.
  intros Hc He Ha Hs Hn.
  assert (C : c = 0 \/ c = 1) by lia. assert (E : e = 0 \/ e = 1) by lia.
  assert (A : a = 0 \/ a = 1) by lia. assert (S : s = 0 \/ s = 1) by lia.
  open_decoder. change (N.to_nat 1) with 1%nat. cbn [Nat.mul Nat.add Nat.eqb seq map Nat.sub firstn skipn andb].
  rd_le 4%nat n Hn.
  destruct C as [->| ->], E as [->| ->], A as [->| ->], S as [->| ->]; reflexivity.
Qed.

Lemma dec_reg_ok sp wd off ac ad :
  ad < 2 ^ 64 -> desc_decode 0x82 ([sp; wd; off; ac] ++ le 8 ad) = Some (VReg sp wd off ac ad).
Proof. intros Had. open_decoder. rd_le 8%nat ad Had. reflexivity. Qed.

(* one descriptor: the walker cuts out (tag, payload) whatever follows, and the payload decodes to the caller's values *)
Lemma desc_value_step d b :
  desc_in_range d -> enc_desc d = Some b ->
  exists payload,
    (forall f r, rd_walk (S f) (b ++ r) = option_map (cons (desc_tag d, payload)) (rd_walk f r)) /\
    desc_decode (desc_tag d) payload = Some (values_of d).
Proof.
  destruct d as [rw base len|w ty ca rw mn mx tr|mn mx al len|c e a s n|sp wd off ac ad]; intros Hr Henc.
  - destruct Hr as (Hrw & Hb & Hl). cbn [enc_desc] in Henc.
    assert (Eb : b = [0x86] ++ w2 9 ++ [rw] ++ d4 base ++ d4 len) by congruence. clear Henc. subst b.
    exists ([rw] ++ le 4 base ++ le 4 len). split.
    + intros f r. apply (rd_walk_large 0x86 ([rw] ++ d4 base ++ d4 len)); [lia|cbn; lia].
    + exact (dec_mem32_ok rw base len Hrw Hb Hl).
  - destruct Hr as (Hw & Hty & Hca & Hrw & Hmn & Hmx & Htr).
    assert (Ety : ty = 0 \/ ty = 1 \/ ty = 2) by lia.
    set (tf := match ty with 0 => N.lor (cast U8 (N.shiftl ca 1)) rw | 1 => 3 | _ => 0 end).
    set (t := match (match ty with 2 => None | _ => tr end) with Some t => t | None => 0 end).
    assert (Etf : tf = match ty with 0 => 2 * ca + rw | 1 => 3 | _ => 0 end).
    { unfold tf. destruct Ety as [->|[->| ->]]; [|reflexivity|reflexivity]. rewrite (tflags_mem ca rw Hca Hrw). lia. }
    assert (Et : t = match ty with 2 => 0 | _ => match tr with Some t => t | None => 0 end end).
    { unfold t. destruct Ety as [->|[->| ->]]; reflexivity. }
    assert (Htw : t < 2 ^ w).
    { rewrite Et. destruct Ety as [->|[->| ->]]; destruct tr as [t0|]; try exact Htr; destruct Hw as [->|[->| ->]]; exact eq_refl. }
    cbn [values_of desc_tag]. rewrite <- Etf, <- Et. clear Etf Et.
    destruct Hw as [->|[->| ->]].
    + destruct (addr_space_layout 16 2 0x88 ty ca rw mn mx tr b (or_introl (conj eq_refl (conj eq_refl eq_refl))) Henc)
        as (Hle & Hfit & ->). fold tf t.
      exists ([ty; 0x0C; tf] ++ le 2 0 ++ le 2 mn ++ le 2 mx ++ le 2 t ++ le 2 (mx - mn + 1)). split.
      * intros f r. apply (rd_walk_large 0x88); [lia|cbn; lia].
      * apply dec_word_ok; try assumption. exact eq_refl.
    + destruct (addr_space_layout 32 4 0x87 ty ca rw mn mx tr b
                  (or_intror (or_introl (conj eq_refl (conj eq_refl eq_refl)))) Henc) as (Hle & Hfit & ->). fold tf t.
      exists ([ty; 0x0C; tf] ++ le 4 0 ++ le 4 mn ++ le 4 mx ++ le 4 t ++ le 4 (mx - mn + 1)). split.
      * intros f r. apply (rd_walk_large 0x87); [lia|cbn; lia].
      * apply dec_dword_ok; try assumption. exact eq_refl.
    + destruct (addr_space_layout 64 8 0x8A ty ca rw mn mx tr b
                  (or_intror (or_intror (conj eq_refl (conj eq_refl eq_refl)))) Henc) as (Hle & Hfit & ->). fold tf t.
      exists ([ty; 0x0C; tf] ++ le 8 0 ++ le 8 mn ++ le 8 mx ++ le 8 t ++ le 8 (mx - mn + 1)). split.
      * intros f r. apply (rd_walk_large 0x8A); [lia|cbn; lia].
      * apply dec_qword_ok; try assumption. exact eq_refl.
  - destruct Hr as (Hmn & Hmx & Hal & Hlen). cbn [enc_desc] in Henc.
    assert (Eb : b = [0x47; 1] ++ w2 mn ++ w2 mx ++ [al; len]) by congruence. clear Henc. subst b.
    exists ([1] ++ le 2 mn ++ le 2 mx ++ [al; len]). split.
    + intros f r. apply (rd_walk_small 0x47 ([1] ++ w2 mn ++ w2 mx ++ [al; len])); [lia|reflexivity].
    + exact (dec_io_ok mn mx al len Hmn Hmx).
  - destruct Hr as (Hc & He & Ha & Hs & Hn). cbn [enc_desc] in Henc.
    rewrite (irq_flags c e a s Hc He Ha Hs) in Henc.
    assert (Eb : b = [0x89] ++ w2 6 ++ [c + 2 * e + 4 * a + 8 * s; 1] ++ d4 n) by congruence. clear Henc. subst b.
    exists ([c + 2 * e + 4 * a + 8 * s; 1] ++ le 4 n). split.
    + intros f r. apply (rd_walk_large 0x89 ([c + 2 * e + 4 * a + 8 * s; 1] ++ d4 n)); [lia|cbn; lia].
    + exact (dec_irq_ok c e a s n Hc He Ha Hs Hn).
  - destruct Hr as (Hsp & Hwd & Hoff & Hac & Had). cbn [enc_desc] in Henc.
    assert (Eb : b = [0x82] ++ w2 0x0C ++ [sp; wd; off; ac] ++ q8 ad) by congruence. clear Henc. subst b.
    exists ([sp; wd; off; ac] ++ le 8 ad). split.
    + intros f r. apply (rd_walk_large 0x82 ([sp; wd; off; ac] ++ q8 ad)); [lia|cbn; lia].
    + exact (dec_reg_ok sp wd off ac ad Had).
Qed.

Theorem desc_decode_encode d b :
  desc_in_range d -> enc_desc d = Some b ->
  exists payload, rd_walk 1 b = Some [(desc_tag d, payload)] /\ desc_decode (desc_tag d) payload = Some (values_of d).
Proof.
  intros Hr Henc. destruct (desc_value_step d b Hr Henc) as (payload & Hstep & Hdec).
  exists payload. split; [|exact Hdec].
  specialize (Hstep O []). rewrite app_nil_r in Hstep. exact Hstep.
Qed.

(* ---------------------------------------------------------------- d. different values, different bytes *)

Corollary desc_values_injective d1 d2 b :
  desc_in_range d1 -> desc_in_range d2 -> enc_desc d1 = Some b -> enc_desc d2 = Some b -> values_of d1 = values_of d2.
Proof.
  intros Hr1 Hr2 He1 He2.
  destruct (desc_decode_encode d1 b Hr1 He1) as (p1 & Hw1 & Hd1).
  destruct (desc_decode_encode d2 b Hr2 He2) as (p2 & Hw2 & Hd2).
  rewrite Hw1 in Hw2. inversion Hw2 as [[Htag Hp]]. rewrite <- Htag, <- Hp in Hd2. congruence.
Qed.

(* ---------------------------------------------------------------- c. templates *)

Lemma rd_walk_mono f l items : rd_walk f l = Some items -> forall f', (f <= f')%nat -> rd_walk f' l = Some items.
Proof.
  revert l items; induction f as [|f IH]; intros l items H f' Hf.
  - destruct l as [|tag r]; [|discriminate]. destruct f'; exact H.
  - destruct f' as [|f']; [lia|]. assert (Hf' : (f <= f')%nat) by lia.
    destruct l as [|tag r]; [exact H|]. cbn [rd_walk] in H |- *.
    destruct (tag <? 128).
    + destruct (Nat.ltb (length r) (N.to_nat (tag mod 8))); [discriminate|].
      destruct (rd_walk f (skipn (N.to_nat (tag mod 8)) r)) as [rest|] eqn:Er; [|discriminate].
      rewrite (IH _ _ Er f' Hf'). exact H.
    + destruct r as [|a [|b0 r2]]; try discriminate.
      destruct (Nat.ltb (length r2) (N.to_nat (a + 256 * b0))); [discriminate|].
      destruct (rd_walk f (skipn (N.to_nat (a + 256 * b0)) r2)) as [rest|] eqn:Er; [|discriminate].
      rewrite (IH _ _ Er f' Hf'). exact H.
Qed.

Lemma descs_of_map ds : descs_of (map TDesc ds) = ds.
Proof. induction ds as [|d ds IH]; cbn [map descs_of]; [reflexivity|]. now rewrite IH. Qed.

Lemma is_desc_map ds : Forall is_desc (map TDesc ds).
Proof. induction ds as [|d ds IH]; cbn [map]; constructor; [exact I|exact IH]. Qed.

Lemma rd_walk_descs_values ds bs :
  Forall desc_in_range ds -> map enc_desc ds = map Some bs ->
  exists items, rd_walk (S (S (length ds))) (concat bs ++ [0x79; 0]) = Some (items ++ [(0x79, [0])]) /\
                map decode_item items = map (fun d => Some (values_of d)) ds /\
                (length ds <= length (concat bs))%nat.
Proof.
  revert bs; induction ds as [|d ds IH]; intros bs Hr H.
  - destruct bs; [|discriminate]. exists []. repeat split. apply Nat.le_0_l.
  - destruct bs as [|b bs]; [discriminate|]. cbn [map] in H. inversion H as [[Hd Hrest]].
    inversion Hr as [|? ? Hrd Hrds]; subst.
    destruct (IH bs Hrds Hrest) as (items & Hw & Hv & Hlen).
    destruct (desc_value_step d b Hrd Hd) as (payload & Hstep & Hdec).
    exists ((desc_tag d, payload) :: items). cbn [concat length]. rewrite <- app_assoc. rewrite Hstep, Hw.
    cbn [option_map app map]. unfold decode_item at 1. cbn [fst snd]. rewrite Hdec, Hv. split; [reflexivity|]. split; [reflexivity|].
    assert (Hne : b <> []).
    { intros ->. specialize (Hstep O []). cbn [app rd_walk option_map] in Hstep. discriminate. }
    rewrite app_length. destruct b as [|x b']; [contradiction|]. cbn [length]. lia.
Qed.

(* a template of any number of in-range descriptors, in any order, both build modes: the Spec buffer decoder gives the
   payload, the Spec walker (given at least one unit of fuel per item) cuts it into items, the Spec descriptor decoder
   returns the caller's values of every descriptor in order, and the last item is the end tag *)
Lemma template_decodes_gen md ds b :
  Forall desc_in_range ds ->
  enc md (TResTemplate (map TDesc ds)) = Some b -> N.of_nat (length b) < 2 ^ 63 ->
  exists payload items,
    buffer_decode b = Some (N.of_nat (length payload), payload, []) /\
    (forall fuel, (S (S (length ds)) <= fuel)%nat -> rd_walk fuel payload = Some (items ++ [(0x79, [0])])) /\
    map decode_item items = map (fun d => Some (values_of d)) ds /\
    (length ds + 2 <= length payload)%nat.
Proof.
  intros Hr Henc Hsz.
  destruct (res_template_correct md (map TDesc ds) b [] (is_desc_map ds) Henc Hsz)
    as (bs & payload & items0 & Hm & Hp & Hbuf & _).
  rewrite descs_of_map in Hm. rewrite app_nil_r in Hbuf.
  destruct (rd_walk_descs_values ds bs Hr Hm) as (items & Hw & Hv & Hlen).
  exists payload, items. split; [exact Hbuf|]. split; [|split; [exact Hv|]].
  - intros fuel Hf. rewrite Hp. exact (rd_walk_mono _ _ _ Hw fuel Hf).
  - rewrite Hp, app_length. cbn [length]. lia.
Qed.

Theorem template_decodes md ds b :
  Forall desc_in_range ds ->
  enc md (TResTemplate (map TDesc ds)) = Some b -> N.of_nat (length b) < 2 ^ 63 ->
  exists payload items,
    buffer_decode b = Some (N.of_nat (length payload), payload, []) /\
    (forall fuel, (S (S (length ds)) <= fuel)%nat -> rd_walk fuel payload = Some (items ++ [(0x79, [0])])) /\
    map decode_item items = map (fun d => Some (values_of d)) ds.
Proof.
  intros Hr Henc Hsz. destruct (template_decodes_gen md ds b Hr Henc Hsz) as (payload & items & H1 & H2 & H3 & _).
  exists payload, items. repeat split; assumption.
Qed.

(* the same with the fuel the c10 oracle of Spec/AmlTermS.v gives the walker *)
Corollary template_decodes_oracle_fuel md ds b :
  Forall desc_in_range ds ->
  enc md (TResTemplate (map TDesc ds)) = Some b -> N.of_nat (length b) < 2 ^ 63 ->
  exists payload items,
    buffer_decode b = Some (N.of_nat (length payload), payload, []) /\
    rd_walk (S (length payload)) payload = Some (items ++ [(0x79, [0])]) /\
    map decode_item items = map (fun d => Some (values_of d)) ds.
Proof.
  intros Hr Henc Hsz. destruct (template_decodes_gen md ds b Hr Henc Hsz) as (payload & items & H1 & H2 & H3 & H4).
  exists payload, items. split; [exact H1|]. split; [|exact H3]. apply H2. lia.
Qed.
