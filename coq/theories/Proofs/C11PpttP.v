(* C11 instances, PPTT: processor hierarchy node (five flag options, interleaved with add_cache and the three pub-field
   assignments) and cache type structure (eight "valid" bits gating their value setters, three attribute sub-fields).
   Statements about the bytes the Impl model of pptt.rs emits. *)
From Coq Require Import NArith ZArith List Lia Bool Arith ZifyBool ZifyNat ZifyN.
From ACPI Require Import Lib.Bytes Lib.Sx Lib.Machine Impl.Table Impl.Fields Impl.Madt Impl.Pptt Spec.Layout Spec.OptionsS
  Proofs.FlagsP Proofs.FadtP Proofs.MadtP Proofs.PpttP Proofs.BitsP Proofs.WalkRefCommon2P Proofs.C11CommonP.
Import ListNotations.
Open Scope N_scope.

(* ================= cache type structure ================= *)
Definition CACHE_WS : list nat := Eval vm_compute in widths cache_default.
(* CacheNodeBuilder::default().to_node() *)
Definition CACHE_BLANK : list N := Eval vm_compute in ser_flds cache_default.

Lemma cache_setters_fold s l : forall f, cache_setters s f l = fold_opt (cache_setter s) f l.
Proof. induction l as [|o l IH]; intros f; cbn [cache_setters fold_opt]; [reflexivity|]. destruct (cache_setter s f o); [apply IH|reflexivity]. Qed.

Lemma alloc_bits_spec e : alloc_bits e = cache_alloc_field e.
Proof. unfold alloc_bits, cache_alloc_field. destruct (N.leb_spec e 2) as [H|H]; destruct e as [|[p|[p|p|]|]]; try reflexivity; lia. Qed.
Lemma ctype_bits_spec e : ctype_bits e = cache_type_field e.
Proof. unfold ctype_bits, cache_type_field. destruct (N.leb_spec e 2) as [H|H]; destruct e as [|[p|[p|p|]|]]; try reflexivity; lia. Qed.
Lemma policy_bits_spec e : policy_bits e = cache_policy_field e.
Proof. unfold policy_bits, cache_policy_field. destruct (N.leb_spec e 1) as [H|H]; destruct e as [|[p|p|]]; try reflexivity; lia. Qed.

Lemma cache_step_flags s f o f' : widths f = CACHE_WS -> True -> cache_setter s f o = Some f' ->
  widths f' = CACHE_WS /\ True /\ fget f' 3 = N.lor (fget f 3) (cache_valid_bit o) /\
  forall j, j <> 3%nat -> ~ In (fld_range CACHE_WS j) (cache_call_ranges o) -> fget f' j = fget f j.
Proof.
  intros Hw _ H.
  assert (Hl : length f = 11%nat) by (rewrite <- widths_length, Hw; reflexivity).
  unfold cache_setter in H. dmatch_in H;
    try (destruct (handle_ref s _); [cbn [option_bind] in H|discriminate H]);
    inversion H; subst f'; clear H;
    (split; [rewrite ?widths_fset, ?widths_f_or, ?widths_fset; exact Hw|]); (split; [exact I|]);
    cbn [cache_valid_bit cache_call_ranges];
    (split; [fg0; dmatch_goal; rewrite ?N.lor_0_r; reflexivity | intros j Hj Hn; fg Hn; reflexivity]).
Qed.

Definition CACHE_NOT_ATTR : list (nat * nat) := [(4, 4); (8, 4); (12, 4); (16, 4); (20, 1); (22, 2); (24, 4)]%nat.

Lemma cache_step_attr s f o f' : widths f = CACHE_WS -> True -> cache_setter s f o = Some f' ->
  widths f' = CACHE_WS /\ True /\ fget f' 8 = N.lor (fget f 8) (cache_attr_bits o) /\
  forall j, j <> 8%nat -> ~ In (fld_range CACHE_WS j) ((fun _ => CACHE_NOT_ATTR) o) -> fget f' j = fget f j.
Proof.
  intros Hw _ H.
  assert (Hl : length f = 11%nat) by (rewrite <- widths_length, Hw; reflexivity).
  unfold cache_setter in H. dmatch_in H;
    try (destruct (handle_ref s _); [cbn [option_bind] in H|discriminate H]);
    inversion H; subst f'; clear H;
    (split; [rewrite ?widths_fset, ?widths_f_or, ?widths_fset; exact Hw|]); (split; [exact I|]);
    cbn [cache_attr_bits]; rewrite <- ?alloc_bits_spec, <- ?ctype_bits_spec, <- ?policy_bits_spec;
    (split; [fg0; dmatch_goal; rewrite ?N.lor_0_r; reflexivity | unfold CACHE_NOT_ATTR; intros j Hj Hn; fg Hn; reflexivity]).
Qed.

Lemma cache_valid_bit_small o : cache_valid_bit o < 2 ^ (8 * N.of_nat (fwid CACHE_WS 3)).
Proof. unfold cache_valid_bit. dmatch_goal; reflexivity. Qed.

Lemma cache_attr_bits_small o : cache_attr_bits o < 2 ^ (8 * N.of_nat (fwid CACHE_WS 8)).
Proof.
  change (2 ^ (8 * N.of_nat (fwid CACHE_WS 8))) with 256.
  unfold cache_attr_bits, cache_alloc_field, cache_type_field, cache_policy_field.
  dmatch_goal; try reflexivity;
    match goal with |- context [?a <=? ?b] => destruct (N.leb_spec a b) end; try reflexivity; rewrite ?shiftl_mul;
    try change (2 ^ 2) with 4; try change (2 ^ 4) with 16; lia.
Qed.

(* the valid bit k-1 is carried by exactly the calls of setter k *)
Lemma cache_valid_bit_gate k o : In k [1; 2; 3; 4; 5; 6; 7; 8] -> N.testbit (cache_valid_bit o) (k - 1) = cache_supplies k o.
Proof.
  intros Hk. cbn [In] in Hk.
  destruct Hk as [<-|[<-|[<-|[<-|[<-|[<-|[<-|[<-|[]]]]]]]]]; unfold cache_valid_bit, cache_supplies; dmatch_goal; reflexivity.
Qed.

(* for EVERY sequence of setter calls the model accepts:
   - the Flags dword (offset 4) is the union of the valid bits of the setters called, so bit k-1 is set iff setter k was called;
   - the attributes byte (offset 21) is the union of the specification's sub-field values of the enumerated options given;
   - every byte outside the Flags dword and outside the value fields of the setters called is that of a default cache node *)
Theorem pptt_cache_options s st e :
  pptt_addition s (SL [SA 2; SL st]) = Some e ->
  length (a_bytes e) = 28%nat /\
  field_at (a_bytes e) 4 4 = big_or (map cache_valid_bit st) /\
  (forall k, In k [1; 2; 3; 4; 5; 6; 7; 8] -> N.testbit (field_at (a_bytes e) 4 4) (k - 1) = existsb (cache_supplies k) st) /\
  field_at (a_bytes e) 21 1 = big_or (map cache_attr_bits st) /\
  forall k, ~ in_ranges k (cache_flags_at :: concat (map cache_call_ranges st)) -> nth k (a_bytes e) 0 = nth k CACHE_BLANK 0.
Proof.
  cbn [pptt_addition]. rewrite cache_setters_fold.
  destruct (fold_opt (cache_setter s) cache_default st) as [f|] eqn:E; [|discriminate].
  cbn [option_bind]. intros H; inversion H; subst e; clear H. cbn [a_bytes].
  destruct (flag_bytes (cache_setter s) CACHE_WS 3 (fun _ => True) cache_valid_bit cache_call_ranges ltac:(cbn; lia)
              cache_valid_bit_small (cache_step_flags s) st cache_default f eq_refl I ltac:(reflexivity) E) as (Hlen & Hfl & Hfr).
  destruct (flag_bytes (cache_setter s) CACHE_WS 8 (fun _ => True) cache_attr_bits (fun _ => CACHE_NOT_ATTR) ltac:(cbn; lia)
              cache_attr_bits_small (cache_step_attr s) st cache_default f eq_refl I ltac:(reflexivity) E) as (_ & Hat & _).
  change (fget cache_default 3) with 0 in Hfl. change (fget cache_default 8) with 0 in Hat. rewrite N.lor_0_l in Hfl, Hat.
  change (foff CACHE_WS 3) with 4%nat in Hfl. change (fwid CACHE_WS 3) with 4%nat in Hfl.
  change (foff CACHE_WS 8) with 21%nat in Hat. change (fwid CACHE_WS 8) with 1%nat in Hat.
  split; [exact Hlen|]. split; [exact Hfl|]. split; [|split; [exact Hat|exact Hfr]].
  intros k Hk. rewrite Hfl. apply big_or_gate. intros o. now apply cache_valid_bit_gate.
Qed.

(* distinctness: eight different single valid bits; the three attribute sub-fields occupy disjoint bit groups (1:0, 3:2, 4) and
   map the values of each enumeration injectively *)
Lemma cache_options_distinct :
  distinct_single_bits cache_valid_table && below (2 ^ 32) cache_valid_table = true /\
  map cache_alloc_field [0; 1; 2] = [0; 1; 2] /\ map cache_type_field [0; 1; 2] = [0; 4; 8] /\ map cache_policy_field [0; 1] = [0; 16].
Proof. repeat split; reflexivity. Qed.

(* ================= processor hierarchy node ================= *)
Definition pn_rest (p : pnode) : N * N * list N := (pn_parent p, pn_uid p, pn_rres p).

Lemma pnode_builders_fold s l : forall p, pnode_builders s p l = fold_opt (pnode_builder s) p l.
Proof. induction l as [|o l IH]; intros p; cbn [pnode_builders fold_opt]; [reflexivity|]. destruct (pnode_builder s p o); [apply IH|reflexivity]. Qed.

(* one call: the flags word evolves as the specification says; an option call touches nothing else; any other call does to
   the rest of the node what it would do whatever the flags are *)
Lemma pnode_step s p o p' : pnode_builder s p o = Some p' ->
  pn_flags p' = pnode_flags_after (pn_flags p) o /\
  (pnode_is_option o = true -> pn_rest p' = pn_rest p) /\
  (pnode_is_option o = false -> forall q, pn_rest q = pn_rest p -> exists q', pnode_builder s q o = Some q' /\ pn_rest q' = pn_rest p').
Proof.
  unfold pnode_builder, pn_rest. intros H.
  dmatch_in H; try (destruct (handle_ref s _) as [c|] eqn:Eh; [cbn [option_bind] in H|discriminate H]);
    inversion H; subst p'; clear H; cbn [pn_or pn_flags pn_parent pn_uid pn_rres pnode_flags_after pnode_call_bit];
    rewrite ?N.lor_0_r;
    (split; [reflexivity|]); (split; [intros Ho; first [reflexivity | discriminate Ho] |]);
    intros Ho q Hq; first [discriminate Ho | idtac]; injection Hq as Hq1 Hq2 Hq3;
    try rewrite Eh; cbn [option_bind]; eexists; (split; [reflexivity|]); cbn [pn_parent pn_uid pn_rres]; congruence.
Qed.

Definition pnode_nonoption (o : sx) : bool := negb (pnode_is_option o).

Lemma pnode_sim s : forall bs p q p', pn_rest q = pn_rest p -> fold_opt (pnode_builder s) p bs = Some p' ->
  pn_flags p' = fold_left pnode_flags_after bs (pn_flags p) /\
  exists q', fold_opt (pnode_builder s) q (filter pnode_nonoption bs) = Some q' /\ pn_rest q' = pn_rest p'.
Proof.
  induction bs as [|o bs IH]; intros p q p' Hq H; cbn [fold_opt] in H.
  - inversion H; subst. split; [reflexivity|]. exists q. split; [reflexivity|exact Hq].
  - destruct (pnode_builder s p o) as [p1|] eqn:E; [|discriminate].
    destruct (pnode_step s p o p1 E) as (Hf & Hopt & Hnon).
    cbn [fold_left filter]. unfold pnode_nonoption at 1. destruct (pnode_is_option o) eqn:Eo; cbn [negb].
    + destruct (IH p1 q p' ltac:(rewrite Hq; symmetry; now apply Hopt) H) as (Hf' & q' & Hq' & Hr').
      split; [now rewrite Hf', Hf|]. exists q'. split; assumption.
    + destruct (Hnon eq_refl q Hq) as (q1 & Eq1 & Hr1).
      destruct (IH p1 q1 p' Hr1 H) as (Hf' & q' & Hq' & Hr').
      split; [now rewrite Hf', Hf|]. exists q'. cbn [fold_opt]. rewrite Eq1. split; assumption.
Qed.

(* without a direct assignment of node.flags the fold is the plain union *)
Lemma pnode_flags_union bs : forall a, forallb (fun o => negb (pnode_assigns_flags o)) bs = true ->
  fold_left pnode_flags_after bs a = N.lor a (big_or (map pnode_call_bit bs)).
Proof.
  induction bs as [|o bs IH]; intros a H; cbn [fold_left map big_or fold_right]; [now rewrite N.lor_0_r|].
  cbn [forallb] in H. apply andb_true_iff in H. destruct H as [Ho Hb].
  fold (big_or (map pnode_call_bit bs)). rewrite IH by exact Hb. rewrite N.lor_assoc. f_equal.
  unfold pnode_flags_after, pnode_assigns_flags in *. dmatch_goal; try reflexivity; discriminate Ho.
Qed.

(* after the last direct assignment: its value, united with the options invoked since *)
Lemma pnode_flags_after_assign pre v post a : forallb (fun o => negb (pnode_assigns_flags o)) post = true ->
  fold_left pnode_flags_after (pre ++ SL [SA 7; SA v] :: post) a = N.lor v (big_or (map pnode_call_bit post)).
Proof. intros H. rewrite fold_left_app. cbn [fold_left]. cbn [pnode_flags_after]. now apply pnode_flags_union. Qed.

Lemma pnode_call_bit_small o : pnode_call_bit o < 2 ^ 32.
Proof. unfold pnode_call_bit. dmatch_goal; reflexivity. Qed.

Definition pnode_post (p : pnode) : list N :=
  d4 (pn_parent p) ++ d4 (pn_uid p) ++ d4 (N.of_nat (length (pn_rres p))) ++ pp_dwords (frev (pn_rres p)).

Lemma pnode_bytes_shape p b : pnode_bytes p = Some b ->
  b = (b1 0 ++ b1 (pnode_len p) ++ w2 0) ++ le 4 (pn_flags p) ++ pnode_post p.
Proof.
  unfold pnode_bytes, pnode_post. destruct (assert _); [|discriminate]. cbn [option_bind]. intros H; inversion H.
  rewrite <- !app_assoc. reflexivity.
Qed.

Lemma pnode_bytes_rest p q b : pn_rest q = pn_rest p -> pnode_bytes p = Some b ->
  exists b', pnode_bytes q = Some b' /\ pnode_len q = pnode_len p /\ pnode_post q = pnode_post p.
Proof.
  unfold pn_rest. intros Hq H. injection Hq as H1 H2 H3.
  assert (Hl : pnode_len q = pnode_len p) by (unfold pnode_len; now rewrite H3).
  unfold pnode_bytes in *. rewrite Hl. destruct (assert _); [|discriminate]. cbn [option_bind].
  eexists. split; [reflexivity|]. split; [reflexivity|]. unfold pnode_post. now rewrite H1, H2, H3.
Qed.

(* for EVERY sequence of builder calls (options, add_cache, field assignments, in any order and number) the model accepts:
   - the Flags dword (offset 4) is the specification's fold of the calls; without a direct assignment of node.flags it is the union
     of the bits of the options invoked; after a direct assignment it is that value united with the options invoked since;
   - removing every option call from the sequence gives an accepted node of the same size that differs from this one at most
     in the Flags dword *)
Theorem pptt_pnode_options s parent uid bs e :
  pptt_addition s (SL [SA 1; parent; SA uid; SL bs]) = Some e ->
  field_at (a_bytes e) 4 4 = fold_left pnode_flags_after bs 0 mod 2 ^ 32 /\
  (forallb (fun o => negb (pnode_assigns_flags o)) bs = true -> field_at (a_bytes e) 4 4 = big_or (map pnode_call_bit bs)) /\
  exists e0, pptt_addition s (SL [SA 1; parent; SA uid; SL (filter pnode_nonoption bs)]) = Some e0 /\
    length (a_bytes e) = length (a_bytes e0) /\
    forall k, ~ in_range k pnode_flags_at -> nth k (a_bytes e) 0 = nth k (a_bytes e0) 0.
Proof.
  cbn [pptt_addition]. destruct (pnode_new s parent uid) as [p0|] eqn:En; [|discriminate]. cbn [option_bind].
  rewrite !pnode_builders_fold.
  destruct (fold_opt (pnode_builder s) p0 bs) as [p|] eqn:E; [|discriminate]. cbn [option_bind].
  destruct (pnode_bytes p) as [b|] eqn:Eb; [|discriminate]. cbn [option_bind].
  intros H; inversion H; subst e; clear H. cbn [a_bytes].
  destruct (pnode_sim s bs p0 p0 p eq_refl E) as (Hf & q & Eq & Hr).
  assert (H0 : pn_flags p0 = 0).
  { unfold pnode_new in En. destruct (match parent with SL [] => Some 0 | _ => handle_ref s parent end); [|discriminate].
    cbn [option_bind] in En. inversion En. reflexivity. }
  rewrite H0 in Hf.
  destruct (pnode_bytes_rest p q b Hr Eb) as (b' & Eb' & Hl & Hp).
  pose proof (pnode_bytes_shape p b Eb) as Hs. pose proof (pnode_bytes_shape q b' Eb') as Hs'.
  assert (Hfield : field_at b 4 4 = fold_left pnode_flags_after bs 0 mod 2 ^ 32).
  { rewrite Hs, <- Hf. apply (field_at_mid (b1 0 ++ b1 (pnode_len p) ++ w2 0) 4). }
  split; [exact Hfield|]. split.
  - intros Hna. rewrite Hfield, pnode_flags_union, N.lor_0_l by exact Hna.
    apply N.mod_small. apply (big_or_map_lt pnode_call_bit 32), pnode_call_bit_small.
  - rewrite Eq. cbn [option_bind]. rewrite Eb'. cbn [option_bind]. eexists. split; [reflexivity|]. cbn [a_bytes].
    rewrite Hs, Hs', Hl, Hp. split.
    + rewrite !app_length, !length_le. reflexivity.
    + intros k Hk. apply nth_mid_frame. exact Hk.
Qed.

Lemma pnode_options_distinct : distinct_single_bits pnode_option_table && below (2 ^ 32) pnode_option_table = true.
Proof. reflexivity. Qed.
