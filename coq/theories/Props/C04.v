(* C04 -- caller values land at their specification offsets (image = reference encoding). Statements only.
   Generic part: every reference layout that passes the contiguity check decodes, with the independent field decoder, to
   exactly the values it was assembled from.  Per-structure part: the implementation model's serialisation equals the
   reference layout (grows table by table; see Proofs/Tables.v and the per-table P files). *)
From Coq Require Import NArith List.
From ACPI Require Import Lib.Bytes Lib.Sx Lib.Machine Impl.Fields Impl.Table Impl.Madt Spec.Layout Spec.MadtS Proofs.TableP Proofs.WalkP Proofs.MadtP.
From ACPI Require Import Impl.Mcfg Impl.Xsdt Impl.Srat Spec.McfgS Spec.XsdtS Spec.SratS
  Proofs.MadtRefP Proofs.McfgRefP Proofs.XsdtRefP Proofs.SratRefP Proofs.FadtRefP Proofs.RsdpRefP Proofs.FixedRefP.
From ACPI Require Import Impl.Rhct Impl.Viot Impl.Rimt Spec.RhctS Spec.ViotS Spec.RimtS Proofs.RhctRefP Proofs.ViotRefP Proofs.RimtRefP.
From ACPI Require Import Impl.Cedt Impl.Rqsc Impl.Hest Spec.CedtS Spec.RqscS Spec.HestS Proofs.RqscP Proofs.HestP Proofs.CedtRefP Proofs.RqscRefP Proofs.HestRefP.
From ACPI Require Import Impl.Pptt Impl.Hmat Impl.Slit Spec.PpttS Spec.HmatS Spec.SlitS Proofs.FixedP Proofs.PpttRefP Proofs.HmatRefP Proofs.SlitRefP.
From ACPI Require Import Impl.Fadt Impl.Spcr Impl.Bert Impl.Tpm2 Impl.Rsdp Impl.Facs
  Spec.FadtS Spec.SpcrS Spec.BertS Spec.Tpm2S Spec.RsdpS Spec.FacsS.
Import ListNotations.
Open Scope N_scope.

Theorem c04_reference_layouts_decode :
  forall size l img, lay size l = Some img ->
    length img = size /\ forall o w v, In (o, w, v) l -> field_at img o w = v mod 2 ^ (8 * N.of_nat w).
Proof. exact lay_decodes. Qed.

Theorem c04_madt_structures :
  (forall uid id en, madt_entry_ref (SL [SA 1; SA uid; SA id; SA en]) = Some (ser_flds (local_apic uid id en))) /\
  (forall id addr gsi, madt_entry_ref (SL [SA 2; SA id; SA addr; SA gsi]) = Some (ser_flds (io_apic id addr gsi))) /\
  (forall id base ver, madt_entry_ref (SL [SA 4; SA id; SA base; SA ver]) = Some (ser_flds (gicd id base ver))) /\
  (forall base len, madt_entry_ref (SL [SA 6; SA base; SA len]) = Some (ser_flds (gicr base len))) /\
  (forall id base, madt_entry_ref (SL [SA 7; SA id; SA base]) = Some (ser_flds (gic_its id base))) /\
  (forall st hart uid ext ib isz,
      madt_entry_ref (SL [SA 8; SA st; SA hart; SA uid; SA ext; SA ib; SA isz]) = Some (ser_flds (rintc st hart uid ext ib isz))) /\
  (forall a b c d e g, madt_entry_ref (SL [SA 9; SA a; SA b; SA c; SA d; SA e; SA g]) = Some (ser_flds (imsic a b c d e g))).
Proof. exact madt_simple_entries_are_reference. Qed.

(* ------------------------------------------------------------------------------------------------
   Refinement: for EVERY constructor argument and EVERY finite history inside the reference's domain (ts_image = Some r), in
   both build profiles, the implementation model accepts the history and its image is byte for byte the reference image r.
   [*_ops_wf] / [*_ctor_bytes] restrict the exchange language only (a builder list contains builder calls; the elements of a
   byte-array argument are bytes): no Rust caller can violate them; the [_refuted] examples in the proof files show that
   they are needed as long as the case language can express such inputs. *)
Theorem c04_madt_refines :
  forall md ctor ops r,
    ts_image madt_spec ctor ops = Some r -> madt_ops_wf ops -> N.of_nat (length r) < 2 ^ 32 ->
    exists s0 s, madt_new ctor = Some s0 /\ run_adds madt_addition md s0 ops = Some s /\ tbl_image s = r.
Proof. exact madt_refines. Qed.

Theorem c04_mcfg_refines :
  forall md ctor ops r,
    ts_image mcfg_spec ctor ops = Some r -> N.of_nat (length r) < 2 ^ 32 ->
    exists s0 s, mcfg_new ctor = Some s0 /\ run_adds mcfg_addition md s0 ops = Some s /\ tbl_image s = r.
Proof. exact mcfg_refines. Qed.

Theorem c04_xsdt_refines :
  forall md ctor ops r,
    ts_image xsdt_spec ctor ops = Some r -> N.of_nat (length r) < 2 ^ 32 ->
    exists s0 s, xsdt_new ctor = Some s0 /\ run_adds xsdt_addition md s0 ops = Some s /\ tbl_image s = r.
Proof. exact xsdt_refines. Qed.

Theorem c04_srat_refines :
  forall md ctor ops r,
    ts_image srat_spec ctor ops = Some r -> srat_ops_wf ops -> N.of_nat (length r) < 2 ^ 32 ->
    exists s0 s, srat_new ctor = Some s0 /\ run_adds srat_addition md s0 ops = Some s /\ tbl_image s = r.
Proof. exact srat_refines. Qed.

(* RHCT, VIOT, RIMT: node references (handles returned by earlier additions) resolve to the same offsets on both sides *)
Theorem c04_rhct_refines :
  forall md ctor ops r,
    ts_image rhct_spec ctor ops = Some r -> N.of_nat (length r) < 2 ^ 32 ->
    exists s0 s, rhct_new ctor = Some s0 /\ run_adds rhct_addition md s0 ops = Some s /\ tbl_image s = r.
Proof. exact rhct_refines. Qed.

Theorem c04_viot_refines :
  forall md ctor ops r,
    ts_image viot_spec ctor ops = Some r ->
    exists s0 s, viot_new ctor = Some s0 /\ run_adds viot_addition md s0 ops = Some s /\ tbl_image s = r.
Proof. exact viot_refines. Qed.

Theorem c04_rimt_refines :
  forall md ctor ops r,
    ts_image rimt_spec ctor ops = Some r -> N.of_nat (length r) < 2 ^ 32 ->
    exists s0 s, rimt_new ctor = Some s0 /\ run_adds rimt_addition md s0 ops = Some s /\ tbl_image s = r.
Proof. exact rimt_refines. Qed.

Theorem c04_cedt_refines :
  forall md ctor ops r,
    ts_image cedt_spec ctor ops = Some r -> N.of_nat (length r) < 2 ^ 32 ->
    exists s0 s, cedt_new ctor = Some s0 /\ run_adds cedt_addition md s0 ops = Some s /\ tbl_image s = r.
Proof. exact cedt_refines. Qed.

(* RQSC: controllers with nested resources *)
Theorem c04_rqsc_refines :
  forall md ctor ops r,
    ts_image rqsc_spec ctor ops = Some r -> N.of_nat (length r) < 2 ^ 32 ->
    exists s0 s, rqsc_new ctor = Some s0 /\ rqsc_run md s0 ops = Some s /\ Rqsc.rqsc_image s = r.
Proof. exact rqsc_refines. Qed.

(* HEST, histories of error-source additions (the five source types, any setter sequences).  The stand-alone structures are in
   Proofs/HestRefP.v (hest_refines), where the Generic Error Data structure is excluded: it is the open known finding
   (hest_refines_refuted_ged is its machine-checked witness: 58 bytes emitted, 72 in the reference). *)
Theorem c04_hest_refines :
  forall md ctor ops r,
    ts_image hest_spec ctor ops = Some r ->
    forallb (fun o => negb (is_alone_op o)) ops = true ->
    N.of_nat (length r) < 2 ^ 32 ->
    exists t0 s, hest_new ctor = Some t0 /\ hest_run md {| hs_tbl := t0; hs_alone := None |} ops = Some s /\
                 Hest.hest_image s = Some r.
Proof. exact hest_table_refines. Qed.

(* PPTT (processor and cache nodes referring to earlier nodes by handle; cache attribute setters), HMAT (proximity, memory-side
   cache and system-locality structures with any sequence of cell assignments), SLIT (any accepted cell assignments) *)
Theorem c04_pptt_refines :
  forall md ctor ops r,
    ts_image pptt_spec ctor ops = Some r -> N.of_nat (length r) < 2 ^ 32 ->
    exists s0 s, pptt_new ctor = Some s0 /\ run_adds pptt_addition md s0 ops = Some s /\ tbl_image s = r.
Proof. exact pptt_refines. Qed.

Theorem c04_hmat_refines :
  forall md ctor ops r,
    ts_image hmat_spec ctor ops = Some r -> N.of_nat (length r) < 2 ^ 32 ->
    exists s0 s, hmat_new ctor = Some s0 /\ run_adds (hmat_addition md) md s0 ops = Some s /\ tbl_image s = r.
Proof. exact hmat_refines. Qed.

Theorem c04_slit_refines :
  forall md ctor ops r,
    ts_image slit_spec ctor ops = Some r ->
    exists s0 s, slit_new ctor = Some s0 /\ run_steps (slit_step md) s0 ops = Some s /\ Impl.Slit.slit_image s = r.
Proof. exact slit_refines. Qed.

(* FADT (any builder calls), SPCR, BERT, TCPA server / client, TPM2 (with or without log area), RSDP, FACS;
   refines spec wf new step image := forall md ctor ops r, ts_image spec ctor ops = Some r -> wf ctor ->
                                     exists s0 s, new ctor = Some s0 /\ run_steps (step md) s0 ops = Some s /\ image s = r *)
Theorem c04_fixed_structures_refine :
  refines fadt_spec fadt_ctor_bytes fadt_new fadt_step fadt_image /\
  refines spcr_spec any_ctor spcr_new spcr_step spcr_bytes /\
  refines bert_spec any_ctor bert_new bert_step bert_bytes /\
  refines tpmserver_spec any_ctor tpmserver_new tpmserver_step tpmserver_bytes /\
  refines tpmclient_spec any_ctor tpmclient_new tpmclient_step tpmclient_bytes /\
  refines tpm2_spec any_ctor tpm2_new tpm2_step tpm2_bytes /\
  refines rsdp_spec rsdp_ctor_bytes rsdp_new rsdp_step rsdp_bytes /\
  refines facs_spec any_ctor facs_new facs_step ser_flds.
Proof. exact fixed_refines. Qed.

(* The small public items outside the table components (component 32): sdt.rs GenericAddress::io_port_address / mmio_address
   for an access type of 1, 2, 4 or 8 bytes, and the associated size functions.  On the reference's whole domain the model's
   observations are the reference's, in both build profiles; the independent decoder returns the caller's values. *)
From ACPI Require Import Impl.Misc Spec.MiscS Proofs.MiscP.
Theorem c04_misc_refines : forall md c r, misc_ref c = Some r -> misc_case md c = r.
Proof. exact misc_refines. Qed.

Theorem c04_generic_address_decodes : forall space k addr r code,
  gas_ref space k addr = Some r -> access_code k = Some code -> space < 256 -> addr < 2 ^ 64 ->
  gas_decode r = Some (space, 8 * k, 0, code, addr).
Proof. exact gas_ref_decodes. Qed.


Print Assumptions c04_reference_layouts_decode.
Print Assumptions c04_madt_structures.
Print Assumptions c04_madt_refines.
Print Assumptions c04_mcfg_refines.
Print Assumptions c04_xsdt_refines.
Print Assumptions c04_srat_refines.
Print Assumptions c04_fixed_structures_refine.
Print Assumptions c04_rhct_refines.
Print Assumptions c04_viot_refines.
Print Assumptions c04_rimt_refines.
Print Assumptions c04_cedt_refines.
Print Assumptions c04_rqsc_refines.
Print Assumptions c04_hest_refines.
Print Assumptions c04_pptt_refines.
Print Assumptions c04_hmat_refines.
Print Assumptions c04_slit_refines.
Print Assumptions c04_misc_refines.
Print Assumptions c04_generic_address_decodes.
