(* C04 -- caller values land at their specification offsets (image = reference encoding). Statements only.
   Generic part: every reference layout that passes the contiguity check decodes, with the independent field decoder, to
   exactly the values it was assembled from.  Per-structure part: the implementation model's serialisation equals the
   reference layout (grows table by table; see Proofs/Tables.v and the per-table P files). *)
From Coq Require Import NArith List.
From ACPI Require Import Lib.Bytes Lib.Sx Impl.Fields Impl.Madt Spec.Layout Spec.MadtS Proofs.WalkP Proofs.MadtP.
Import ListNotations.
Open Scope N_scope.

Theorem c04_reference_layouts_decode :
  forall size l img, lay size l = Some img ->
    length img = size /\ forall o w v, In (o, w, v) l -> field_at img o w = v mod 2 ^ (8 * N.of_nat w).
Proof. exact lay_decodes. Qed.

Theorem c04_madt_structures :
  (forall uid id en, madt_entry_ref (SL [SA 1; SA uid; SA id; SA en]) = Some (ser_flds (local_apic uid id en))) /\
  (forall id addr gsi, madt_entry_ref (SL [SA 2; SA id; SA addr; SA gsi]) = Some (ser_flds (io_apic id addr gsi))) /\
  (forall id base ver, madt_entry_ref (SL [SA 4; SA id; SA base; SA ver]) = Some (ser_flds (gicd id base ver))) /\
  (forall base len, madt_entry_ref (SL [SA 6; SA base; SA len]) = Some (ser_flds (gicr base len))) /\
  (forall id base, madt_entry_ref (SL [SA 7; SA id; SA base]) = Some (ser_flds (gic_its id base))) /\
  (forall st hart uid ext ib isz,
      madt_entry_ref (SL [SA 8; SA st; SA hart; SA uid; SA ext; SA ib; SA isz]) = Some (ser_flds (rintc st hart uid ext ib isz))) /\
  (forall a b c d e g, madt_entry_ref (SL [SA 9; SA a; SA b; SA c; SA d; SA e; SA g]) = Some (ser_flds (imsic a b c d e g))).
Proof. exact madt_simple_entries_are_reference. Qed.

Print Assumptions c04_reference_layouts_decode.
Print Assumptions c04_madt_structures.
