(* C14 -- output is deterministic and independent of the receiving sink. Statements only.
   PARTIAL by nature: that an object talks to its sink only through the five trait methods and has no interior mutability is
   a fact about Rust's type system and the crate's source, not about the model; what the model carries is proved here, the
   rest is checked by the correspondence harness (every generated object into six sinks, twice). *)
From Coq Require Import NArith List.
From ACPI Require Import Lib.Bytes Lib.Sx Lib.Machine Impl.Checksum Impl.Fields Impl.Sink Impl.Sdt Impl.Gas Impl.Sink2
  Spec.Layout Proofs.SinkP Proofs.SdtP Proofs.Sink2P.
Import ListNotations.
Open Scope N_scope.

(* a sink implementing only the mandatory single-byte method observes exactly the flattened byte stream, however the
   serialiser chunked it across byte / word / dword / qword / slice calls (every trace, every sink state type) *)
Theorem c14_byte_only_sink :
  forall (S : Type) (bytef : S -> N -> S) (t : list scall) (s : S),
    run_default bytef s t = fold_left bytef (flatten t) s.
Proof. intros. apply run_default_flat. Qed.

(* hence two serialisations with the same concatenation cannot be told apart by such a sink *)
Theorem c14_chunking_invisible :
  forall (S : Type) (bytef : S -> N -> S) t1 t2 s, flatten t1 = flatten t2 -> run_default bytef s t1 = run_default bytef s t2.
Proof. intros. now apply same_flat_same_obs. Qed.

(* the built-in vector sink appends the flattened stream; the checksum sink adds it *)
Theorem c14_vec_sink : forall t s, run_vec s t = s ++ flatten t.
Proof. intros. apply run_vec_flat. Qed.

Theorem c14_checksum_sink : forall t s, run_cksum s t = ck_append s (flatten t).
Proof. intros. apply run_cksum_flat. Qed.

(* the byte-sum helper equals the arithmetic sum of the serialised bytes *)
Theorem c14_u8sum : forall t, run_cksum 0 t = sum8 (flatten t).
Proof. exact u8sum_is_sum8. Qed.

Print Assumptions c14_byte_only_sink.
Print Assumptions c14_chunking_invisible.
Print Assumptions c14_vec_sink.
Print Assumptions c14_checksum_sink.
Print Assumptions c14_u8sum.

(* ---------------- the two other sinks the crate implements ---------------- *)

(* impl AmlSink for Sdt (byte = append::<u8>, everything else by the trait defaults): the table after any trace of sink
   calls is the table after one append::<u8> per byte of the flattened stream, in order (None = a refused append, after
   which nothing more happens); so two traces with the same concatenation leave the same table *)
Theorem c14_sdt_sink :
  forall md (t : list scall) (s : sdt_state),
    run_sdt md s t = fold_left (sdt_append_byte md) (flatten t) (Some s) /\
    (forall t2, flatten t = flatten t2 -> run_sdt md s t = run_sdt md s t2).
Proof. intros md t s. split; [apply run_sdt_flat|intros t2 H; now apply run_sdt_chunking]. Qed.

(* pushing a serialiser through the Sdt sink byte by byte gives the SAME table as ONE append_slice of its flattened bytes,
   for every table of at least 36 bytes and every (non-empty, well-typed) trace that keeps it below 2^32 bytes; and that
   table is: the old bytes followed by the stream (outside Length and Checksum), Length = its size, bytes summing to 0 *)
Theorem c14_sdt_sink_is_append_slice :
  forall md (v : sdt_state) (t : list scall),
    (36 <= length v)%nat -> trace_ok t = true -> flatten t <> [] ->
    N.of_nat (length v + length (flatten t)) < 2 ^ 32 ->
    run_sdt md v t = sdt_append_slice md v (flatten t) /\
    exists img, run_sdt md v t = Some img /\ appended_image v (flatten t) img.
Proof.
  intros md v t Hv Hok Hne Hsz. apply trace_ok_flat in Hok. split; [now apply run_sdt_is_append_slice|].
  exists (sappend v (flatten t)). split; [|now apply sappend_appended_image].
  apply run_sdt_sappend; try assumption. now apply lt32_lt64.
Qed.

(* the empty delivery too, when the table's header is up to date (e.g. any table that results from an append) *)
Theorem c14_sdt_sink_is_append_slice_any_trace :
  forall md (v : sdt_state) (t : list scall),
    (36 <= length v)%nat -> sdt_canon v -> trace_ok t = true -> N.of_nat (length v + length (flatten t)) < 2 ^ 32 ->
    run_sdt md v t = sdt_append_slice md v (flatten t).
Proof. intros md v t Hv Hc Hok Hsz. apply trace_ok_flat in Hok. now apply run_sdt_is_append_slice_canon. Qed.

Theorem c14_sdt_canon_after_append : forall v a, (36 <= length v)%nat -> sdt_canon (sappend v a).
Proof. exact sappend_canon. Qed.

(* impl AmlSink for PackageBuilder: data after the trace = data before ++ flattened stream, element counter untouched;
   add_element = that, plus one on the counter *)
Theorem c14_package_builder_sink :
  forall (t : list scall) (s : pkgb_state),
    pb_data (run_pkgb s t) = pb_data s ++ flatten t /\
    pb_elements (run_pkgb s t) = pb_elements s /\
    pkgb_add_element s t = mk_pkgb (pb_data s ++ flatten t) (pb_elements s + 1).
Proof. intros t s. repeat split; [apply run_pkgb_data|apply run_pkgb_elements|apply pkgb_add_element_spec]. Qed.

(* ---------------- raw form = serialised form ---------------- *)

(* GAS is the one structure with both a derive (as_bytes: the packed fields in declaration order) and a hand-written
   serialiser (byte, byte, byte, byte, qword): the two byte strings are equal for every field value
   (register_bit_width and register_bit_offset are u8 fields; the two enum fields are cast `as u8` by the serialiser,
   the address is any value), and u8sum of the structure is the arithmetic sum of either *)
Theorem c14_gas_raw_is_serialised :
  forall space width offset access addr, width < 256 -> offset < 256 ->
    flatten (gas_ser space width offset access addr) = gas_raw space width offset access addr /\
    u8sum_of (gas_ser space width offset access addr) = sum8 (gas_raw space width offset access addr).
Proof. intros sp w o a addr Hw Ho. split; [now apply gas_raw_is_serialised|now apply u8sum_gas]. Qed.

(* aml_as_bytes!(T): the serialiser is one slice call carrying the raw form, so serialised = raw and u8sum = sum of raw,
   for every packed field list *)
Theorem c14_as_bytes_raw_is_serialised :
  forall f : flds, flatten (flds_ser f) = ser_flds f /\ u8sum_of (flds_ser f) = sum8 (ser_flds f).
Proof. intros f. split; [apply flds_ser_flat|apply u8sum_flds]. Qed.

(* hence a GAS handed to the Sdt sink through its serialiser = its raw form appended as one slice *)
Theorem c14_gas_into_sdt :
  forall md v space width offset access addr, width < 256 -> offset < 256 ->
    (36 <= length v)%nat -> N.of_nat (length v + 12) < 2 ^ 32 ->
    run_sdt md v (gas_ser space width offset access addr) = sdt_append_slice md v (gas_raw space width offset access addr).
Proof. intros. now apply gas_into_sdt. Qed.

(* chunking is invisible for GAS too: its four header bytes packed into ONE dword (shifts 8 / 16 / 24) then the qword
   deliver the raw form, for every field value (a wrong shift does not: ex_gas below) *)
Theorem c14_gas_packed_header :
  forall space width offset access addr, space < 256 -> width < 256 -> offset < 256 -> access < 256 ->
    flatten (gas_ser_packed 24 space width offset access addr) = gas_raw space width offset access addr.
Proof. exact gas_packed_is_raw. Qed.

(* the Sdt sink of this file is the function the correspondence harness compares with the crate (component 31, ops 5 / 6) *)
Theorem c14_sdt_sink_is_the_judged_model :
  forall md v,
    (forall b bytes, sx_bytes b = Some bytes -> sdt_op md v (SL [SA 6; b]) = Some (run_sdt md v [SVec bytes])) /\
    (forall x, sdt_op md v (SL [SA 5; SA 1; SA x]) = Some (run_sdt md v [SByte (x mod 256)]) /\
               sdt_op md v (SL [SA 5; SA 2; SA x]) = Some (run_sdt md v [SWord x]) /\
               sdt_op md v (SL [SA 5; SA 4; SA x]) = Some (run_sdt md v [SDword x]) /\
               sdt_op md v (SL [SA 5; SA 8; SA x]) = Some (run_sdt md v [SQword x])).
Proof. intros md v. split; [intros b bytes H; now apply sdt_op6_is_run_sdt|intros x; apply sdt_op5_is_run_sdt]. Qed.

Print Assumptions c14_sdt_sink.
Print Assumptions c14_sdt_sink_is_append_slice.
Print Assumptions c14_sdt_sink_is_append_slice_any_trace.
Print Assumptions c14_sdt_canon_after_append.
Print Assumptions c14_package_builder_sink.
Print Assumptions c14_gas_raw_is_serialised.
Print Assumptions c14_as_bytes_raw_is_serialised.
Print Assumptions c14_gas_into_sdt.
Print Assumptions c14_gas_packed_header.
Print Assumptions c14_sdt_sink_is_the_judged_model.

(* ---------------- non-vacuity ---------------- *)
(* a 36-byte table, and a 300-byte trace mixing all five entry points: the table grows 36 -> 336, across 256 *)
Definition ex_ctor : sx :=
  SL [SL [SA 84; SA 69; SA 83; SA 84]; SA 36; SA 1; SL [SA 67; SA 76; SA 79; SA 85; SA 68; SA 72];
      SL [SA 84; SA 69; SA 83; SA 84; SA 84; SA 69; SA 83; SA 84]; SA 1].
Definition ex_v36 : list N := match sdt_new ex_ctor with Some v => v | None => [] end.
Definition ex_t300 : list scall :=
  [SByte 0xAA; SWord 0xBBCC; SDword 0xDEADBEEF; SQword 0x0102030405060708; SVec (repeatN 0x5A 200); SWord 0x1234;
   SVec (repeatN 0xFF 83)].
(* the same 300 bytes, chunked differently *)
Definition ex_t300_bytes : list scall := map SByte (flatten ex_t300).
Definition ex_t300_one : list scall := [SVec (flatten ex_t300)].

Example ex_hypotheses :
  length ex_v36 = 36%nat /\ length (flatten ex_t300) = 300%nat /\ trace_ok ex_t300 = true /\ sdt_canon ex_v36.
Proof. vm_compute. repeat split. Qed.

Example ex_sdt_sink_crossing_256 :
  run_sdt Checked ex_v36 ex_t300 = sdt_append_slice Checked ex_v36 (flatten ex_t300) /\
  run_sdt Wrapping ex_v36 ex_t300 = run_sdt Checked ex_v36 ex_t300 /\
  run_sdt Checked ex_v36 ex_t300_bytes = run_sdt Checked ex_v36 ex_t300 /\
  run_sdt Checked ex_v36 ex_t300_one = run_sdt Checked ex_v36 ex_t300 /\
  match run_sdt Checked ex_v36 ex_t300 with
  | Some img => length img = 336%nat /\ field_at img 4 4 = 336 /\ nth 5 img 0 = 1 /\ sum8 img = 0 /\
                skipn 36 img = flatten ex_t300 /\ firstn 4 img = firstn 4 ex_v36 /\
                firstn 26 (skipn 10 img) = firstn 26 (skipn 10 ex_v36)
  | None => False
  end.
Proof. vm_compute. repeat split. Qed.

(* what the theorem excludes: a (hypothetical) Sdt sink that, instead of calling append, pushes the byte and adjusts
   Length and Checksum incrementally on their low bytes only -- it agrees with append_slice as long as the table stays
   below 256 bytes and differs as soon as Length carries into its second byte *)
Definition incr_byte (d : list N) (b : N) : list N :=
  let d1 := d ++ [b] in
  let d2 := upd d1 4 ((nth 4 d1 0 + 1) mod 256) in
  upd d2 9 (wsub8 (wsub8 (nth 9 d2 0) b) 1).

Example ex_incremental_sink_below_256 :
  Some (run_default incr_byte ex_v36 [SQword 0x0102030405060708; SVec (repeatN 0x5A 200)])
  = sdt_append_slice Checked ex_v36 (flatten [SQword 0x0102030405060708; SVec (repeatN 0x5A 200)]).
Proof. vm_compute. reflexivity. Qed.

Example ex_incremental_sink_refuted :
  Some (run_default incr_byte ex_v36 ex_t300) <> sdt_append_slice Checked ex_v36 (flatten ex_t300) /\
  field_at (run_default incr_byte ex_v36 ex_t300) 4 4 = 80.
Proof. split; [vm_compute; discriminate|vm_compute; reflexivity]. Qed.

(* PackageBuilder: the same three chunkings, and add_element *)
Example ex_package_builder :
  run_pkgb (mk_pkgb [1; 2; 3] 7) ex_t300 = mk_pkgb ([1; 2; 3] ++ flatten ex_t300) 7 /\
  run_pkgb (mk_pkgb [1; 2; 3] 7) ex_t300_bytes = run_pkgb (mk_pkgb [1; 2; 3] 7) ex_t300 /\
  run_pkgb (mk_pkgb [1; 2; 3] 7) ex_t300_one = run_pkgb (mk_pkgb [1; 2; 3] 7) ex_t300 /\
  pkgb_add_element pkgb_new [SByte 0x0A; SByte 5] = mk_pkgb [0x0A; 5] 1.
Proof. vm_compute. repeat split. Qed.

(* GAS: concrete values; the header packed into one dword with the right shifts is indistinguishable, with a wrong shift
   (access_size << 16 instead of << 24) the obligation breaks *)
Example ex_gas :
  flatten (gas_ser 0x7F 0x40 0x03 0x04 0x1122334455667788) = [0x7F; 0x40; 0x03; 0x04; 0x88; 0x77; 0x66; 0x55; 0x44; 0x33; 0x22; 0x11] /\
  gas_raw 0x7F 0x40 0x03 0x04 0x1122334455667788 = [0x7F; 0x40; 0x03; 0x04; 0x88; 0x77; 0x66; 0x55; 0x44; 0x33; 0x22; 0x11] /\
  u8sum_of (gas_ser 0x7F 0x40 0x03 0x04 0x1122334455667788) = (0x7F + 0x40 + 0x03 + 0x04 + 0x88 + 0x77 + 0x66 + 0x55 + 0x44 + 0x33 + 0x22 + 0x11) mod 256 /\
  flatten (gas_ser_packed 24 0x7F 0x40 0x03 0x04 0x1122334455667788) = gas_raw 0x7F 0x40 0x03 0x04 0x1122334455667788 /\
  flatten (gas_ser_packed 16 0x7F 0x40 0x03 0x04 0x1122334455667788) <> gas_raw 0x7F 0x40 0x03 0x04 0x1122334455667788.
Proof. repeat split; try (vm_compute; reflexivity). vm_compute. discriminate. Qed.
