(* C14 -- output is deterministic and independent of the receiving sink. Statements only.
   PARTIAL by nature: that an object talks to its sink only through the five trait methods and has no interior mutability is
   a fact about Rust's type system and the crate's source, not about the model; what the model carries is proved here, the
   rest is checked by the correspondence harness (every generated object into six sinks, twice). *)
From Coq Require Import NArith List.
From ACPI Require Import Lib.Bytes Lib.Sx Impl.Checksum Impl.Sink Proofs.SinkP.
Import ListNotations.
Open Scope N_scope.

(* a sink implementing only the mandatory single-byte method observes exactly the flattened byte stream, however the
   serialiser chunked it across byte / word / dword / qword / slice calls (every trace, every sink state type) *)
Theorem c14_byte_only_sink :
  forall (S : Type) (bytef : S -> N -> S) (t : list scall) (s : S),
    run_default bytef s t = fold_left bytef (flatten t) s.
Proof. intros. apply run_default_flat. Qed.

(* hence two serialisations with the same concatenation cannot be told apart by such a sink *)
Theorem c14_chunking_invisible :
  forall (S : Type) (bytef : S -> N -> S) t1 t2 s, flatten t1 = flatten t2 -> run_default bytef s t1 = run_default bytef s t2.
Proof. intros. now apply same_flat_same_obs. Qed.

(* the built-in vector sink appends the flattened stream; the checksum sink adds it *)
Theorem c14_vec_sink : forall t s, run_vec s t = s ++ flatten t.
Proof. intros. apply run_vec_flat. Qed.

Theorem c14_checksum_sink : forall t s, run_cksum s t = ck_append s (flatten t).
Proof. intros. apply run_cksum_flat. Qed.

(* the byte-sum helper equals the arithmetic sum of the serialised bytes *)
Theorem c14_u8sum : forall t, run_cksum 0 t = sum8 (flatten t).
Proof. exact u8sum_is_sum8. Qed.

Print Assumptions c14_byte_only_sink.
Print Assumptions c14_chunking_invisible.
Print Assumptions c14_vec_sink.
Print Assumptions c14_checksum_sink.
Print Assumptions c14_u8sum.
