(* Coherence of the executable AML judgement with the model the theorems are about.  Statements only
   (proofs: Proofs/CoherenceAmlP.v).

   The property theorems C06 / C07 / C10 / C15 speak about the Impl model ([enc], [norm], [wf]).  At run time a property
   is judged by the Spec-layer oracle functions ([c06_oracle], [c07_frame_oracle], [c10_oracle], [c15_oracle], combined by
   [oracle] in Judge.v) applied to the crate's observations; no property theorem mentions them.  The theorems below
   connect the two: on a stated, decidable domain of case S-expressions, in both build profiles, the oracle ACCEPTS the
   output of the model itself,
         oracle prop 40 c (run_case md 40 c) = true      (prop = 6, 7, 10, 15)
         oracle 15 41 c (run_case md 41 c) = true.
   Hence, on that domain, whenever the correspondence K holds (the crate's observations equal the model's) the judgement
   O cannot raise an alarm: an alarm always means K failed, never that the oracle disagrees with the theorems.

   Coverage: the WHOLE term language of component 40 (no constructor family is left out): ZERO ONE ONES, the five integer
   carriers, &str / String, Path, field names, EISAName, Uuid, BufferData, Arg, Local, the unary / binary / ternary /
   quaternary operators, Name, Device, Scope, Scope::raw, Method, PowerResource, OpRegion, Mutex, Acquire, Release,
   MethodCall, Field with its field list, Package, PackageBuilder, ResourceTemplate with the five descriptor kinds, If, Else,
   While; and bare descriptors (C10).

   The domain.  [judged 6 40 c] is the function the evidence already reports as "inside the oracle's domain":
   [expect false c] is defined (the Spec's own reading of the case: alphabet, counts, codes) and [env_consistent c] (every
   invoked name is invoked with one arity).  It is NOT by itself a domain of coherence (counterexample below); the theorems
   need, in addition, [extra c], three checks made on the term [t] the vocabulary reader [term_of_sx] builds from c:
     [argsb t]                  the arguments the exchange vocabulary leaves untyped are inside their Rust types: an integer
                                inside its carrier (u8 / u16 / u32 / u64 / usize), PowerResource level < 2^8 and order < 2^16,
                                OpRegion space < 2^8, Mutex sync level < 2^8, Acquire timeout < 2^16, descriptor arguments
                                [desc_in_range];
     [refsb (env_of c) false t] a bare Path or field name in TERM position (not a package element, not a name position) does
                                not name something the same case invokes with arguments;
     [weight t < 2^28]          the object, with every PkgLength counted at its maximal four bytes, is below the largest
                                encodable package (a larger well-formed tree is refused by the crate -- C18 -- while [expect]
                                still answers: outside this bound the C06 oracle reports the refusal as a violation).
   Everything else the C06 round trip needs ([wf]: name alphabet, segment counts, operator codes, argument arities against
   the arity table, field list entries, descriptor children ...) and everything the model needs in order not to refuse
   ([emitb]) is PROVED from [judged 6 40 c] ([derive] in the proofs file), and the Spec's expected tree is proved to be the
   normal form of the term the model encodes ([link]: term_of_sx c = Some t -> argsb t -> expect el c = Some g ->
   norm el t = Some g), for both positions el. *)
From Coq Require Import NArith List.
From ACPI Require Import Lib.Bytes Lib.Sx Lib.Machine Impl.AmlCore Impl.AmlTerm Spec.AmlCoreS Spec.AmlTermS
  Proofs.AmlRoundTrip Judge Proofs.CoherenceAmlP.
Import ListNotations.
Open Scope N_scope.

(* the domain, unfolded (definitions in Proofs/CoherenceAmlP.v) *)
Example coh_domain_unfold c :
  coh_domain c = judged 6 40 c &&
                 match term_of_sx c with
                 | Some t => argsb t && refsb (env_of c) false t && (N.of_nat (weight t) <? 2 ^ 28)
                 | None => false
                 end.
Proof. reflexivity. Qed.

(* the key link between the two independent readings of a case: the Spec's expected tree is the normal form of the term
   the model encodes, wherever the Spec's reading is defined (both positions) *)
Theorem coherence_expect_is_norm :
  forall c el t g, term_of_sx c = Some t -> argsb t = true -> expect el c = Some g -> norm el t = Some g.
Proof. intros c el t g Ht Ha Hg. exact (link c el t Ht Ha g Hg). Qed.

(* well-formedness for the round trip and the model's not refusing follow from the Spec's own checks *)
Theorem coherence_expect_gives_wf :
  forall c t g, term_of_sx c = Some t -> expect false c = Some g -> env_consistent c = true ->
    argsb t = true -> refsb (env_of c) false t = true ->
    wf (env_of c) false t /\
    (forall md, N.of_nat (weight t) < 2 ^ 28 -> exists b, enc md t = Some b /\ (depth t <= length b <= weight t)%nat).
Proof.
  intros c t g Ht Hg Hc Ha Hr.
  destruct (derive (calls_of c) Hc c false t g Ht Hg Ha Hr (incl_refl _)) as [Wf Em].
  split; [exact Wf|]. intros md Hw. exact (EM_all t md Em Hw).
Qed.

(* C06: the model's bytes parse completely, with the oracle's fuel and the oracle's arity table, to the expected tree *)
Theorem coherence_C06 :
  forall md c, coh_domain c = true -> oracle 6 40 c (run_case md 40 c) = true.
Proof. exact coherence_c06. Qed.

(* C07 at the call sites: PkgLength value, lead-byte format, minimality (and the C06 judgement it is combined with) *)
Theorem coherence_C07 :
  forall md c, coh_domain c = true -> oracle 7 40 c (run_case md 40 c) = true.
Proof. exact coherence_c07. Qed.

(* C10 on the C06 domain (a resource template: declared size, tiling by the descriptors' own length fields, reference
   payload, end tag; any other judged term: nothing to say) *)
Theorem coherence_C10 :
  forall md c, coh_domain c = true -> oracle 10 40 c (run_case md 40 c) = true.
Proof. exact coherence_c10. Qed.

(* C10 on a bare descriptor with in-range arguments: the reference bytes, one walker item -- or both refuse *)
Theorem coherence_C10_descriptor :
  forall md c, desc_domain c = true -> oracle 10 40 c (run_case md 40 c) = true.
Proof. exact coherence_c10_desc. Qed.

(* C15 on component 40 *)
Theorem coherence_C15 :
  forall md c, coh_domain c = true -> oracle 15 40 c (run_case md 40 c) = true.
Proof. exact coherence_c15. Qed.

(* C15 on component 41: a pair (x y) of alternative constructions of one object -- identical, Scope::new / Scope::raw,
   Package / PackageBuilder, &str / String, usize / u64 of one value below 2^64, at the top of the pair -- where, if the
   first is judged, it lies in the C06 domain: identical bytes, or a refusal of something the Spec does not expect *)
Theorem coherence_C15_pair :
  forall md x y, pair_domain x y -> oracle 15 41 (SL [x; y]) (run_case md 41 (SL [x; y])) = true.
Proof. exact coherence_c15_pair. Qed.

(* Outside the domain.  C06 (and C15 on component 40, which is the same judgement) says nothing about an unjudged case:
   whatever is observed is accepted.  So, for EVERY case c and both profiles, the C06 oracle accepts the model's own output
   unless c is judged and fails [extra] -- and there it can indeed reject it (examples at the end of this file). *)
Theorem coherence_C06_every_case :
  forall md c, (judged 6 40 c = true -> extra c = true) -> oracle 6 40 c (run_case md 40 c) = true.
Proof. exact c06_total. Qed.

(* The frame check of C07 needs no domain at all: on EVERY case, judged or not, read by the vocabulary or not, it accepts
   what the model emits (below 2^63 bytes) or refuses; with the C06 judgement it is combined with: *)
Theorem coherence_C07_frames_every_case :
  forall md c, (forall b, aml_case md c = [EvBytes b] -> N.of_nat (length b) < 2 ^ 63) ->
    c07_frame_oracle c (aml_case md c) = true.
Proof. exact c07_frame_all. Qed.

Theorem coherence_C07_every_case :
  forall md c, (judged 6 40 c = true -> extra c = true) ->
    (forall b, run_case md 40 c = [EvBytes b] -> N.of_nat (length b) < 2 ^ 63) ->
    oracle 7 40 c (run_case md 40 c) = true.
Proof. exact c07_total. Qed.

Print Assumptions coherence_expect_is_norm.
Print Assumptions coherence_expect_gives_wf.
Print Assumptions coherence_C06.
Print Assumptions coherence_C07.
Print Assumptions coherence_C10.
Print Assumptions coherence_C10_descriptor.
Print Assumptions coherence_C15.
Print Assumptions coherence_C15_pair.
Print Assumptions coherence_C06_every_case.
Print Assumptions coherence_C07_frames_every_case.
Print Assumptions coherence_C07_every_case.

(* ---------------------------------------------------------------------------------------------------------------------
   Non-vacuity.  A nested, realistic case:
     Device (\_SB_.PCI0) {
       Name (_HID, EisaId ("PNP0A08"))
       Name (_CRS, ResourceTemplate { Memory32Fixed, IO, Interrupt, QWordMemory })
       Method (MTST, 1, Serialized) {
         If (Arg0 == 5) { Store (MCAL (Local0, One), Local1)  Return (Local1) }
         Else { Return (Package { One, "AB", \_SB_ }) } }
       OperationRegion (REG0, SystemMemory, 0xFED00000, 0x100)
       Field (REG0, DWordAcc, Lock, Preserve) { FLD0, 8, , 24, FLD1, 300 }
       Mutex (MTX0, 0)   PowerResource (PWR0, 0, 0) {}   While (One) { Release (MTX0) }
     } *)
Definition by_ (l : list N) : sx := SL (map SA l).
Definition nm4 (a b c d : N) : sx := by_ [a; b; c; d].

Definition demo : sx :=
  SL [SA 41; by_ [92; 95; 83; 66; 95; 46; 80; 67; 73; 48];
      SL [ SL [SA 40; nm4 95 72 73 68; SL [SA 9; by_ [80; 78; 80; 48; 65; 48; 56]]];
           SL [SA 40; nm4 95 67 82 83;
               SL [SA 62; SL [ SL [SA 20; SA 1; SA 0xFED00000; SA 0x1000];
                               SL [SA 22; SA 0x3F8; SA 0x3F8; SA 1; SA 8];
                               SL [SA 23; SA 1; SA 0; SA 0; SA 0; SA 4];
                               SL [SA 21; SA 64; SA 0; SA 1; SA 1; SA 0x100000000; SA 0x1FFFFFFFF; SL []] ]]];
           SL [SA 44; nm4 77 84 83 84; SA 1; SA 1;
               SL [ SL [SA 63; SL [SA 31; SA 0; SL [SA 12; SA 0]; SL [SA 4; SA 8; SA 5]];
                        SL [ SL [SA 31; SA 6; SL [SA 13; SA 1]; SL [SA 50; nm4 77 67 65 76; SL [SL [SA 13; SA 0]; SL [SA 2]]]];
                             SL [SA 30; SA 2; SL [SA 13; SA 1]] ]];
                    SL [SA 64; SL [ SL [SA 30; SA 2; SL [SA 60; SL [SL [SA 2]; SL [SA 5; by_ [65; 66]]; SL [SA 7; by_ [92; 95; 83; 66; 95]]]]] ]] ]];
           SL [SA 46; nm4 82 69 71 48; SA 0; SL [SA 4; SA 32; SA 0xFED00000]; SL [SA 4; SA 16; SA 0x100]];
           SL [SA 51; nm4 82 69 71 48; SA 3; SA 1; SA 0;
               SL [SL [SA 0; nm4 70 76 68 48; SA 8]; SL [SA 1; SA 24]; SL [SA 0; nm4 70 76 68 49; SA 300]]];
           SL [SA 47; nm4 77 84 88 48; SA 0];
           SL [SA 45; nm4 80 87 82 48; SA 0; SA 0; SL []];
           SL [SA 65; SL [SA 2]; SL [SL [SA 49; nm4 77 84 88 48]]] ]].

Example demo_in_domain : coh_domain demo = true.
Proof. vm_compute. reflexivity. Qed.

(* the theorems apply to it, both profiles, every property *)
Example demo_coherent :
  forall md, oracle 6 40 demo (run_case md 40 demo) = true /\ oracle 7 40 demo (run_case md 40 demo) = true /\
             oracle 10 40 demo (run_case md 40 demo) = true /\ oracle 15 40 demo (run_case md 40 demo) = true.
Proof.
  intros md. split; [apply coherence_C06; exact demo_in_domain|]. split; [apply coherence_C07; exact demo_in_domain|].
  split; [apply coherence_C10; exact demo_in_domain|apply coherence_C15; exact demo_in_domain].
Qed.

(* the judgement is not trivially true on it: the model emits bytes, and a one-byte change of them is rejected *)
Example demo_nontrivial :
  match run_case Checked 40 demo with
  | [EvBytes (op :: rest)] => oracle 6 40 demo [EvBytes (op :: rest)] = true /\ oracle 6 40 demo [EvBytes (op :: rest ++ [0])] = false /\
                              oracle 6 40 demo [EvPanic] = false /\ Nat.ltb 200 (length rest) = true
  | _ => False
  end.
Proof. vm_compute. repeat split; reflexivity. Qed.

(* the template inside it, alone: C10 judges something (size, tiling, payload, end tag) *)
Definition demo_template : sx :=
  SL [SA 62; SL [ SL [SA 20; SA 1; SA 0xFED00000; SA 0x1000]; SL [SA 22; SA 0x3F8; SA 0x3F8; SA 1; SA 8];
                  SL [SA 23; SA 1; SA 0; SA 0; SA 0; SA 4];
                  SL [SA 21; SA 64; SA 0; SA 1; SA 1; SA 0x100000000; SA 0x1FFFFFFFF; SL [SA 0x1000]];
                  SL [SA 24; SA 0x7F; SA 64; SA 0; SA 4; SA 0xFED00000] ]].

Example demo_template_coherent :
  coh_domain demo_template = true /\ judged 10 40 demo_template = true /\
  (forall md, oracle 10 40 demo_template (run_case md 40 demo_template) = true) /\
  oracle 10 40 demo_template [EvBytes [0x11; 0x05; 0x0A; 0x02; 0x79; 0x00]] = false.
Proof.
  split; [vm_compute; reflexivity|]. split; [vm_compute; reflexivity|]. split; [|vm_compute; reflexivity].
  intros md. apply coherence_C10. vm_compute. reflexivity.
Qed.

(* a bare descriptor: accepted with its reference bytes; and a range both sides refuse *)
Definition demo_desc : sx := SL [SA 21; SA 32; SA 1; SA 0; SA 1; SA 0xD000; SA 0xDFFF; SL [SA 0x10000]].
Definition demo_desc_refused : sx := SL [SA 21; SA 64; SA 0; SA 0; SA 1; SA 0; SA 0xFFFFFFFFFFFFFFFF; SL []].

Example demo_desc_coherent :
  desc_domain demo_desc = true /\ desc_domain demo_desc_refused = true /\
  (forall md, oracle 10 40 demo_desc (run_case md 40 demo_desc) = true) /\
  (forall md, oracle 10 40 demo_desc_refused (run_case md 40 demo_desc_refused) = true) /\
  run_case Checked 40 demo_desc_refused = [EvPanic] /\
  match run_case Checked 40 demo_desc with [EvBytes b] => oracle 10 40 demo_desc [EvBytes (b ++ [0])] = false | _ => False end.
Proof.
  split; [vm_compute; reflexivity|]. split; [vm_compute; reflexivity|].
  split; [intros md; apply coherence_C10_descriptor; vm_compute; reflexivity|].
  split; [intros md; apply coherence_C10_descriptor; vm_compute; reflexivity|].
  split; vm_compute; reflexivity.
Qed.

(* component 41: Scope::new against Scope::raw with nested children; Package against PackageBuilder *)
Definition demo_kids : list sx :=
  [ SL [SA 40; nm4 95 72 73 68; SL [SA 9; by_ [80; 78; 80; 48; 65; 48; 56]]];
    SL [SA 44; nm4 77 84 83 84; SA 0; SA 0; SL [SL [SA 30; SA 2; SL [SA 60; SL [SL [SA 2]; SL [SA 5; by_ [65; 66]]]]]]];
    SL [SA 11; by_ [1; 2; 3; 255]] ].

Example demo_pair_coherent :
  pair_domain (SL [SA 42; nm4 95 83 66 95; SL demo_kids]) (SL [SA 43; nm4 95 83 66 95; SL demo_kids]) /\
  pair_domain (SL [SA 60; SL demo_kids]) (SL [SA 61; SL demo_kids]) /\
  (forall md, oracle 15 41 (SL [SL [SA 42; nm4 95 83 66 95; SL demo_kids]; SL [SA 43; nm4 95 83 66 95; SL demo_kids]])
                (run_case md 41 (SL [SL [SA 42; nm4 95 83 66 95; SL demo_kids]; SL [SA 43; nm4 95 83 66 95; SL demo_kids]])) = true) /\
  judged 15 41 (SL [SL [SA 42; nm4 95 83 66 95; SL demo_kids]; SL [SA 43; nm4 95 83 66 95; SL demo_kids]]) = true /\
  oracle 15 41 (SL [SL [SA 42; nm4 95 83 66 95; SL demo_kids]; SL [SA 43; nm4 95 83 66 95; SL demo_kids]])
    [EvBytes [0x10; 5; 95; 83; 66; 95]; EvBytes [0x10; 6; 95; 83; 66; 95]] = false.
Proof.
  assert (P1 : pair_domain (SL [SA 42; nm4 95 83 66 95; SL demo_kids]) (SL [SA 43; nm4 95 83 66 95; SL demo_kids])).
  { split; [apply alt_scope|]. intros _. vm_compute. reflexivity. }
  split; [exact P1|]. split; [split; [apply alt_pkg|intros _; vm_compute; reflexivity]|].
  split; [intros md; exact (coherence_C15_pair md _ _ P1)|]. split; vm_compute; reflexivity.
Qed.

(* ---------------------------------------------------------------------------------------------------------------------
   FINDING: [judged 6 40] alone is not a domain of coherence.  Scope (ABCD) { MFOO (Zero)  MFOO } -- a method invoked with
   one argument and, next to it, a bare reference to the same name in term position -- is judged ([expect] defined,
   [env_consistent]: only invocations enter the arity table), the model emits the obvious bytes, and the C06 oracle REJECTS
   them: its parser, told that MFOO takes one argument, looks for an argument after the bare reference.  The alarm is
   raised by O alone (K holds trivially: these are the model's own bytes).  [refsb] is the missing condition; the same
   happens with a field name (code 8) in place of the Path.  Cases of this kind do not occur in AML a compiler would
   accept (a reference to a method IS an invocation), and none was produced by the generator in the runs recorded so far. *)
Definition judged_but_rejected : sx :=
  SL [SA 42; nm4 65 66 67 68; SL [ SL [SA 50; nm4 77 70 79 79; SL [SL [SA 1]]]; SL [SA 7; nm4 77 70 79 79] ]].

Example judged_is_not_coherent :
  judged 6 40 judged_but_rejected = true /\
  run_case Checked 40 judged_but_rejected = [EvBytes [0x10; 14; 65; 66; 67; 68; 77; 70; 79; 79; 0; 77; 70; 79; 79]] /\
  oracle 6 40 judged_but_rejected (run_case Checked 40 judged_but_rejected) = false /\
  oracle 7 40 judged_but_rejected (run_case Checked 40 judged_but_rejected) = false /\
  oracle 15 40 judged_but_rejected (run_case Checked 40 judged_but_rejected) = false /\
  coh_domain judged_but_rejected = false.
Proof. vm_compute. repeat split; reflexivity. Qed.

(* the other two conditions of [extra] are needed as well.  An integer outside its carrier is truncated by the cast (the
   Spec expects the value given): *)
Example argsb_needed :
  judged 6 40 (SL [SA 4; SA 16; SA 70000]) = true /\
  oracle 6 40 (SL [SA 4; SA 16; SA 70000]) (run_case Checked 40 (SL [SA 4; SA 16; SA 70000])) = false /\
  coh_domain (SL [SA 4; SA 16; SA 70000]) = false.
Proof. vm_compute. repeat split; reflexivity. Qed.

(* The size: BufferData of n zero bytes, 2^28 <= n (below 2^62), is judged -- [expect] does not look at sizes --, the model
   refuses it in both profiles (as C18 demands of the crate), and the C06 oracle counts the refusal of a judged case as a
   violation.  (Not exhibited by computation: 256 MiB.  The C06 generator does not produce such cases; C18 judges them
   with its own oracle, which expects the refusal.) *)
Theorem coherence_size_bound_needed :
  forall md n, 2 ^ 28 <= N.of_nat n < 2 ^ 62 ->
    judged 6 40 (big_buffer n) = true /\ aml_case md (big_buffer n) = [EvPanic] /\
    c06_oracle (big_buffer n) (aml_case md (big_buffer n)) = false.
Proof. exact oversize_refusal_is_rejected. Qed.

Print Assumptions coherence_size_bound_needed.
