(* Coherence of the executable judgement (Judge.v: oracle, run_case) with the theorems about the Impl model, for the 21 table
   components 10..30.  Statements only; proofs in Proofs/CoherenceTablesP.v (generic), CoherenceFixedP.v, CoherenceAddP.v,
   CoherenceSpecialP.v, CoherenceAllP.v.

   For every WELL-FORMED case c = (ctor op ...) (every atom among the operations is the observation marker 1: [markers_ok])
   whose history [real_ops ops] lies inside the Spec's domain (ts_image = Some r: exactly what Judge.judged reports), in both
   build profiles, the oracles of C04 (also C11, C12), C01 and C02 ACCEPT the model's own observation stream:

       oracle 4 comp c (run_case md comp c) = true /\ oracle 1 comp c (run_case md comp c) = true /\
       oracle 2 comp c (run_case md comp c) = true

   Hence (no_false_alarm) whenever the correspondence K holds on such a case -- K as the driver computes it, through
   Judge.project -- the oracle accepts the implementation's stream: an ORACLE alarm on an in-domain case implies a
   disagreement between crate and model.  The executable judgement agrees with the theorems on ALL in-domain histories,
   not only the sampled ones.

   Hypotheses kept from the refinement theorems (Props/C04.v): the u32 Length bound on the reference image of the WHOLE
   history (the bound at the intermediate observations is derived: reference images do not shrink along a history),
   [madt_ops_wf] / [srat_ops_wf] (builder lists contain builder calls), [fadt_ctor_bytes] / [rsdp_ctor_bytes] (byte-array
   arguments are bytes), and for the HEST the restriction of c04_hest_refines to histories without stand-alone structures.

   The generic statement (Proofs/CoherenceTablesP.v, c04_coherent / images_coherent / c04_coherent_refines): for a model
   (new, step, image) run through run_history such that every accepted operation emits exactly one EvNum, which accepts the
   whole history and whose image at every prefix having a reference image IS that reference image,
       c04_oracle ts c (run_history image step new c) = true,
   and every boolean predicate true of the model's image after every prefix is true of every observed image. *)
From Coq Require Import NArith List Bool.
From ACPI Require Import Lib.Bytes Lib.Sx Spec.Layout Judge.
From ACPI Require Import Spec.XsdtS Spec.McfgS Spec.MadtS Spec.SratS Spec.SlitS Spec.HmatS Spec.PpttS Spec.RhctS Spec.RimtS
  Spec.ViotS Spec.CedtS Spec.HestS Spec.RqscS Spec.Tpm2S Spec.FadtS Spec.BertS Spec.SpcrS Spec.FacsS Spec.RsdpS.
From ACPI Require Import Proofs.MadtRefP Proofs.SratRefP Proofs.FadtRefP Proofs.RsdpRefP.
From ACPI Require Import Proofs.CoherenceTablesP Proofs.CoherenceFixedP Proofs.CoherenceAddP Proofs.CoherenceSpecialP Proofs.CoherenceAllP.
Import ListNotations.
Open Scope N_scope.

(* markers_ok ops = forallb (fun o => match o with SA n => n =? 1 | SL _ => true end) ops *)

Theorem coherence_xsdt : forall md ctor ops r,
  markers_ok ops = true ->
  ts_image xsdt_spec ctor (real_ops ops) = Some r ->
  N.of_nat (length r) < 2 ^ 32 ->
  let c := SL (ctor :: ops) in
  oracle 4 10 c (run_case md 10 c) = true /\ oracle 1 10 c (run_case md 10 c) = true /\ oracle 2 10 c (run_case md 10 c) = true.
Proof. exact xsdt_coherent. Qed.

Theorem coherence_mcfg : forall md ctor ops r,
  markers_ok ops = true ->
  ts_image mcfg_spec ctor (real_ops ops) = Some r ->
  N.of_nat (length r) < 2 ^ 32 ->
  let c := SL (ctor :: ops) in
  oracle 4 11 c (run_case md 11 c) = true /\ oracle 1 11 c (run_case md 11 c) = true /\ oracle 2 11 c (run_case md 11 c) = true.
Proof. exact mcfg_coherent. Qed.

Theorem coherence_madt : forall md ctor ops r,
  markers_ok ops = true ->
  madt_ops_wf (real_ops ops) ->
  ts_image madt_spec ctor (real_ops ops) = Some r ->
  N.of_nat (length r) < 2 ^ 32 ->
  let c := SL (ctor :: ops) in
  oracle 4 12 c (run_case md 12 c) = true /\ oracle 1 12 c (run_case md 12 c) = true /\ oracle 2 12 c (run_case md 12 c) = true.
Proof. exact madt_coherent. Qed.

Theorem coherence_srat : forall md ctor ops r,
  markers_ok ops = true ->
  srat_ops_wf (real_ops ops) ->
  ts_image srat_spec ctor (real_ops ops) = Some r ->
  N.of_nat (length r) < 2 ^ 32 ->
  let c := SL (ctor :: ops) in
  oracle 4 13 c (run_case md 13 c) = true /\ oracle 1 13 c (run_case md 13 c) = true /\ oracle 2 13 c (run_case md 13 c) = true.
Proof. exact srat_coherent. Qed.

Theorem coherence_slit : forall md ctor ops r,
  markers_ok ops = true ->
  ts_image slit_spec ctor (real_ops ops) = Some r ->
  let c := SL (ctor :: ops) in
  oracle 4 14 c (run_case md 14 c) = true /\ oracle 1 14 c (run_case md 14 c) = true /\ oracle 2 14 c (run_case md 14 c) = true.
Proof. exact slit_coherent. Qed.

Theorem coherence_hmat : forall md ctor ops r,
  markers_ok ops = true ->
  ts_image hmat_spec ctor (real_ops ops) = Some r ->
  N.of_nat (length r) < 2 ^ 32 ->
  let c := SL (ctor :: ops) in
  oracle 4 15 c (run_case md 15 c) = true /\ oracle 1 15 c (run_case md 15 c) = true /\ oracle 2 15 c (run_case md 15 c) = true.
Proof. exact hmat_coherent. Qed.

Theorem coherence_pptt : forall md ctor ops r,
  markers_ok ops = true ->
  ts_image pptt_spec ctor (real_ops ops) = Some r ->
  N.of_nat (length r) < 2 ^ 32 ->
  let c := SL (ctor :: ops) in
  oracle 4 16 c (run_case md 16 c) = true /\ oracle 1 16 c (run_case md 16 c) = true /\ oracle 2 16 c (run_case md 16 c) = true.
Proof. exact pptt_coherent. Qed.

Theorem coherence_rhct : forall md ctor ops r,
  markers_ok ops = true ->
  ts_image rhct_spec ctor (real_ops ops) = Some r ->
  N.of_nat (length r) < 2 ^ 32 ->
  let c := SL (ctor :: ops) in
  oracle 4 17 c (run_case md 17 c) = true /\ oracle 1 17 c (run_case md 17 c) = true /\ oracle 2 17 c (run_case md 17 c) = true.
Proof. exact rhct_coherent. Qed.

Theorem coherence_rimt : forall md ctor ops r,
  markers_ok ops = true ->
  ts_image rimt_spec ctor (real_ops ops) = Some r ->
  N.of_nat (length r) < 2 ^ 32 ->
  let c := SL (ctor :: ops) in
  oracle 4 18 c (run_case md 18 c) = true /\ oracle 1 18 c (run_case md 18 c) = true /\ oracle 2 18 c (run_case md 18 c) = true.
Proof. exact rimt_coherent. Qed.

Theorem coherence_viot : forall md ctor ops r,
  markers_ok ops = true ->
  ts_image viot_spec ctor (real_ops ops) = Some r ->
  let c := SL (ctor :: ops) in
  oracle 4 19 c (run_case md 19 c) = true /\ oracle 1 19 c (run_case md 19 c) = true /\ oracle 2 19 c (run_case md 19 c) = true.
Proof. exact viot_coherent. Qed.

Theorem coherence_cedt : forall md ctor ops r,
  markers_ok ops = true ->
  ts_image cedt_spec ctor (real_ops ops) = Some r ->
  N.of_nat (length r) < 2 ^ 32 ->
  let c := SL (ctor :: ops) in
  oracle 4 20 c (run_case md 20 c) = true /\ oracle 1 20 c (run_case md 20 c) = true /\ oracle 2 20 c (run_case md 20 c) = true.
Proof. exact cedt_coherent. Qed.

Theorem coherence_hest : forall md ctor ops r,
  markers_ok ops = true ->
  forallb (fun o => negb (is_alone_op o)) (real_ops ops) = true ->
  ts_image hest_spec ctor (real_ops ops) = Some r ->
  N.of_nat (length r) < 2 ^ 32 ->
  let c := SL (ctor :: ops) in
  oracle 4 21 c (run_case md 21 c) = true /\ oracle 1 21 c (run_case md 21 c) = true /\ oracle 2 21 c (run_case md 21 c) = true.
Proof. exact hest_coherent. Qed.

Theorem coherence_rqsc : forall md ctor ops r,
  markers_ok ops = true ->
  ts_image rqsc_spec ctor (real_ops ops) = Some r ->
  N.of_nat (length r) < 2 ^ 32 ->
  let c := SL (ctor :: ops) in
  oracle 4 22 c (run_case md 22 c) = true /\ oracle 1 22 c (run_case md 22 c) = true /\ oracle 2 22 c (run_case md 22 c) = true.
Proof. exact rqsc_coherent. Qed.

Theorem coherence_tpm2 : forall md ctor ops r,
  markers_ok ops = true ->
  ts_image tpm2_spec ctor (real_ops ops) = Some r ->
  let c := SL (ctor :: ops) in
  oracle 4 23 c (run_case md 23 c) = true /\ oracle 1 23 c (run_case md 23 c) = true /\ oracle 2 23 c (run_case md 23 c) = true.
Proof. exact tpm2_coherent. Qed.

Theorem coherence_tpmserver : forall md ctor ops r,
  markers_ok ops = true ->
  ts_image tpmserver_spec ctor (real_ops ops) = Some r ->
  let c := SL (ctor :: ops) in
  oracle 4 24 c (run_case md 24 c) = true /\ oracle 1 24 c (run_case md 24 c) = true /\ oracle 2 24 c (run_case md 24 c) = true.
Proof. exact tpmserver_coherent. Qed.

Theorem coherence_tpmclient : forall md ctor ops r,
  markers_ok ops = true ->
  ts_image tpmclient_spec ctor (real_ops ops) = Some r ->
  let c := SL (ctor :: ops) in
  oracle 4 25 c (run_case md 25 c) = true /\ oracle 1 25 c (run_case md 25 c) = true /\ oracle 2 25 c (run_case md 25 c) = true.
Proof. exact tpmclient_coherent. Qed.

Theorem coherence_fadt : forall md ctor ops r,
  markers_ok ops = true ->
  fadt_ctor_bytes ctor ->
  ts_image fadt_spec ctor (real_ops ops) = Some r ->
  let c := SL (ctor :: ops) in
  oracle 4 26 c (run_case md 26 c) = true /\ oracle 1 26 c (run_case md 26 c) = true /\ oracle 2 26 c (run_case md 26 c) = true.
Proof. exact fadt_coherent. Qed.

Theorem coherence_bert : forall md ctor ops r,
  markers_ok ops = true ->
  ts_image bert_spec ctor (real_ops ops) = Some r ->
  let c := SL (ctor :: ops) in
  oracle 4 27 c (run_case md 27 c) = true /\ oracle 1 27 c (run_case md 27 c) = true /\ oracle 2 27 c (run_case md 27 c) = true.
Proof. exact bert_coherent. Qed.

Theorem coherence_spcr : forall md ctor ops r,
  markers_ok ops = true ->
  ts_image spcr_spec ctor (real_ops ops) = Some r ->
  let c := SL (ctor :: ops) in
  oracle 4 28 c (run_case md 28 c) = true /\ oracle 1 28 c (run_case md 28 c) = true /\ oracle 2 28 c (run_case md 28 c) = true.
Proof. exact spcr_coherent. Qed.

Theorem coherence_facs : forall md ctor ops r,
  markers_ok ops = true ->
  ts_image facs_spec ctor (real_ops ops) = Some r ->
  let c := SL (ctor :: ops) in
  oracle 4 29 c (run_case md 29 c) = true /\ oracle 1 29 c (run_case md 29 c) = true /\ oracle 2 29 c (run_case md 29 c) = true.
Proof. exact facs_coherent. Qed.

Theorem coherence_rsdp : forall md ctor ops r,
  markers_ok ops = true ->
  rsdp_ctor_bytes ctor ->
  ts_image rsdp_spec ctor (real_ops ops) = Some r ->
  let c := SL (ctor :: ops) in
  oracle 4 30 c (run_case md 30 c) = true /\ oracle 1 30 c (run_case md 30 c) = true /\ oracle 2 30 c (run_case md 30 c) = true.
Proof. exact rsdp_coherent. Qed.

(* the other properties judged by the same functions: C11 (= the judgement of C04) and C12 (C04 and C01) *)
Theorem coherence_c11_c12 : forall comp md c,
  In comp [10; 11; 12; 13; 14; 15; 16; 17; 18; 19; 20; 21; 22; 23; 24; 25; 26; 27; 28; 29; 30] ->
  oracle 4 comp c (run_case md comp c) = true /\ oracle 1 comp c (run_case md comp c) = true /\
  oracle 2 comp c (run_case md comp c) = true ->
  oracle 11 comp c (run_case md comp c) = true /\ oracle 12 comp c (run_case md comp c) = true.
Proof. exact coherent_c11_c12. Qed.

(* K (the driver's check, through Judge.project) implies the oracle's acceptance, on every case covered above *)
Theorem coherence_no_false_alarm : forall comp md c impl,
  In comp [10; 11; 12; 13; 14; 15; 16; 17; 18; 19; 20; 21; 22; 23; 24; 25; 26; 27; 28; 29; 30] ->
  oracle 4 comp c (run_case md comp c) = true /\ oracle 1 comp c (run_case md comp c) = true /\
  oracle 2 comp c (run_case md comp c) = true ->
  (evs_eqb (project 4 comp (run_case md comp c)) (project 4 comp impl) = true -> oracle 4 comp c impl = true) /\
  (evs_eqb (project 1 comp (run_case md comp c)) (project 1 comp impl) = true -> oracle 1 comp c impl = true) /\
  (evs_eqb (project 2 comp (run_case md comp c)) (project 2 comp impl) = true -> oracle 2 comp c impl = true).
Proof. exact no_false_alarm. Qed.

(* the well-formedness condition is needed: with a stray atom 2 the history is in the domain, the model refuses the atom,
   and the oracle rejects the model's own stream (the generators never emit such a case) *)
Theorem coherence_markers_ok_needed :
  let c := SL [SL [SL [SA 0; SA 0; SA 0; SA 0; SA 0; SA 0]; SL [SA 0; SA 0; SA 0; SA 0; SA 0; SA 0; SA 0; SA 0]; SA 0]; SA 2] in
  markers_ok [SA 2] = false /\ judged 4 10 c = true /\ run_case Wrapping 10 c = [EvPanic] /\
  oracle 4 10 c (run_case Wrapping 10 c) = false.
Proof. exact markers_ok_needed. Qed.

(* ---------- non-vacuity: concrete histories with observation markers (cases produced by the harness generators) ---------- *)
Definition ex_madt_ctor : sx := SL [SL [SA 255; SA 255; SA 255; SA 255; SA 255; SA 255]; SL [SA 255; SA 255; SA 255; SA 255; SA 255; SA 255; SA 255; SA 255]; SA 16567578; SL []].
Definition ex_madt_ops : list sx :=
  [SA 1; SL [SA 2; SA 35; SA 2147483648; SA 1]; SA 1; SL [SA 11; SA 254; SL [SA 118; SA 57; SA 141; SA 138; SA 206; SA 213; SA 243; SA 137]; SA 2147; SA 2779096485; SA 4557430888798830399; SA 1175481320; SA 65534]; SA 1].

Example coherence_madt_not_vacuous :
  let c := SL (ex_madt_ctor :: ex_madt_ops) in
  markers_ok ex_madt_ops = true /\ (exists r, ts_image madt_spec ex_madt_ctor (real_ops ex_madt_ops) = Some r /\ N.of_nat (length r) < 2 ^ 32) /\
  oracle 4 12 c (run_case Wrapping 12 c) = true /\ oracle 4 12 c (run_case Checked 12 c) = true /\
  oracle 1 12 c (run_case Wrapping 12 c) = true /\ oracle 2 12 c (run_case Wrapping 12 c) = true /\
  existsb (fun e => match e with EvBytes _ => true | _ => false end) (run_case Wrapping 12 c) = true.
Proof. split; [vm_compute; reflexivity|]. split; [eexists; split; [vm_compute; reflexivity|vm_compute; reflexivity]|]. vm_compute. repeat split. Qed.

Definition ex_rimt_ctor : sx := SL [SL [SA 255; SA 255; SA 255; SA 255; SA 255; SA 255]; SL [SA 255; SA 255; SA 255; SA 255; SA 255; SA 255; SA 255; SA 255]; SA 4294967295].
Definition ex_rimt_ops : list sx :=
  [SA 1; SL [SA 1; SA 32; SL []; SL []; SL []; SL [SL [SL [SA 117901063; SA 0; SA 0; SA 65534]]]]; SA 1; SL [SA 3; SA 0; SL [SA 51; SA 95; SA 69; SA 55; SA 71; SA 52; SA 46; SA 52; SA 84; SA 49; SA 76; SA 50; SA 51; SA 82; SA 50; SA 65; SA 55; SA 82; SA 95; SA 75; SA 68; SA 77; SA 52; SA 69; SA 46; SA 80; SA 48; SA 78; SA 84; SA 53; SA 89; SA 83; SA 66; SA 66; SA 74; SA 54; SA 49]; SL [SL [SL [SA 1819483724; SA 4294967294; SA 1233489677; SL [SA 104; SA 0]; SA 0; SA 0; SA 1]]]]; SA 1].

Example coherence_rimt_not_vacuous :
  let c := SL (ex_rimt_ctor :: ex_rimt_ops) in
  markers_ok ex_rimt_ops = true /\ (exists r, ts_image rimt_spec ex_rimt_ctor (real_ops ex_rimt_ops) = Some r /\ N.of_nat (length r) < 2 ^ 32) /\
  oracle 4 18 c (run_case Wrapping 18 c) = true /\ oracle 4 18 c (run_case Checked 18 c) = true /\
  oracle 1 18 c (run_case Wrapping 18 c) = true /\ oracle 2 18 c (run_case Wrapping 18 c) = true /\
  existsb (fun e => match e with EvBytes _ => true | _ => false end) (run_case Wrapping 18 c) = true.
Proof. split; [vm_compute; reflexivity|]. split; [eexists; split; [vm_compute; reflexivity|vm_compute; reflexivity]|]. vm_compute. repeat split. Qed.

Definition ex_fadt_ctor : sx := SL [SL [SA 70; SA 79; SA 79; SA 66; SA 65; SA 82]; SL [SA 67; SA 65; SA 70; SA 69; SA 68; SA 69; SA 65; SA 68]; SA 3200171710].
Definition ex_fadt_ops : list sx :=
  [SA 1; SL [SA 7; SA 5]; SA 1; SL [SA 7; SA 23]; SA 1].

Example coherence_fadt_not_vacuous :
  let c := SL (ex_fadt_ctor :: ex_fadt_ops) in
  markers_ok ex_fadt_ops = true /\ (exists r, ts_image fadt_spec ex_fadt_ctor (real_ops ex_fadt_ops) = Some r /\ N.of_nat (length r) < 2 ^ 32) /\
  oracle 4 26 c (run_case Wrapping 26 c) = true /\ oracle 4 26 c (run_case Checked 26 c) = true /\
  oracle 1 26 c (run_case Wrapping 26 c) = true /\ oracle 2 26 c (run_case Wrapping 26 c) = true /\
  existsb (fun e => match e with EvBytes _ => true | _ => false end) (run_case Wrapping 26 c) = true.
Proof. split; [vm_compute; reflexivity|]. split; [eexists; split; [vm_compute; reflexivity|vm_compute; reflexivity]|]. vm_compute. repeat split. Qed.

Definition ex_slit_ctor : sx := SL [SL [SA 255; SA 255; SA 255; SA 255; SA 255; SA 255]; SL [SA 255; SA 255; SA 255; SA 255; SA 255; SA 255; SA 255; SA 255]; SA 3970050675; SA 2].
Definition ex_slit_ops : list sx :=
  [SA 1; SL [SA 1; SA 1; SA 1; SA 219]; SA 1; SL [SA 1; SA 0; SA 0; SA 16]; SA 1].

Example coherence_slit_not_vacuous :
  let c := SL (ex_slit_ctor :: ex_slit_ops) in
  markers_ok ex_slit_ops = true /\ (exists r, ts_image slit_spec ex_slit_ctor (real_ops ex_slit_ops) = Some r /\ N.of_nat (length r) < 2 ^ 32) /\
  oracle 4 14 c (run_case Wrapping 14 c) = true /\ oracle 4 14 c (run_case Checked 14 c) = true /\
  oracle 1 14 c (run_case Wrapping 14 c) = true /\ oracle 2 14 c (run_case Wrapping 14 c) = true /\
  existsb (fun e => match e with EvBytes _ => true | _ => false end) (run_case Wrapping 14 c) = true.
Proof. split; [vm_compute; reflexivity|]. split; [eexists; split; [vm_compute; reflexivity|vm_compute; reflexivity]|]. vm_compute. repeat split. Qed.

Definition ex_rqsc_ctor : sx := SL [SL [SA 0; SA 0; SA 0; SA 0; SA 0; SA 0]; SL [SA 0; SA 0; SA 0; SA 0; SA 0; SA 0; SA 0; SA 0]; SA 3193990782].
Definition ex_rqsc_ops : list sx :=
  [SA 1; SL [SA 1; SA 0; SL [SA 1; SA 0; SA 3; SA 245; SA 254; SA 1]; SA 0; SA 531838662; SA 65534; SL [SL [SA 1; SA 56852; SL [SA 1; SA 0; SA 1374463283923456787]]]]; SA 1].

Example coherence_rqsc_not_vacuous :
  let c := SL (ex_rqsc_ctor :: ex_rqsc_ops) in
  markers_ok ex_rqsc_ops = true /\ (exists r, ts_image rqsc_spec ex_rqsc_ctor (real_ops ex_rqsc_ops) = Some r /\ N.of_nat (length r) < 2 ^ 32) /\
  oracle 4 22 c (run_case Wrapping 22 c) = true /\ oracle 4 22 c (run_case Checked 22 c) = true /\
  oracle 1 22 c (run_case Wrapping 22 c) = true /\ oracle 2 22 c (run_case Wrapping 22 c) = true /\
  existsb (fun e => match e with EvBytes _ => true | _ => false end) (run_case Wrapping 22 c) = true.
Proof. split; [vm_compute; reflexivity|]. split; [eexists; split; [vm_compute; reflexivity|vm_compute; reflexivity]|]. vm_compute. repeat split. Qed.

Definition ex_hest_ctor : sx := SL [SL [SA 70; SA 79; SA 79; SA 66; SA 65; SA 82]; SL [SA 67; SA 65; SA 70; SA 69; SA 68; SA 69; SA 65; SA 68]; SA 2878343556].
Definition ex_hest_ops : list sx :=
  [SA 1; SL [SA 1; SL [SA 0]; SL [SL [SA 1; SA 268435456]; SL [SA 2; SA 2689582908]; SL [SA 4; SA 918286735]; SL [SA 5; SA 2593595240]; SL [SA 7; SA 3570717908]]]; SA 1].

Example coherence_hest_not_vacuous :
  let c := SL (ex_hest_ctor :: ex_hest_ops) in
  markers_ok ex_hest_ops = true /\ (exists r, ts_image hest_spec ex_hest_ctor (real_ops ex_hest_ops) = Some r /\ N.of_nat (length r) < 2 ^ 32) /\
  oracle 4 21 c (run_case Wrapping 21 c) = true /\ oracle 4 21 c (run_case Checked 21 c) = true /\
  oracle 1 21 c (run_case Wrapping 21 c) = true /\ oracle 2 21 c (run_case Wrapping 21 c) = true /\
  existsb (fun e => match e with EvBytes _ => true | _ => false end) (run_case Wrapping 21 c) = true.
Proof. split; [vm_compute; reflexivity|]. split; [eexists; split; [vm_compute; reflexivity|vm_compute; reflexivity]|]. vm_compute. repeat split. Qed.

Print Assumptions coherence_xsdt.
Print Assumptions coherence_mcfg.
Print Assumptions coherence_madt.
Print Assumptions coherence_srat.
Print Assumptions coherence_slit.
Print Assumptions coherence_hmat.
Print Assumptions coherence_pptt.
Print Assumptions coherence_rhct.
Print Assumptions coherence_rimt.
Print Assumptions coherence_viot.
Print Assumptions coherence_cedt.
Print Assumptions coherence_hest.
Print Assumptions coherence_rqsc.
Print Assumptions coherence_tpm2.
Print Assumptions coherence_tpmserver.
Print Assumptions coherence_tpmclient.
Print Assumptions coherence_fadt.
Print Assumptions coherence_bert.
Print Assumptions coherence_spcr.
Print Assumptions coherence_facs.
Print Assumptions coherence_rsdp.
Print Assumptions coherence_c11_c12.
Print Assumptions coherence_no_false_alarm.
Print Assumptions coherence_markers_ok_needed.
