(* C12 -- locality matrices hold, per cell, the last value assigned to that cell. Statements only. *)
From Coq Require Import NArith List.
From ACPI Require Import Lib.Bytes Lib.Sx Lib.Machine Impl.Slit Impl.Hmat Spec.Layout Proofs.SlitP Proofs.HmatP.
Import ListNotations.
Open Scope N_scope.

(* SLIT: for every constructor argument, both build profiles and every sequence of set_distance calls the model accepts:
   the image sums to 0, its Length field is its size, every accepted call had both domains in range, and the byte for the
   ordered pair (i, j) and its mirror (j, i) both hold the last distance assigned to the unordered pair {i, j}
   (10 if never assigned) -- read from the emitted image. *)
Theorem c12_slit :
  forall md c ops s0 s,
    slit_new c = Some s0 -> slit_run md s0 ops = Some s ->
    sum8 (slit_image s) = 0 /\
    field_at (slit_image s) 4 4 = N.of_nat (length (slit_image s)) /\
    Forall (op_in_range (st_loc s0)) ops /\
    forall i j, i < st_loc s0 -> j < st_loc s0 ->
      image_cell s i j = slit_last i j ops 10 /\ image_cell s j i = slit_last i j ops 10.
Proof. exact slit_correct_all. Qed.

(* every in-range pair is accepted, in both profiles *)
Theorem c12_slit_accepts :
  forall md c ops s0,
    slit_new c = Some s0 -> Forall (op_in_range (st_loc s0)) ops -> exists s, slit_run md s0 ops = Some s.
Proof. exact slit_accepts. Qed.

(* HMAT system locality structure of I initiators and T targets: every sequence of in-range assignments is accepted, the
   row-major cell i*T + j (stride = number of targets) holds the last value assigned to (i, j), 0xFFFF if never assigned,
   and the initiator/target lists and flags are untouched (non-interference) *)
Theorem c12_hmat_cells :
  forall md lt dt mts unit ni nt s ops,
    sysloc_new md lt dt mts unit ni nt = Some s -> ni * nt < U64 ->
    Forall (fun o => fst (fst o) < ni /\ snd (fst o) < nt) ops ->
    exists s', set_entries s ops = Some s' /\
      forall i j, i < ni -> j < nt -> cell s' i j = last_assigned i j ops 0xFFFF.
Proof. exact sysloc_fresh_cells. Qed.

(* the same cell, read from the serialised structure with the independent field decoder *)
Theorem c12_hmat_cell_in_image :
  forall s k, (k < length (sl_entries s))%nat ->
    field_at (sysloc_bytes s) (32 + 4 * length (sl_inits s) + 4 * length (sl_targets s) + 2 * k) 2
    = nth k (sl_entries s) 0 mod 2 ^ 16.
Proof. exact sysloc_bytes_cell. Qed.

Print Assumptions c12_slit.
Print Assumptions c12_slit_accepts.
Print Assumptions c12_hmat_cells.
Print Assumptions c12_hmat_cell_in_image.
