(* C15 -- alternative construction paths for the same object emit identical bytes. Statements only. *)
From Coq Require Import NArith List.
From ACPI Require Import Lib.Bytes Lib.Sx Lib.Machine Impl.AmlCore Impl.AmlTerm Proofs.AmlFrameP.
Import ListNotations.
Open Scope N_scope.

(* Scope::raw(path, concatenated child bytes) = Scope::new(path, children), for every path, every child list, every
   body size and both build profiles (including identical refusals) *)
Theorem c15_scope_raw : forall md p ks, enc md (TScopeRaw p ks) = enc md (TScope p ks).
Proof. exact scope_raw_eq. Qed.

(* a package filled element by element = the package built from the list of the same elements *)
Theorem c15_package_builder : forall md ks, enc md (TPkgBuilder ks) = enc md (TPackage ks).
Proof. exact pkg_builder_eq. Qed.

(* platform-width and 64-bit integers of equal value *)
Theorem c15_usize_u64 : forall md n, n < 2 ^ 64 -> enc md (TInt 0 n) = enc md (TInt 64 n).
Proof. exact usize_u64_eq. Qed.

(* borrowed and owned strings are the same model term (both call create_aml_string) *)
Theorem c15_str_string : forall b, term_of_sx (SL [SA 5; b]) = term_of_sx (SL [SA 6; b]).
Proof. exact str_string_same. Qed.

Example c15_example :
  enc Wrapping (TScopeRaw [95; 83; 66; 95] [TInt 8 5; TStr [65]]) = Some [0x10; 10; 95; 83; 66; 95; 0x0A; 5; 0x0D; 65; 0].
Proof. vm_compute. reflexivity. Qed.

Print Assumptions c15_scope_raw.
Print Assumptions c15_package_builder.
Print Assumptions c15_usize_u64.
Print Assumptions c15_str_string.
