(* C13 -- the generic table behaves as a byte vector with self-maintaining header. Statements only. *)
From Coq Require Import NArith List.
From ACPI Require Import Lib.Bytes Lib.Sx Lib.Machine Impl.Sdt Spec.SdtS Proofs.SdtP.
Import ListNotations.
Open Scope N_scope.

(* Refinement, operation by operation: on every table state of at least 36 bytes (and below 2^62 bytes), each public
   operation of the implementation model -- typed append, slice append, slice write, typed write, bytes pushed through the
   sink one at a time, update_checksum -- has exactly the effect of the Spec's plain byte vector subjected to the same
   append / write followed by "rewrite Length (appends only), then set byte 9 so that the vector sums to 0"; and it is
   refused exactly when the Spec says the write would extend past the end (in both build profiles).  [sdt_op] and
   [sdt_spec_op] return Some (Some v') = performed with result v', Some None = refused. *)
Theorem c13_refinement :
  forall md v, sdt_wf v ->
    (forall w k x, spec_width w = Some k ->
        sdt_op md v (SL [SA 1; SA w; SA x]) = sdt_spec_op v (SL [SA 1; SA w; SA x])) /\
    (forall b bytes, sx_bytes b = Some bytes -> N.of_nat (length bytes) < 2 ^ 62 ->
        sdt_op md v (SL [SA 2; b]) = sdt_spec_op v (SL [SA 2; b])) /\
    (forall off b bytes, off < 2 ^ 64 -> sx_bytes b = Some bytes -> N.of_nat (length bytes) < 2 ^ 62 ->
        sdt_op md v (SL [SA 3; SA off; b]) = sdt_spec_op v (SL [SA 3; SA off; b])) /\
    (forall w k off x, off < 2 ^ 64 -> spec_width w = Some k ->
        sdt_op md v (SL [SA 4; SA w; SA off; SA x]) = sdt_spec_op v (SL [SA 4; SA w; SA off; SA x])) /\
    (forall w k x, spec_width w = Some k ->
        sdt_op md v (SL [SA 5; SA w; SA x]) = sdt_spec_op v (SL [SA 5; SA w; SA x])) /\
    (forall b bytes, sx_bytes b = Some bytes -> bytes_ok bytes = true -> N.of_nat (length bytes) < 2 ^ 62 ->
        sdt_op md v (SL [SA 6; b]) = sdt_spec_op v (SL [SA 6; b])) /\
    sdt_op md v (SL [SA 7]) = sdt_spec_op v (SL [SA 7]).
Proof.
  intros md v Hwf. repeat split; intros.
  - eapply op_append; eauto. - eapply op_append_slice; eauto. - eapply op_write_bytes; eauto.
  - eapply op_write_int; eauto. - eapply op_sink_int; eauto. - eapply op_sink_vec; eauto. - now apply op_update_checksum.
Qed.

(* a write that would extend past the end is refused in both build profiles; the step function then keeps the table *)
Theorem c13_refusal :
  forall md v off bs, off < 2 ^ 64 -> N.of_nat (length bs) < 2 ^ 64 ->
    N.of_nat (length v) < off + N.of_nat (length bs) -> sdt_write_bytes md v off bs = None.
Proof. exact write_bytes_refuse. Qed.

Theorem c13_refused_leaves_unchanged :
  forall md v o, sdt_op md v o = Some None -> sdt_step md v o = Some (v, [EvNum 1]).
Proof. intros md v o H. unfold sdt_step. rewrite H. reflexivity. Qed.

(* the Spec's own result always sums to 0 and has the expected size; with c13_refinement this holds for the model *)
Theorem c13_checksum_after_every_operation :
  forall v, (10 <= length v)%nat -> sum8 (with_checksum v) = 0 /\ length (with_checksum v) = length v.
Proof. exact with_checksum_props. Qed.

Print Assumptions c13_refinement.
Print Assumptions c13_refusal.
Print Assumptions c13_refused_leaves_unchanged.
Print Assumptions c13_checksum_after_every_operation.

(* ===================================================================================================================
   HISTORY LEVEL (Proofs/SdtHistP.v) and COMPOSITION WITH AML (Proofs/DsdtP.v).  Statements only.
   =================================================================================================================== *)
From Coq Require Import Lia Bool.
From ACPI Require Import Impl.Sink Impl.Sink2 Impl.AmlCore Impl.AmlTerm Spec.Layout Spec.AmlCoreS Spec.AmlTermS
  Proofs.Sink2P Proofs.AmlFrameP Proofs.FieldListP Proofs.AmlRoundTrip Proofs.SdtHistP Proofs.DsdtP.

(* Vocabulary (Proofs/SdtHistP.v):
     sdt_op_ok o        o is one of the seven operation forms of Impl/Sdt.v with parameters in the range of their Rust types
                        (width 1/2/4/8; offset < 2^64; slices shorter than 2^62; what is pushed through the sink are bytes):
                        exactly the hypotheses of c13_refinement.  [sdt_op_okb] decides it ([sdt_ops_okb_sound]).
     op_growth o        the number of bytes o adds when performed;  ops_growth = its sum over a history.
     sdt_model_run md   the table after a history, by iterating the model's own step function [sdt_step]
                        (a refused operation keeps the table);  sdt_spec_run is the Spec's (Spec/SdtS.v). *)

(* After ANY sequence of operations, in both build profiles: the model's table and the Spec's plain byte vector (same
   appends and writes, Length rewritten on every append, checksum byte recomputed after every operation, refused writes
   leaving it unchanged) are the same vector -- as long as the table stays below 2^62 bytes. *)
Theorem c13_history_refines :
  forall md ops v,
    sdt_wf v -> Forall sdt_op_ok ops -> N.of_nat (length v) + ops_growth ops < 2 ^ 62 ->
    exists v', sdt_model_run md v ops = Some v' /\ sdt_spec_run v ops = Some v' /\ sdt_wf v'.
Proof. exact sdt_history_refines. Qed.

(* [sdt_model_run] is what the judged function [sdt_case] (the one the harness compares with the crate) observes at the
   end of the history: one status number per operation, then the image *)
Theorem c13_model_run_is_the_judged_model :
  forall md c v0 ops v',
    sdt_new c = Some v0 -> Forall sdt_op_ok ops -> sdt_model_run md v0 ops = Some v' ->
    exists nums, length nums = length ops /\ sdt_case md (SL (c :: ops ++ [SA 1])) = rev nums ++ [EvBytes v'].
Proof. exact sdt_case_observes_model_run. Qed.

(* Checksum, one operation: whatever the table looked like before (summing to 0 or not), a PERFORMED operation leaves an
   image summing to 0 -- the single exception being a sink push of no byte at all, which does nothing. *)
Theorem c13_performed_sums_to_zero :
  forall md v o v',
    sdt_wf v -> sdt_op_ok o -> sdt_op md v o = Some (Some v') -> sum8 v' = 0 \/ (v' = v /\ o = SL [SA 6; SL []]).
Proof. exact sdt_performed_sums_to_zero. Qed.

(* Checksum, histories: starting from any table the constructor returns, after EVERY prefix [pre] of EVERY history
   (performed and refused operations alike) the image sums to 0. *)
Theorem c13_every_prefix_sums_to_zero :
  forall md c v0 pre post,
    sdt_new c = Some v0 -> Forall sdt_op_ok (pre ++ post) -> N.of_nat (length v0) + ops_growth (pre ++ post) < 2 ^ 62 ->
    exists v, sdt_model_run md v0 pre = Some v /\ sdt_spec_run v0 pre = Some v /\ sdt_wf v /\ sum8 v = 0.
Proof. exact sdt_every_prefix_sums_to_zero. Qed.

(* Length bookkeeping: if the Length field (the little-endian dword at offset 4) equals the size before, and no write of
   the history lands in bytes 4..7 ([op_keeps_length]: appends, sink pushes, update_checksum, writes with offset >= 8 or
   ending at or before 4 -- refused or not), then it equals the size after, as long as the table stays below 2^32 bytes. *)
Theorem c13_length_field_tracks_size :
  forall md ops v,
    sdt_wf v -> field_at v 4 4 = N.of_nat (length v) -> Forall sdt_op_ok ops -> Forall op_keeps_length ops ->
    N.of_nat (length v) + ops_growth ops < 2 ^ 32 ->
    exists v', sdt_model_run md v ops = Some v' /\ sdt_spec_run v ops = Some v' /\
               field_at v' 4 4 = N.of_nat (length v') /\ N.of_nat (length v') < 2 ^ 32.
Proof. exact sdt_length_field_tracks_size. Qed.

(* ... in particular from the constructor, on every prefix: Length = size and sum = 0 together *)
Theorem c13_length_field_tracks_size_from_new :
  forall md c v0 pre post,
    sdt_spec_new c = Some v0 -> Forall sdt_op_ok (pre ++ post) -> Forall op_keeps_length (pre ++ post) ->
    N.of_nat (length v0) + ops_growth (pre ++ post) < 2 ^ 32 ->
    sdt_new c = Some v0 /\
    exists v, sdt_model_run md v0 pre = Some v /\ sdt_spec_run v0 pre = Some v /\
              field_at v 4 4 = N.of_nat (length v) /\ sum8 v = 0.
Proof. exact sdt_new_length_field_tracks_size. Qed.

(* The constructor: on the whole domain of the Spec's constructor (4/6/8-byte identifiers, 36 <= length < 2^32) the model
   builds the same vector; it has the declared length, sums to 0 and carries its length in the Length field.  And whatever
   the model's constructor accepts at all is a well-formed table summing to 0. *)
Theorem c13_constructor_refines :
  (forall c v, sdt_spec_new c = Some v -> sdt_new c = Some v) /\
  (forall c v, sdt_spec_new c = Some v ->
     sdt_wf v /\ sum8 v = 0 /\ field_at v 4 4 = N.of_nat (length v) /\ N.of_nat (length v) < 2 ^ 32) /\
  (forall c v, sdt_new c = Some v -> sum8 v = 0 /\ sdt_wf v).
Proof. split; [exact sdt_new_refines|split; [exact sdt_spec_new_props|exact sdt_new_sums_to_zero]]. Qed.

(* Refused operations at history level: a refused operation anywhere in a history can be deleted without changing the
   outcome, and a history of refused operations leaves the table as it was. *)
Theorem c13_refused_op_is_noop :
  (forall md pre o post v v1,
     sdt_model_run md v pre = Some v1 -> sdt_op md v1 o = Some None ->
     sdt_model_run md v (pre ++ o :: post) = sdt_model_run md v (pre ++ post)) /\
  (forall md ops v, Forall (fun o => sdt_op md v o = Some None) ops -> sdt_model_run md v ops = Some v).
Proof. split; [exact sdt_refused_op_is_noop|exact sdt_refused_history_unchanged]. Qed.

(* AML inside a generic table (how a VMM builds its DSDT).  For every arity environment, every well-formed term t
   (Proofs/AmlRoundTrip.v [wf], as in c06_roundtrip), both profiles, every table v0 of at least 36 bytes: if t serialises to
   the bytes b (all of them bytes -- in Rust a typing fact: the sink takes u8) and the result stays below 2^32 bytes, then
   pushing b through the Sdt sink one byte at a time and appending b with one append_slice both succeed with the SAME
   image; that image is |v0| + |b| bytes long, sums to 0, has Length = its size, keeps every old byte outside Length and
   Checksum, carries b intact after the old table -- and that body parses back (any fuel above the nesting depth),
   completely, to the tree the caller built. *)
Theorem c13_dsdt_composition :
  forall env t md b v0,
    wf env false t -> enc md t = Some b -> bytes_ok b = true ->
    (36 <= length v0)%nat -> N.of_nat (length v0 + length b) < 2 ^ 32 ->
    exists img g,
      sdt_sink_vec md v0 b = Some img /\ sdt_append_slice md v0 b = Some img /\
      length img = (length v0 + length b)%nat /\ sum8 img = 0 /\ field_at img 4 4 = N.of_nat (length img) /\
      skipn (length v0) img = b /\
      (forall i, (i < length v0)%nat -> i <> 9%nat -> ~ (4 <= i < 8)%nat -> nth i img 0 = nth i v0 0) /\
      norm false t = Some g /\
      forall f, (depth t < f)%nat -> parse env f false (skipn (length v0) img) = Some (g, []).
Proof.
  intros env t md b v0 Hwf He Hb Hv Hsz.
  destruct (dsdt_composition env t md b v0 Hwf He Hb Hv Hsz) as (img & g & H1 & H2 & _ & [P1 P2 P3 P4 P5] & H3 & H4).
  exists img, g. repeat split; assumption.
Qed.

(* the same for a whole TermList as the body, delivered in any chunking through the sink's five entry points *)
Theorem c13_dsdt_body_composition :
  forall env ks md b v0,
    Forall (wf env false) ks -> encs md ks = Some b -> bytes_ok b = true -> b <> [] ->
    (36 <= length v0)%nat -> N.of_nat (length v0 + length b) < 2 ^ 32 ->
    exists img gs,
      sdt_sink_vec md v0 b = Some img /\ sdt_append_slice md v0 b = Some img /\
      (forall tr, flatten tr = b -> run_sdt md v0 tr = Some img) /\
      length img = (length v0 + length b)%nat /\ sum8 img = 0 /\ field_at img 4 4 = N.of_nat (length img) /\
      skipn (length v0) img = b /\
      norms false ks = Some gs /\
      forall f, (depths ks < f)%nat ->
        parse_all (parse env f) (length img - length v0) false (skipn (length v0) img) = Some gs.
Proof.
  intros env ks md b v0 Hwf He Hb Hne Hv Hsz.
  destruct (dsdt_body_composition env ks md b v0 Hwf He Hb Hne Hv Hsz) as (img & gs & H1 & H2 & H3 & [P1 P2 P3 P4 P5] & H4 & H5).
  exists img, gs. repeat split; assumption.
Qed.

Print Assumptions c13_history_refines.
Print Assumptions c13_model_run_is_the_judged_model.
Print Assumptions c13_performed_sums_to_zero.
Print Assumptions c13_every_prefix_sums_to_zero.
Print Assumptions c13_length_field_tracks_size.
Print Assumptions c13_length_field_tracks_size_from_new.
Print Assumptions c13_constructor_refines.
Print Assumptions c13_refused_op_is_noop.
Print Assumptions c13_dsdt_composition.
Print Assumptions c13_dsdt_body_composition.

(* ---------------- non-vacuity ---------------- *)
(* Sdt::new with signature DSDT, length 36, revision 2, oem id CLOUDH, oem table id CHDSDT, oem revision 1; and a history with every kind of operation, two refusals
   (one of them only through the wrapped offset + length of the release profile), a write across the checksum byte,
   a write ending at byte 4, and an empty sink push *)
Definition c13_ctor : sx :=
  SL [SL [SA 68; SA 83; SA 68; SA 84]; SA 36; SA 2; SL [SA 67; SA 76; SA 79; SA 85; SA 68; SA 72];
      SL [SA 67; SA 72; SA 68; SA 83; SA 68; SA 84; SA 32; SA 32]; SA 1].
Definition c13_v36 : list N := match sdt_new c13_ctor with Some v => v | None => [] end.
Definition c13_ops : list sx :=
  [SL [SA 1; SA 4; SA 0xDEADBEEF];                    (* append::<u32>                                   36 -> 40 *)
   SL [SA 3; SA 8; SL [SA 7; SA 0xAA; SA 3]];         (* write_bytes(8, ..): revision, CHECKSUM, oem_id[0] *)
   SL [SA 6; SL [SA 1; SA 2; SA 3]];                  (* three bytes through the sink                    40 -> 43 *)
   SL [SA 4; SA 8; SA 40; SA 5];                      (* write_u64(40, 5): 48 > 43                       refused *)
   SL [SA 3; SA (2 ^ 64 - 1); SL [SA 1; SA 2]];       (* offset + len wraps to 1 in release              refused *)
   SL [SA 7];                                         (* update_checksum *)
   SL [SA 2; SL [SA 9; SA 9]];                        (* append_slice                                    43 -> 45 *)
   SL [SA 5; SA 2; SA 0x1234];                        (* sink.word                                       45 -> 47 *)
   SL [SA 6; SL []];                                  (* empty push: nothing happens *)
   SL [SA 3; SA 0; SL [SA 88; SA 89; SA 90; SA 87]]]. (* write_bytes(0, "XYZW"): ends at byte 4 *)

(* the hypotheses of the history theorems hold of it ... *)
Example c13_demo_hypotheses :
  sdt_new c13_ctor = Some c13_v36 /\ sdt_spec_new c13_ctor = Some c13_v36 /\ sdt_wf c13_v36 /\
  Forall sdt_op_ok c13_ops /\ Forall op_keeps_length c13_ops /\
  N.of_nat (length c13_v36) + ops_growth c13_ops = 47.
Proof.
  split; [reflexivity|]. split; [vm_compute; reflexivity|]. split; [split; vm_compute; [lia|reflexivity]|].
  split; [apply sdt_ops_okb_sound; vm_compute; reflexivity|]. split; [|vm_compute; reflexivity].
  unfold c13_ops.
  repeat first [apply Forall_nil | apply Forall_cons
               | apply kl_append | apply kl_append_slice | apply kl_sink_int | apply kl_sink_vec | apply kl_update_checksum
               | eapply kl_write_bytes; [reflexivity|first [left; vm_compute; discriminate|right; vm_compute; discriminate]]
               | eapply kl_write_int; [reflexivity|first [left; vm_compute; discriminate|right; vm_compute; discriminate]]].
Qed.

(* ... and this is what they conclude of it: both profiles and the Spec end in the same 47 bytes ("XYZW" written, Length 47,
   revision 7 / oem_id[0] 3 written, the checksum byte the caller wrote (0xAA) replaced, the five pushes in place), the
   judged function reports performed / refused as expected *)
Example c13_history_demo :
  sdt_model_run Checked c13_v36 c13_ops = sdt_spec_run c13_v36 c13_ops /\
  sdt_model_run Wrapping c13_v36 c13_ops = sdt_spec_run c13_v36 c13_ops /\
  sdt_spec_run c13_v36 c13_ops =
    Some [88; 89; 90; 87; 47; 0; 0; 0; 7; 26; 3; 76; 79; 85; 68; 72; 67; 72; 68; 83; 68; 84; 32; 32; 1; 0; 0; 0; 82; 86; 65; 84;
          0; 0; 0; 1; 239; 190; 173; 222; 1; 2; 3; 9; 9; 52; 18] /\
  firstn 10 (sdt_case Wrapping (SL (c13_ctor :: c13_ops ++ [SA 1]))) =
    [EvNum 0; EvNum 0; EvNum 0; EvNum 1; EvNum 1; EvNum 0; EvNum 0; EvNum 0; EvNum 0; EvNum 0] /\
  sdt_case Checked (SL (c13_ctor :: c13_ops ++ [SA 1])) = sdt_case Wrapping (SL (c13_ctor :: c13_ops ++ [SA 1])).
Proof. vm_compute. repeat split. Qed.

(* every prefix: (size, byte sum, Length field) after 0, 1, ..., 10 operations *)
Example c13_every_prefix_demo :
  map (fun n => option_map (fun a => (N.of_nat (length a), sum8 a, field_at a 4 4)) (sdt_model_run Wrapping c13_v36 (firstn n c13_ops)))
      (seq 0 11)
  = map Some [(36, 0, 36); (40, 0, 40); (40, 0, 40); (43, 0, 43); (43, 0, 43); (43, 0, 43); (43, 0, 43); (45, 0, 45);
              (47, 0, 47); (47, 0, 47); (47, 0, 47)].
Proof. vm_compute. reflexivity. Qed.

(* the exception in c13_performed_sums_to_zero is real (a table not summing to 0 stays so under an empty push), and so is
   the hypothesis of c13_length_field_tracks_size (write_u32(4, 1000) is performed and the field no longer tells the size) *)
Example c13_side_conditions_are_needed :
  sdt_op Checked (repeatN 1 36) (SL [SA 6; SL []]) = Some (Some (repeatN 1 36)) /\ sum8 (repeatN 1 36) = 36 /\
  match sdt_model_run Checked c13_v36 [SL [SA 4; SA 4; SA 4; SA 1000]] with
  | Some v => length v = 36%nat /\ field_at v 4 4 = 1000 /\ sum8 v = 0
  | None => False
  end.
Proof. vm_compute. repeat split. Qed.

(* the constructor: equal on the Spec's domain; a declared length of 2^32 + 40 is outside it (it is not a u32) *)
Example c13_constructor_demo :
  sdt_spec_new c13_ctor = sdt_new c13_ctor /\ sdt_new c13_ctor <> None /\
  (let big := SL [SL [SA 68; SA 83; SA 68; SA 84]; SA (2 ^ 32 + 40); SA 2; SL [SA 67; SA 76; SA 79; SA 85; SA 68; SA 72];
                  SL [SA 67; SA 72; SA 68; SA 83; SA 68; SA 84; SA 32; SA 32]; SA 1] in
   sdt_spec_new big = None /\ option_map (@length N) (sdt_new big) = Some 40%nat).
Proof. vm_compute. repeat split. discriminate. Qed.

(* refusals: deleting the two refused operations from the history changes nothing *)
Example c13_refused_demo :
  sdt_model_run Wrapping c13_v36 c13_ops = sdt_model_run Wrapping c13_v36 (firstn 3 c13_ops ++ skipn 5 c13_ops).
Proof. vm_compute. reflexivity. Qed.

(* a DSDT body: Device (_SB_.COM1) { Name (_HID, EISAID "PNP0501"); Name (_CRS, ResourceTemplate { IO, Interrupt });
   Method (TEST, 1) { If (Arg0 == 5) { Return (Local0) } } } *)
Definition c13_dsdt_term : term :=
  TDevice [95; 83; 66; 95; 46; 67; 79; 77; 49]
    [TName [95; 72; 73; 68] (TEisa [80; 78; 80; 48; 53; 48; 49]);
     TName [95; 67; 82; 83] (TResTemplate [TDesc (DIO 0x3F8 0x3F8 1 8); TDesc (DIrq 1 0 0 0 4)]);
     TMethod [84; 69; 83; 84] 1 0 [TIf (TOp2 0 (TArg 0) (TInt 8 5)) [TOp1 2 (TLocal 0)]]].

Example c13_dsdt_term_wf : wf (fun _ => O) false c13_dsdt_term.
Proof.
  cbn [c13_dsdt_term wf].
  repeat match goal with
         | |- _ /\ _ => split
         | |- True => exact Logic.I
         | |- wf_name _ => eexists; split; [vm_compute; reflexivity|repeat constructor]
         | |- Forall _ _ => repeat constructor
         | |- desc_child _ => eexists; reflexivity
         | |- _ < _ => reflexivity
         | |- _ <= _ => discriminate
         end.
  all: try (left; split; reflexivity).
Qed.

(* the remaining hypotheses of c13_dsdt_composition hold (65 bytes, all bytes), and its conclusion computed: sink and
   append_slice give the same 101-byte image, sum 0, Length 101, body = the AML bytes, parsing back to the tree *)
Example c13_dsdt_demo :
  match enc Wrapping c13_dsdt_term with
  | Some b =>
      bytes_ok b = true /\ length b = 65%nat /\ enc Checked c13_dsdt_term = Some b /\
      sdt_sink_vec Wrapping c13_v36 b = sdt_append_slice Wrapping c13_v36 b /\
      sdt_sink_vec Checked c13_v36 b = sdt_append_slice Wrapping c13_v36 b /\
      match sdt_append_slice Wrapping c13_v36 b with
      | Some img =>
          length img = 101%nat /\ sum8 img = 0 /\ field_at img 4 4 = 101 /\ skipn 36 img = b /\
          firstn 4 img = [68; 83; 68; 84] /\
          parse (fun _ => O) 10 false (skipn 36 img) = option_map (fun g => (g, [])) (norm false c13_dsdt_term) /\
          norm false c13_dsdt_term <> None
      | None => False
      end
  | None => False
  end.
Proof. vm_compute. repeat split; try reflexivity; discriminate. Qed.

(* the theorem applied to it, both profiles *)
Example c13_dsdt_demo_applies : forall md b,
  enc md c13_dsdt_term = Some b -> bytes_ok b = true -> N.of_nat (length c13_v36 + length b) < 2 ^ 32 ->
  exists img g, sdt_sink_vec md c13_v36 b = Some img /\ sdt_append_slice md c13_v36 b = Some img /\ sum8 img = 0 /\
                norm false c13_dsdt_term = Some g /\ parse (fun _ => O) 5 false (skipn 36 img) = Some (g, []).
Proof.
  intros md b He Hb Hsz.
  destruct (c13_dsdt_composition (fun _ => O) c13_dsdt_term md b c13_v36 c13_dsdt_term_wf He Hb) as
    (img & g & H1 & H2 & _ & H3 & _ & _ & _ & H4 & H5); [vm_compute; lia|exact Hsz|].
  exists img, g. repeat split; try assumption. apply (H5 5%nat). vm_compute. lia.
Qed.

(* ===================================================================================================================
   THE BYTE HYPOTHESIS DISCHARGED (Proofs/EncBytesP.v).  Statements only.
   =================================================================================================================== *)
From ACPI Require Import Proofs.EncBytesP.

(* c13_dsdt_composition asks that the encoder's output b consists of bytes -- a fact about the encoder, not about the
   caller.  Proofs/EncBytesP.v proves it from a hypothesis on the caller's tree alone: [typed t] says that every constructor
   argument the encoder copies into its output unreduced lies in the range of its Rust type (u8 arguments < 256, bool
   arguments <= 1, Field access < 16 / lock <= 1 / update < 4, AddressSpace type <= 2, and every string, name text, field
   name and BufferData made of bytes); it is a decidable check (typed t is typedb t = true).
   Same conclusion as c13_dsdt_composition, with [bytes_ok b = true] replaced by [typed t]. *)
Theorem c13_dsdt_composition_typed :
  forall env t md b v0,
    wf env false t -> typed t -> enc md t = Some b ->
    (36 <= length v0)%nat -> N.of_nat (length v0 + length b) < 2 ^ 32 ->
    exists img g,
      sdt_sink_vec md v0 b = Some img /\ sdt_append_slice md v0 b = Some img /\
      length img = (length v0 + length b)%nat /\ sum8 img = 0 /\ field_at img 4 4 = N.of_nat (length img) /\
      skipn (length v0) img = b /\
      (forall i, (i < length v0)%nat -> i <> 9%nat -> ~ (4 <= i < 8)%nat -> nth i img 0 = nth i v0 0) /\
      norm false t = Some g /\
      forall f, (depth t < f)%nat -> parse env f false (skipn (length v0) img) = Some (g, []).
Proof.
  intros env t md b v0 Hwf Ht He.
  exact (c13_dsdt_composition env t md b v0 Hwf He (enc_bytes_ok md t b Ht He)).
Qed.

(* the same for a whole TermList as the body: every term of the list typed *)
Theorem c13_dsdt_body_composition_typed :
  forall env ks md b v0,
    Forall (wf env false) ks -> Forall typed ks -> encs md ks = Some b -> b <> [] ->
    (36 <= length v0)%nat -> N.of_nat (length v0 + length b) < 2 ^ 32 ->
    exists img gs,
      sdt_sink_vec md v0 b = Some img /\ sdt_append_slice md v0 b = Some img /\
      (forall tr, flatten tr = b -> run_sdt md v0 tr = Some img) /\
      length img = (length v0 + length b)%nat /\ sum8 img = 0 /\ field_at img 4 4 = N.of_nat (length img) /\
      skipn (length v0) img = b /\
      norms false ks = Some gs /\
      forall f, (depths ks < f)%nat ->
        parse_all (parse env f) (length img - length v0) false (skipn (length v0) img) = Some gs.
Proof.
  intros env ks md b v0 Hwf Ht He.
  exact (c13_dsdt_body_composition env ks md b v0 Hwf He (encs_bytes_ok md ks b Ht He)).
Qed.

Print Assumptions c13_dsdt_composition_typed.
Print Assumptions c13_dsdt_body_composition_typed.

(* non-vacuity: the DSDT demo term is typed (and so is it as a one-element TermList) ... *)
Example c13_dsdt_term_typed : typed c13_dsdt_term /\ Forall typed [c13_dsdt_term].
Proof. split; [|constructor; [|constructor]]; vm_compute; reflexivity. Qed.

(* ... so the theorem applies to it in both profiles with no hypothesis about the encoder's output left *)
Example c13_dsdt_demo_applies_typed : forall md b,
  enc md c13_dsdt_term = Some b -> N.of_nat (length c13_v36 + length b) < 2 ^ 32 ->
  exists img g, sdt_sink_vec md c13_v36 b = Some img /\ sdt_append_slice md c13_v36 b = Some img /\ sum8 img = 0 /\
                norm false c13_dsdt_term = Some g /\ parse (fun _ => O) 5 false (skipn 36 img) = Some (g, []).
Proof.
  intros md b He Hsz.
  destruct (c13_dsdt_composition_typed (fun _ => O) c13_dsdt_term md b c13_v36 c13_dsdt_term_wf (proj1 c13_dsdt_term_typed) He) as
    (img & g & H1 & H2 & _ & H3 & _ & _ & _ & H4 & H5); [vm_compute; lia|exact Hsz|].
  exists img, g. repeat split; try assumption. apply (H5 5%nat). vm_compute. lia.
Qed.

(* the hypothesis cannot simply be dropped: a well-formed tree with a 300 inside a string is encoded to a list that is
   not a byte list, and the Sdt sink refuses it where append_slice (which never looks at the values) does not *)
Example c13_typed_needed :
  let t := TName [95; 83; 84; 82] (TStr [300]) in
  wf (fun _ => O) false t /\ ~ typed t /\
  match enc Checked t with
  | Some b => bytes_ok b = false /\ sdt_sink_vec Checked c13_v36 b <> sdt_append_slice Checked c13_v36 b
  | None => False
  end.
Proof.
  split; [|split].
  - cbn [wf]. split; [eexists; split; [vm_compute; reflexivity|repeat constructor]|repeat constructor; discriminate].
  - vm_compute. discriminate.
  - vm_compute. split; [reflexivity|discriminate].
Qed.
