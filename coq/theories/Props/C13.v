(* C13 -- the generic table behaves as a byte vector with self-maintaining header. Statements only. *)
From Coq Require Import NArith List.
From ACPI Require Import Lib.Bytes Lib.Sx Lib.Machine Impl.Sdt Spec.SdtS Proofs.SdtP.
Import ListNotations.
Open Scope N_scope.

(* Refinement, operation by operation: on every table state of at least 36 bytes (and below 2^62 bytes), each public
   operation of the implementation model -- typed append, slice append, slice write, typed write, bytes pushed through the
   sink one at a time, update_checksum -- has exactly the effect of the Spec's plain byte vector subjected to the same
   append / write followed by "rewrite Length (appends only), then set byte 9 so that the vector sums to 0"; and it is
   refused exactly when the Spec says the write would extend past the end (in both build profiles).  [sdt_op] and
   [sdt_spec_op] return Some (Some v') = performed with result v', Some None = refused. *)
Theorem c13_refinement :
  forall md v, sdt_wf v ->
    (forall w k x, spec_width w = Some k ->
        sdt_op md v (SL [SA 1; SA w; SA x]) = sdt_spec_op v (SL [SA 1; SA w; SA x])) /\
    (forall b bytes, sx_bytes b = Some bytes -> N.of_nat (length bytes) < 2 ^ 62 ->
        sdt_op md v (SL [SA 2; b]) = sdt_spec_op v (SL [SA 2; b])) /\
    (forall off b bytes, off < 2 ^ 64 -> sx_bytes b = Some bytes -> N.of_nat (length bytes) < 2 ^ 62 ->
        sdt_op md v (SL [SA 3; SA off; b]) = sdt_spec_op v (SL [SA 3; SA off; b])) /\
    (forall w k off x, off < 2 ^ 64 -> spec_width w = Some k ->
        sdt_op md v (SL [SA 4; SA w; SA off; SA x]) = sdt_spec_op v (SL [SA 4; SA w; SA off; SA x])) /\
    (forall w k x, spec_width w = Some k ->
        sdt_op md v (SL [SA 5; SA w; SA x]) = sdt_spec_op v (SL [SA 5; SA w; SA x])) /\
    (forall b bytes, sx_bytes b = Some bytes -> bytes_ok bytes = true -> N.of_nat (length bytes) < 2 ^ 62 ->
        sdt_op md v (SL [SA 6; b]) = sdt_spec_op v (SL [SA 6; b])) /\
    sdt_op md v (SL [SA 7]) = sdt_spec_op v (SL [SA 7]).
Proof.
  intros md v Hwf. repeat split; intros.
  - eapply op_append; eauto. - eapply op_append_slice; eauto. - eapply op_write_bytes; eauto.
  - eapply op_write_int; eauto. - eapply op_sink_int; eauto. - eapply op_sink_vec; eauto. - now apply op_update_checksum.
Qed.

(* a write that would extend past the end is refused in both build profiles; the step function then keeps the table *)
Theorem c13_refusal :
  forall md v off bs, off < 2 ^ 64 -> N.of_nat (length bs) < 2 ^ 64 ->
    N.of_nat (length v) < off + N.of_nat (length bs) -> sdt_write_bytes md v off bs = None.
Proof. exact write_bytes_refuse. Qed.

Theorem c13_refused_leaves_unchanged :
  forall md v o, sdt_op md v o = Some None -> sdt_step md v o = Some (v, [EvNum 1]).
Proof. intros md v o H. unfold sdt_step. rewrite H. reflexivity. Qed.

(* the Spec's own result always sums to 0 and has the expected size; with c13_refinement this holds for the model *)
Theorem c13_checksum_after_every_operation :
  forall v, (10 <= length v)%nat -> sum8 (with_checksum v) = 0 /\ length (with_checksum v) = length v.
Proof. exact with_checksum_props. Qed.

Print Assumptions c13_refinement.
Print Assumptions c13_refusal.
Print Assumptions c13_refused_leaves_unchanged.
Print Assumptions c13_checksum_after_every_operation.
