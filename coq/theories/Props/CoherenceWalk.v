(* Coherence of the executable judgement (Judge.v: oracle, run_case) with the theorems about the Impl model, continued
   (Props/CoherenceTables.v covers the oracles of C04 / C11 / C12, C01, C02): the oracles that WALK the observed images.
   Statements only; proofs in Proofs/CoherenceWalkP.v (generic), CoherenceWalkC05P.v, CoherenceWalkC03P.v.

   For every WELL-FORMED case c = (ctor op ...) (every atom among the operations is the observation marker 1: [markers_ok])
   whose history [real_ops ops] lies inside the Spec's domain (ts_image = Some r: exactly what Judge.judged reports), in both
   build profiles, the oracle ACCEPTS the model's own observation stream:

     C05 (components 16 17 18 19, the four tables whose additions return handles)
         oracle 5 comp c (run_case md comp c) = true
         -- every observed image is the reference image of the operations applied so far AND every handle the model has
         returned so far is, in EVERY later observed image, the offset at which the Spec walker finds the entry added by the
         operation that returned it (c05_handles_ok, asked at every observation with all pending handles);
     C03 (components 10 11 12 13 15 16 17 18 19 20 21, and 22 / 14 through c03_extra_oracle as well)
         oracle 3 comp c (run_case md comp c) = true
         -- at every observation c03_judge (the walk finds exactly the (type, length) list of the entries added so far, lands
         on the end, count fields hold) and c03_self (every entry found is consistent with itself); for the RQSC also the
         nested controller / resource walk, for the SLIT the count-and-matrix shape.

   Hence an ORACLE alarm of C05 / C03 on such a case cannot come from the judgement alone: where crate = model, no alarm.
   The executable judgement agrees with the theorems of Props/C05.v and Props/C03.v on ALL in-domain histories.

   Hypotheses kept from the refinement theorems (the same as in Props/CoherenceTables.v): the u32 Length bound on the reference
   image of the WHOLE history (not VIOT: its Spec bounds the table by 2^16; not SLIT), [madt_ops_wf] / [srat_ops_wf], and for the
   HEST the restriction to histories without stand-alone structures.

   What the proofs need beyond Props/CoherenceTables.v: (1) [coherence_judge_history], judge_history with ANY handles_ok along
   the model's stream, where the pending list is the one the model's own reports produce ([pend]); (2) the Spec's domain is
   closed under prefixes -- unlike c04_oracle, c03_judge reads ts_entries and c05_handles_ok walks the image also where ts_image
   has no reference: every observation must be the reference image of an in-domain prefix.  This holds for all 13 tables
   ([coherence_domains_prefix_closed]).

   About K: for C03 and C05 the driver compares the streams through Judge.project (walk digests).  The oracles of C05 (image
   = reference image) and C03 (c03_self reads fields inside the entries) do NOT factor through that projection, so K does not
   by itself imply acceptance; the statement proved is: equal streams are judged equally ([coherence_walk_equal_streams]). *)
From Coq Require Import NArith List Bool.
From ACPI Require Import Lib.Bytes Lib.Sx Lib.Machine Impl.Run Spec.Layout Judge Proofs.FixedP.
From ACPI Require Import Spec.XsdtS Spec.McfgS Spec.MadtS Spec.SratS Spec.SlitS Spec.HmatS Spec.PpttS Spec.RhctS Spec.RimtS
  Spec.ViotS Spec.CedtS Spec.HestS Spec.RqscS.
From ACPI Require Import Proofs.MadtRefP Proofs.SratRefP.
From ACPI Require Import Proofs.CoherenceTablesP Proofs.CoherenceAllP Proofs.CoherenceWalkP Proofs.CoherenceWalkC05P Proofs.CoherenceWalkC03P.
Import ListNotations.
Open Scope N_scope.

(* markers_ok ops = forallb (fun o => match o with SA n => n =? 1 | SL _ => true end) ops *)

(* ---------- generic: judge_history with a non-trivial handles_ok, along the model's own stream ---------- *)
(* [pend step returns s n p acc]: the pending list judge_history holds after the real operations p, applied from state s when n
   operations had been applied before and [acc] was pending: (h, k) for every operation number k for which [returns] says a
   handle is returned, h the number the model reported.  [obs image step s ops] is run_history's stream from state s. *)
Theorem coherence_judge_history :
  forall (S : Type) (image : S -> option (list N)) (step : S -> sx -> option (S * list ev)),
    (forall s o s' evs, step s o = Some (s', evs) -> exists h, evs = [EvNum h]) ->
  forall returns judge handles_ok ops s sf rp pending,
    markers_ok ops = true ->
    run_steps step s ops = Some sf ->
    (forall p q s1, real_ops ops = p ++ q -> run_steps step s p = Some s1 ->
                    exists img, image s1 = Some img /\ judge img (rev rp ++ p) = true
                                /\ handles_ok img (pend step returns s (length rp) p pending) = true) ->
    judge_history returns judge handles_ok rp ops (obs image step s ops) pending = true.
Proof. exact @judge_obs_h. Qed.

Theorem coherence_pending_origin :
  forall (S : Type) (step : S -> sx -> option (S * list ev)),
    (forall s o s' evs, step s o = Some (s', evs) -> exists h, evs = [EvNum h]) ->
  forall returns p s n acc h k,
    all_lists p -> In (h, k) (pend step returns s n p acc) ->
    In (h, k) acc \/
    exists pre o post sk sk1, p = pre ++ o :: post /\ k = (n + length pre)%nat /\
      run_steps step s pre = Some sk /\ step sk o = Some (sk1, [EvNum h]) /\ returns o = true.
Proof. exact @pend_in. Qed.

(* ---------- C05 ---------- *)
Theorem coherence_c05_pptt : forall md ctor ops r,
  markers_ok ops = true ->
  ts_image pptt_spec ctor (real_ops ops) = Some r ->
  N.of_nat (length r) < 2 ^ 32 ->
  oracle 5 16 (SL (ctor :: ops)) (run_case md 16 (SL (ctor :: ops))) = true.
Proof. exact pptt_c05_coherent. Qed.

Theorem coherence_c05_rhct : forall md ctor ops r,
  markers_ok ops = true ->
  ts_image rhct_spec ctor (real_ops ops) = Some r ->
  N.of_nat (length r) < 2 ^ 32 ->
  oracle 5 17 (SL (ctor :: ops)) (run_case md 17 (SL (ctor :: ops))) = true.
Proof. exact rhct_c05_coherent. Qed.

Theorem coherence_c05_rimt : forall md ctor ops r,
  markers_ok ops = true ->
  ts_image rimt_spec ctor (real_ops ops) = Some r ->
  N.of_nat (length r) < 2 ^ 32 ->
  oracle 5 18 (SL (ctor :: ops)) (run_case md 18 (SL (ctor :: ops))) = true.
Proof. exact rimt_c05_coherent. Qed.

Theorem coherence_c05_viot : forall md ctor ops r,
  markers_ok ops = true ->
  ts_image viot_spec ctor (real_ops ops) = Some r ->
  oracle 5 19 (SL (ctor :: ops)) (run_case md 19 (SL (ctor :: ops))) = true.
Proof. exact viot_c05_coherent. Qed.

(* ---------- C03 ---------- *)
Theorem coherence_c03_xsdt : forall md ctor ops r,
  markers_ok ops = true ->
  ts_image xsdt_spec ctor (real_ops ops) = Some r ->
  N.of_nat (length r) < 2 ^ 32 ->
  oracle 3 10 (SL (ctor :: ops)) (run_case md 10 (SL (ctor :: ops))) = true.
Proof. exact xsdt_c03_coherent. Qed.

Theorem coherence_c03_mcfg : forall md ctor ops r,
  markers_ok ops = true ->
  ts_image mcfg_spec ctor (real_ops ops) = Some r ->
  N.of_nat (length r) < 2 ^ 32 ->
  oracle 3 11 (SL (ctor :: ops)) (run_case md 11 (SL (ctor :: ops))) = true.
Proof. exact mcfg_c03_coherent. Qed.

Theorem coherence_c03_madt : forall md ctor ops r,
  markers_ok ops = true ->
  madt_ops_wf (real_ops ops) ->
  ts_image madt_spec ctor (real_ops ops) = Some r ->
  N.of_nat (length r) < 2 ^ 32 ->
  oracle 3 12 (SL (ctor :: ops)) (run_case md 12 (SL (ctor :: ops))) = true.
Proof. exact madt_c03_coherent. Qed.

Theorem coherence_c03_srat : forall md ctor ops r,
  markers_ok ops = true ->
  srat_ops_wf (real_ops ops) ->
  ts_image srat_spec ctor (real_ops ops) = Some r ->
  N.of_nat (length r) < 2 ^ 32 ->
  oracle 3 13 (SL (ctor :: ops)) (run_case md 13 (SL (ctor :: ops))) = true.
Proof. exact srat_c03_coherent. Qed.

Theorem coherence_c03_slit : forall md ctor ops r,
  markers_ok ops = true ->
  ts_image slit_spec ctor (real_ops ops) = Some r ->
  oracle 3 14 (SL (ctor :: ops)) (run_case md 14 (SL (ctor :: ops))) = true.
Proof. exact slit_c03_coherent. Qed.

Theorem coherence_c03_hmat : forall md ctor ops r,
  markers_ok ops = true ->
  ts_image hmat_spec ctor (real_ops ops) = Some r ->
  N.of_nat (length r) < 2 ^ 32 ->
  oracle 3 15 (SL (ctor :: ops)) (run_case md 15 (SL (ctor :: ops))) = true.
Proof. exact hmat_c03_coherent. Qed.

Theorem coherence_c03_pptt : forall md ctor ops r,
  markers_ok ops = true ->
  ts_image pptt_spec ctor (real_ops ops) = Some r ->
  N.of_nat (length r) < 2 ^ 32 ->
  oracle 3 16 (SL (ctor :: ops)) (run_case md 16 (SL (ctor :: ops))) = true.
Proof. exact pptt_c03_coherent. Qed.

Theorem coherence_c03_rhct : forall md ctor ops r,
  markers_ok ops = true ->
  ts_image rhct_spec ctor (real_ops ops) = Some r ->
  N.of_nat (length r) < 2 ^ 32 ->
  oracle 3 17 (SL (ctor :: ops)) (run_case md 17 (SL (ctor :: ops))) = true.
Proof. exact rhct_c03_coherent. Qed.

Theorem coherence_c03_rimt : forall md ctor ops r,
  markers_ok ops = true ->
  ts_image rimt_spec ctor (real_ops ops) = Some r ->
  N.of_nat (length r) < 2 ^ 32 ->
  oracle 3 18 (SL (ctor :: ops)) (run_case md 18 (SL (ctor :: ops))) = true.
Proof. exact rimt_c03_coherent. Qed.

Theorem coherence_c03_viot : forall md ctor ops r,
  markers_ok ops = true ->
  ts_image viot_spec ctor (real_ops ops) = Some r ->
  oracle 3 19 (SL (ctor :: ops)) (run_case md 19 (SL (ctor :: ops))) = true.
Proof. exact viot_c03_coherent. Qed.

Theorem coherence_c03_cedt : forall md ctor ops r,
  markers_ok ops = true ->
  ts_image cedt_spec ctor (real_ops ops) = Some r ->
  N.of_nat (length r) < 2 ^ 32 ->
  oracle 3 20 (SL (ctor :: ops)) (run_case md 20 (SL (ctor :: ops))) = true.
Proof. exact cedt_c03_coherent. Qed.

Theorem coherence_c03_hest : forall md ctor ops r,
  markers_ok ops = true ->
  forallb (fun o => negb (is_alone_op o)) (real_ops ops) = true ->
  ts_image hest_spec ctor (real_ops ops) = Some r ->
  N.of_nat (length r) < 2 ^ 32 ->
  oracle 3 21 (SL (ctor :: ops)) (run_case md 21 (SL (ctor :: ops))) = true.
Proof. exact hest_c03_coherent. Qed.

Theorem coherence_c03_rqsc : forall md ctor ops r,
  markers_ok ops = true ->
  ts_image rqsc_spec ctor (real_ops ops) = Some r ->
  N.of_nat (length r) < 2 ^ 32 ->
  oracle 3 22 (SL (ctor :: ops)) (run_case md 22 (SL (ctor :: ops))) = true.
Proof. exact rqsc_c03_coherent. Qed.

(* ---------- the Spec's domain is closed under prefixes, and reference images do not shrink (new here for the first six) ---------- *)
Theorem coherence_domains_prefix_closed :
  forall spec, In spec [xsdt_spec; mcfg_spec; madt_spec; srat_spec; hmat_spec; cedt_spec; pptt_spec; rhct_spec; rimt_spec; viot_spec] ->
  forall ctor p q r, ts_image spec ctor (p ++ q) = Some r ->
    exists r1, ts_image spec ctor p = Some r1 /\ (length r1 <= length r)%nat.
Proof.
  intros spec Hin. cbn [In] in Hin.
  repeat (destruct Hin as [<-|Hin];
          [first [exact xsdt_dom_prefix | exact mcfg_dom_prefix | exact madt_dom_prefix | exact srat_dom_prefix | exact hmat_dom_prefix
                 | exact cedt_dom_prefix | exact pptt_dom_prefix | exact rhct_dom_prefix | exact rimt_dom_prefix | exact viot_dom_prefix]|]).
  destruct Hin.
Qed.

(* ---------- equal streams are judged equally (K on whole streams); see the header about Judge.project ---------- *)
Theorem coherence_walk_equal_streams : forall prop comp md c impl,
  oracle prop comp c (run_case md comp c) = true ->
  evs_eqb (run_case md comp c) impl = true -> oracle prop comp c impl = true.
Proof. intros prop comp md c impl H E. apply evs_eqb_eq in E. now subst impl. Qed.

(* ---------- non-vacuity ---------- *)
Definition exw_ctor3 : sx := SL [SL (map SA [65; 66; 67; 68; 69; 70]); SL (map SA [1; 2; 3; 4; 5; 6; 7; 8]); SA 1].

(* RIMT: IOMMU; platform device; second IOMMU; PCIe root complex with two ID mappings, to the handle of operation 2 and to the
   handle of operation 0 -- with an observation before the first operation, after each IOMMU and at the end *)
Definition exw_rimt_map (k : N) : sx := SL [SA 0; SA 0; SA 16; SL [SA 104; SA k]; SA 0; SA 0; SA 0].
Definition exw_rimt_ops : list sx :=
  [ SA 1; SL [SA 1; SA 5; SL []; SL []; SL []; SL []]; SA 1; SL [SA 3; SA 1; SL (map SA [65; 66]); SL []];
    SL [SA 1; SA 6; SL []; SL []; SL []; SL []]; SA 1;
    SL [SA 2; SA 9; SA 0; SA 1; SA 0; SL [SL [exw_rimt_map 2; exw_rimt_map 0]]]; SA 1 ].

Definition shape (evs : list ev) : list (option N) := map (fun e => match e with EvNum h => Some h | _ => None end) evs.

(* a stream in which the k-th number is replaced *)
Fixpoint set_num (k : nat) (v : N) (evs : list ev) : list ev :=
  match evs with
  | [] => []
  | EvNum h :: r => match k with O => EvNum v :: r | S k' => EvNum h :: set_num k' v r end
  | e :: r => e :: set_num k v r
  end.

Example coherence_c05_rimt_not_vacuous :
  let c := SL (exw_ctor3 :: exw_rimt_ops) in
  markers_ok exw_rimt_ops = true /\
  (exists r, ts_image rimt_spec exw_ctor3 (real_ops exw_rimt_ops) = Some r /\ N.of_nat (length r) < 2 ^ 32) /\
  (* the model's stream: image, handle 48, image, 0, handle 95, image, 0, image *)
  shape (run_case Wrapping 18 c) = [None; Some 48; None; Some 0; Some 95; None; Some 0; None] /\
  run_case Checked 18 c = run_case Wrapping 18 c /\
  oracle 5 18 c (run_case Wrapping 18 c) = true /\ oracle 5 18 c (run_case Checked 18 c) = true /\
  oracle 3 18 c (run_case Wrapping 18 c) = true /\ oracle 3 18 c (run_case Checked 18 c) = true /\
  (* the judgement is not trivial: a wrong handle for the first or for the second IOMMU is rejected (at a LATER observation) *)
  oracle 5 18 c (set_num 0 49 (run_case Wrapping 18 c)) = false /\
  oracle 5 18 c (set_num 2 80 (run_case Wrapping 18 c)) = false.
Proof.
  split; [vm_compute; reflexivity|]. split; [eexists; split; [vm_compute; reflexivity|vm_compute; reflexivity]|].
  vm_compute. repeat split.
Qed.

(* the theorems applied to the example *)
Example coherence_c05_rimt_instance :
  let c := SL (exw_ctor3 :: exw_rimt_ops) in
  forall md, oracle 5 18 c (run_case md 18 c) = true /\ oracle 3 18 c (run_case md 18 c) = true.
Proof.
  intros c md. destruct coherence_c05_rimt_not_vacuous as (Hm & (r & Ht & Hf) & _).
  split; [exact (coherence_c05_rimt md exw_ctor3 exw_rimt_ops r Hm Ht Hf)|exact (coherence_c03_rimt md exw_ctor3 exw_rimt_ops r Hm Ht Hf)].
Qed.

(* PPTT: L2 cache; package; L1 cache whose next level is the L2; core with parent = package and private resources L1, L2;
   an observation after every operation *)
Definition exw_pptt_ops : list sx :=
  [ SL [SA 2; SL [SL [SA 1; SA 4096]]]; SA 1;
    SL [SA 1; SL []; SA 0; SL [SL [SA 1]]]; SA 1;
    SL [SA 2; SL [SL [SA 9; SL [SA 104; SA 0]]]]; SA 1;
    SL [SA 1; SL [SA 104; SA 1]; SA 7; SL [SL [SA 6; SL [SA 104; SA 2]]; SL [SA 6; SL [SA 104; SA 0]]]]; SA 1 ].

Example coherence_c05_pptt_not_vacuous :
  let c := SL (exw_ctor3 :: exw_pptt_ops) in
  markers_ok exw_pptt_ops = true /\
  (exists r, ts_image pptt_spec exw_ctor3 (real_ops exw_pptt_ops) = Some r /\ N.of_nat (length r) < 2 ^ 32) /\
  shape (run_case Wrapping 16 c) = [Some 36; None; Some 64; None; Some 84; None; Some 112; None] /\
  run_case Checked 16 c = run_case Wrapping 16 c /\
  oracle 5 16 c (run_case Wrapping 16 c) = true /\ oracle 5 16 c (run_case Checked 16 c) = true /\
  oracle 3 16 c (run_case Wrapping 16 c) = true /\ oracle 3 16 c (run_case Checked 16 c) = true /\
  oracle 5 16 c (set_num 1 60 (run_case Wrapping 16 c)) = false.
Proof.
  split; [vm_compute; reflexivity|]. split; [eexists; split; [vm_compute; reflexivity|vm_compute; reflexivity]|].
  vm_compute. repeat split.
Qed.

(* C03 on tables without handles: the MADT and RQSC histories of Props/CoherenceTables.v, the SLIT *)
Definition exw_madt_ctor : sx := SL [SL [SA 255; SA 255; SA 255; SA 255; SA 255; SA 255]; SL [SA 255; SA 255; SA 255; SA 255; SA 255; SA 255; SA 255; SA 255]; SA 16567578; SL []].
Definition exw_madt_ops : list sx :=
  [SA 1; SL [SA 2; SA 35; SA 2147483648; SA 1]; SA 1; SL [SA 11; SA 254; SL [SA 118; SA 57; SA 141; SA 138; SA 206; SA 213; SA 243; SA 137]; SA 2147; SA 2779096485; SA 4557430888798830399; SA 1175481320; SA 65534]; SA 1].
Definition exw_rqsc_ctor : sx := SL [SL [SA 0; SA 0; SA 0; SA 0; SA 0; SA 0]; SL [SA 0; SA 0; SA 0; SA 0; SA 0; SA 0; SA 0; SA 0]; SA 3193990782].
Definition exw_rqsc_ops : list sx :=
  [SA 1; SL [SA 1; SA 0; SL [SA 1; SA 0; SA 3; SA 245; SA 254; SA 1]; SA 0; SA 531838662; SA 65534; SL [SL [SA 1; SA 56852; SL [SA 1; SA 0; SA 1374463283923456787]]]]; SA 1].
Definition exw_slit_ctor : sx := SL [SL [SA 255; SA 255; SA 255; SA 255; SA 255; SA 255]; SL [SA 255; SA 255; SA 255; SA 255; SA 255; SA 255; SA 255; SA 255]; SA 3970050675; SA 2].
Definition exw_slit_ops : list sx :=
  [SA 1; SL [SA 1; SA 1; SA 1; SA 219]; SA 1; SL [SA 1; SA 0; SA 0; SA 16]; SA 1].

Example coherence_c03_not_vacuous :
  (let c := SL (exw_madt_ctor :: exw_madt_ops) in
   markers_ok exw_madt_ops = true /\
   (exists r, ts_image madt_spec exw_madt_ctor (real_ops exw_madt_ops) = Some r /\ N.of_nat (length r) < 2 ^ 32) /\
   oracle 3 12 c (run_case Wrapping 12 c) = true /\ oracle 3 12 c (run_case Checked 12 c) = true /\
   existsb (fun e => match e with EvBytes _ => true | _ => false end) (run_case Wrapping 12 c) = true) /\
  (let c := SL (exw_rqsc_ctor :: exw_rqsc_ops) in
   markers_ok exw_rqsc_ops = true /\
   (exists r, ts_image rqsc_spec exw_rqsc_ctor (real_ops exw_rqsc_ops) = Some r /\ N.of_nat (length r) < 2 ^ 32) /\
   oracle 3 22 c (run_case Wrapping 22 c) = true /\ oracle 3 22 c (run_case Checked 22 c) = true /\
   existsb (fun e => match e with EvBytes _ => true | _ => false end) (run_case Wrapping 22 c) = true) /\
  (let c := SL (exw_slit_ctor :: exw_slit_ops) in
   markers_ok exw_slit_ops = true /\
   (exists r, ts_image slit_spec exw_slit_ctor (real_ops exw_slit_ops) = Some r) /\
   oracle 3 14 c (run_case Wrapping 14 c) = true /\ oracle 3 14 c (run_case Checked 14 c) = true /\
   existsb (fun e => match e with EvBytes _ => true | _ => false end) (run_case Wrapping 14 c) = true).
Proof.
  split; [|split].
  - split; [vm_compute; reflexivity|]. split; [eexists; split; [vm_compute; reflexivity|vm_compute; reflexivity]|]. vm_compute. repeat split.
  - split; [vm_compute; reflexivity|]. split; [eexists; split; [vm_compute; reflexivity|vm_compute; reflexivity]|]. vm_compute. repeat split.
  - split; [vm_compute; reflexivity|]. split; [eexists; vm_compute; reflexivity|]. vm_compute. repeat split.
Qed.

Print Assumptions coherence_judge_history.
Print Assumptions coherence_pending_origin.
Print Assumptions coherence_c05_pptt.
Print Assumptions coherence_c05_rhct.
Print Assumptions coherence_c05_rimt.
Print Assumptions coherence_c05_viot.
Print Assumptions coherence_c03_xsdt.
Print Assumptions coherence_c03_mcfg.
Print Assumptions coherence_c03_madt.
Print Assumptions coherence_c03_srat.
Print Assumptions coherence_c03_slit.
Print Assumptions coherence_c03_hmat.
Print Assumptions coherence_c03_pptt.
Print Assumptions coherence_c03_rhct.
Print Assumptions coherence_c03_rimt.
Print Assumptions coherence_c03_viot.
Print Assumptions coherence_c03_cedt.
Print Assumptions coherence_c03_hest.
Print Assumptions coherence_c03_rqsc.
Print Assumptions coherence_domains_prefix_closed.
Print Assumptions coherence_walk_equal_streams.
