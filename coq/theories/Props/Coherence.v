(* Coherence of the executable judgements with the model, for the pure kernels (components 1..6).  Statements only;
   proofs are in Proofs/CoherenceKernelsP.v and rest on the lemmas behind C07, C08, C09, C16, C17.

   For every case of the stated domain the Spec-layer oracle ACCEPTS the Impl model's own output:
        oracle prop comp c (run_case md comp c) = true.
   Hence (i) on a case where the crate and the model agree (K) the oracle alone cannot raise an alarm, and (ii) the
   judgements the driver executes agree with the property theorems on every input, not only on the sampled ones.
   Each statement is given through `oracle` / `run_case` (literally what the driver calls) and, as `_unfolded`, through the
   specific oracle and case functions these reduce to. *)
From Coq Require Import NArith List Bool.
From ACPI Require Import Lib.Bytes Lib.Sx Lib.Machine Impl.Checksum Spec.ChecksumS Impl.AmlCore Spec.AmlCoreS.
From ACPI Require Import Judge Proofs.CoherenceKernelsP.
Import ListNotations.
Open Scope N_scope.

(* ---- (17, 1) checksum accumulator.  Domain: ck_wf c, the case grammar ck_case accepts (a list of operations each parsed by
        ckop_of_sx); operands are arbitrary numbers.  The domain is the largest one (coh_ck_domain_sharp). *)
Theorem coh_ck :
  forall md c, ck_wf c = true -> oracle 17 1 c (run_case md 1 c) = true.
Proof. exact coh_ck_driver. Qed.

Theorem coh_ck_unfolded :
  forall c, ck_wf c = true -> ck_oracle c (ck_case c) = true.
Proof. exact coh_ck_kernel. Qed.

Theorem coh_ck_domain_sharp :
  forall c, ck_oracle c (ck_case c) = true -> ck_wf c = true.
Proof. exact coh_ck_sharp. Qed.

Example coh_ck_example :
  let c := SL [SL [SA 0; SA 200]; SL [SA 2; SL [SA 100; SA 7]]; SL [SA 1; SA 9]; SL [SA 6; SA 0x01020304];
               SL [SA 3; SL [SA 7]]; SL [SA 7; SA (2 ^ 64 - 1)]] in
  ck_wf c = true /\ oracle 17 1 c (run_case Wrapping 1 c) = true /\
  run_case Wrapping 1 c = [EvNum 200; EvNum 56; EvNum 51; EvNum 205; EvNum 42; EvNum 214; EvNum 52; EvNum 204;
                           EvNum 45; EvNum 211; EvNum 37; EvNum 219].
Proof. vm_compute. repeat split. Qed.

(* ---- (7, 2) and (18, 2) create_pkg_length.  Domain: pkg_dom md n incl = every n in the overflow-checking profile; in the
        wrapping profile n + (4 if inclusive) < 2^64.  This contains the sizes C07 covers (coh_pkglen_c07_sizes) and every
        oversize up to the end of usize; it is sharp on usize (coh_pkglen_wrap_counterexample). *)
Theorem coh_pkglen :
  forall md n i, pkg_dom md n (negb (i =? 0)) = true ->
    oracle 7 2 (SL [SA n; SA i]) (run_case md 2 (SL [SA n; SA i])) = true.
Proof. exact coh_pkglen_driver. Qed.

Theorem coh_pkglen_unfolded :
  forall md n i, pkg_dom md n (negb (i =? 0)) = true ->
    pkglen_oracle (SL [SA n; SA i]) (pkglen_case md (SL [SA n; SA i])) = true.
Proof. exact coh_pkglen_kernel. Qed.

Theorem coh_pkglen_c07_sizes :
  forall md n i, (if i =? 0 then n < 2 ^ 28 else n + 4 < 2 ^ 28) ->
    oracle 7 2 (SL [SA n; SA i]) (run_case md 2 (SL [SA n; SA i])) = true.
Proof. exact CoherenceKernelsP.coh_pkglen_c07_sizes. Qed.

Theorem coh_pkglen18 :
  forall md n i, pkg_dom md n (negb (i =? 0)) = true ->
    oracle 18 2 (SL [SA n; SA i]) (run_case md 2 (SL [SA n; SA i])) = true.
Proof. exact coh_pkglen18_driver. Qed.

Theorem coh_pkglen18_unfolded :
  forall md n i, pkg_dom md n (negb (i =? 0)) = true ->
    pkglen_oracle18 (SL [SA n; SA i]) (pkglen_case md (SL [SA n; SA i])) = true.
Proof. exact coh_pkglen18_kernel. Qed.

(* every n whatsoever in the overflow-checking profile; every n with n + 4 inside usize in the wrapping profile *)
Theorem coh_pkglen18_all_checked :
  forall n i, oracle 18 2 (SL [SA n; SA i]) (run_case Checked 2 (SL [SA n; SA i])) = true.
Proof. exact coh_pkglen18_checked. Qed.

Theorem coh_pkglen18_all_wrapping :
  forall n i, n + 4 < 2 ^ 64 -> oracle 18 2 (SL [SA n; SA i]) (run_case Wrapping 2 (SL [SA n; SA i])) = true.
Proof. exact coh_pkglen18_wrapping. Qed.

(* FINDING: the four usize values left out.  Wrapping profile, inclusive form, 2^64 - 4 <= n < 2^64: len + 4 wraps, the
   model (as the code in a release build) emits a 4-byte PkgLength for the wrapped total, and both oracles reject it. *)
Theorem coh_pkglen_wrap_counterexample :
  forall n i, n < 2 ^ 64 -> pkg_dom Wrapping n (negb (i =? 0)) = false ->
    oracle 7 2 (SL [SA n; SA i]) (run_case Wrapping 2 (SL [SA n; SA i])) = false /\
    oracle 18 2 (SL [SA n; SA i]) (run_case Wrapping 2 (SL [SA n; SA i])) = false.
Proof. exact coh_pkglen_wrap_sharp. Qed.

Example coh_pkglen_example :
  pkg_dom Wrapping 4093 true = true /\ pkg_dom Wrapping 4094 true = true /\ pkg_dom Wrapping 63 false = true /\
  run_case Wrapping 2 (SL [SA 4093; SA 1]) = [EvBytes [0x4F; 0xFF]] /\
  oracle 7 2 (SL [SA 4093; SA 1]) (run_case Wrapping 2 (SL [SA 4093; SA 1])) = true /\
  run_case Checked 2 (SL [SA 4094; SA 1]) = [EvBytes [0x81; 0x00; 0x01]] /\
  oracle 7 2 (SL [SA 4094; SA 1]) (run_case Checked 2 (SL [SA 4094; SA 1])) = true /\
  run_case Wrapping 2 (SL [SA 63; SA 0]) = [EvBytes [0x4F; 0x03]] /\
  oracle 7 2 (SL [SA 63; SA 0]) (run_case Wrapping 2 (SL [SA 63; SA 0])) = true /\
  (* a judged refusal *)
  run_case Wrapping 2 (SL [SA (2 ^ 28 - 4); SA 1]) = [EvPanic] /\
  oracle 7 2 (SL [SA (2 ^ 28 - 4); SA 1]) (run_case Wrapping 2 (SL [SA (2 ^ 28 - 4); SA 1])) = true.
Proof. vm_compute. repeat split. Qed.

Example coh_pkglen18_example :
  pkg_dom Wrapping (2 ^ 28 - 4) true = true /\ pkg_dom Wrapping (2 ^ 64 - 5) true = true /\
  pkg_representable (2 ^ 28 - 4) true = false /\
  run_case Wrapping 2 (SL [SA (2 ^ 28 - 4); SA 1]) = [EvPanic] /\
  oracle 18 2 (SL [SA (2 ^ 28 - 4); SA 1]) (run_case Wrapping 2 (SL [SA (2 ^ 28 - 4); SA 1])) = true /\
  oracle 18 2 (SL [SA (2 ^ 64 - 5); SA 1]) (run_case Wrapping 2 (SL [SA (2 ^ 64 - 5); SA 1])) = true /\
  oracle 18 2 (SL [SA (2 ^ 28); SA 0]) (run_case Checked 2 (SL [SA (2 ^ 28); SA 0])) = true.
Proof. vm_compute. repeat split. Qed.

Example coh_pkglen_wrap_counterexample_instance :
  run_case Wrapping 2 (SL [SA (2 ^ 64 - 1); SA 1]) = [EvBytes [0xC3; 0; 0; 0]] /\
  oracle 7 2 (SL [SA (2 ^ 64 - 1); SA 1]) (run_case Wrapping 2 (SL [SA (2 ^ 64 - 1); SA 1])) = false /\
  oracle 18 2 (SL [SA (2 ^ 64 - 1); SA 1]) (run_case Wrapping 2 (SL [SA (2 ^ 64 - 1); SA 1])) = false /\
  run_case Checked 2 (SL [SA (2 ^ 64 - 1); SA 1]) = [EvPanic].
Proof. vm_compute. repeat split. Qed.

(* ---- (8, 3) integer constants.  Domain: int_dom ty n = the tag is one of 8 / 16 / 32 / 64 / 0 (usize) and n is below that
        carrier's modulus. *)
Theorem coh_int :
  forall md ty n, int_dom ty n = true ->
    oracle 8 3 (SL [SA ty; SA n]) (run_case md 3 (SL [SA ty; SA n])) = true.
Proof. exact coh_int_driver. Qed.

Theorem coh_int_unfolded :
  forall ty n, int_dom ty n = true -> int_oracle (SL [SA ty; SA n]) (int_case (SL [SA ty; SA n])) = true.
Proof. exact coh_int_kernel. Qed.

Example coh_int_example :
  int_dom 8 255 = true /\ int_dom 16 256 = true /\ int_dom 32 65536 = true /\ int_dom 64 (2 ^ 64 - 1) = true /\
  int_dom 0 1 = true /\ int_dom 8 256 = false /\ int_dom 7 0 = false /\
  run_case Checked 3 (SL [SA 16; SA 256]) = [EvBytes [0x0B; 0; 1]] /\
  oracle 8 3 (SL [SA 8; SA 255]) (run_case Checked 3 (SL [SA 8; SA 255])) = true /\
  oracle 8 3 (SL [SA 16; SA 256]) (run_case Checked 3 (SL [SA 16; SA 256])) = true /\
  oracle 8 3 (SL [SA 32; SA 65536]) (run_case Checked 3 (SL [SA 32; SA 65536])) = true /\
  oracle 8 3 (SL [SA 64; SA (2 ^ 64 - 1)]) (run_case Checked 3 (SL [SA 64; SA (2 ^ 64 - 1)])) = true /\
  oracle 8 3 (SL [SA 0; SA 1]) (run_case Checked 3 (SL [SA 0; SA 1])) = true.
Proof. vm_compute. repeat split. Qed.

(* ---- (9, 4) and (18, 4) name paths.  Domain: EVERY case that is a list of atoms (sx_bytes c = Some s), with no condition on
        the characters: well-formed paths are emitted in the specification's form and decode back, paths with a segment
        of the wrong length or more than 255 segments are refused, and the oracle does not judge four-character segments
        outside the AML name alphabet.  A case that is not a list of atoms is rejected by the oracle whatever is observed. *)
Theorem coh_path :
  forall md c s, sx_bytes c = Some s -> oracle 9 4 c (run_case md 4 c) = true.
Proof. exact coh_path_driver. Qed.

Theorem coh_path18 :
  forall md c s, sx_bytes c = Some s -> oracle 18 4 c (run_case md 4 c) = true.
Proof. exact coh_path18_driver. Qed.

Theorem coh_path_unfolded :
  forall c s, sx_bytes c = Some s -> path_oracle c (path_case c) = true.
Proof. exact coh_path_kernel. Qed.

Theorem coh_path_domain_sharp :
  forall c impl, sx_bytes c = None -> path_oracle c impl = false.
Proof. exact coh_path_sharp. Qed.

Example coh_path_example :
  let good := SL (map SA [0x5C; 95; 83; 66; 95; 46; 80; 67; 73; 48; 46; 95; 72; 73; 68]) in     (* \_SB_.PCI0._HID *)
  let bad := SL (map SA [65; 66; 67; 46; 68; 69; 70; 71]) in                                    (* ABC.DEFG *)
  run_case Checked 4 good = [EvBytes [0x5C; 0x2F; 3; 95; 83; 66; 95; 80; 67; 73; 48; 95; 72; 73; 68]] /\
  oracle 9 4 good (run_case Checked 4 good) = true /\ oracle 18 4 good (run_case Checked 4 good) = true /\
  run_case Checked 4 bad = [EvPanic] /\
  oracle 9 4 bad (run_case Checked 4 bad) = true /\ oracle 18 4 bad (run_case Checked 4 bad) = true /\
  oracle 9 4 good [EvPanic] = false /\ oracle 9 4 bad [EvBytes [65; 66; 67; 68]] = false.
Proof. vm_compute. repeat split. Qed.

(* ---- (16, 5) EISA ids.  Domain: every case that is a list of atoms (in particular every ASCII string): valid ids are
        emitted and decompress back, a wrong length or a non-hex character among the last four is refused. *)
Theorem coh_eisa :
  forall md c s, sx_bytes c = Some s -> oracle 16 5 c (run_case md 5 c) = true.
Proof. exact coh_eisa_driver. Qed.

Theorem coh_eisa_unfolded :
  forall c s, sx_bytes c = Some s -> eisa_oracle c (eisa_case c) = true.
Proof. exact coh_eisa_kernel. Qed.

Example coh_eisa_example :
  let good := SL (map SA [80; 78; 80; 48; 53; 48; 49]) in          (* PNP0501 *)
  let bad := SL (map SA [80; 78; 80; 48; 53; 71; 49]) in           (* PNP05G1 *)
  run_case Checked 5 good = [EvBytes [0x0C; 0x41; 0xD0; 0x05; 0x01]] /\
  oracle 16 5 good (run_case Checked 5 good) = true /\
  run_case Checked 5 bad = [EvPanic] /\ oracle 16 5 bad (run_case Checked 5 bad) = true /\
  oracle 16 5 good [EvPanic] = false /\ oracle 16 5 bad [EvBytes [0x0C; 0x41; 0xD0; 0x05; 0x01]] = false.
Proof. vm_compute. repeat split. Qed.

(* ---- (16, 6) UUIDs.  Domain: every case that is a list of atoms, both profiles: canonical UUIDs (either letter case) are
        emitted as a 16-byte Buffer that reads back to the same UUID, anything else is refused. *)
Theorem coh_uuid :
  forall md c s, sx_bytes c = Some s -> oracle 16 6 c (run_case md 6 c) = true.
Proof. exact coh_uuid_driver. Qed.

Theorem coh_uuid_unfolded :
  forall md c s, sx_bytes c = Some s -> uuid_oracle c (uuid_case md c) = true.
Proof. exact coh_uuid_kernel. Qed.

Example coh_uuid_example :
  (* 01234567-89ab-cdef-ABCD-EF0123456789 *)
  let u := [48;49;50;51;52;53;54;55;45;56;57;97;98;45;99;100;101;102;45;65;66;67;68;45;69;70;48;49;50;51;52;53;54;55;56;57] in
  let good := SL (map SA u) in
  let bad := SL (map SA (upd u 9 103)) in                         (* a 'g' among the digits *)
  run_case Wrapping 6 good = [EvBytes [0x11; 19; 0x0A; 16; 0x67; 0x45; 0x23; 0x01; 0xAB; 0x89; 0xEF; 0xCD;
                                       0xAB; 0xCD; 0xEF; 0x01; 0x23; 0x45; 0x67; 0x89]] /\
  oracle 16 6 good (run_case Wrapping 6 good) = true /\
  run_case Wrapping 6 bad = [EvPanic] /\ oracle 16 6 bad (run_case Wrapping 6 bad) = true /\
  oracle 16 6 good [EvPanic] = false /\ oracle 16 6 bad (run_case Wrapping 6 good) = false.
Proof. vm_compute. repeat split. Qed.

Print Assumptions coh_ck.
Print Assumptions coh_ck_unfolded.
Print Assumptions coh_ck_domain_sharp.
Print Assumptions coh_pkglen.
Print Assumptions coh_pkglen_unfolded.
Print Assumptions coh_pkglen_c07_sizes.
Print Assumptions coh_pkglen18.
Print Assumptions coh_pkglen18_unfolded.
Print Assumptions coh_pkglen18_all_checked.
Print Assumptions coh_pkglen18_all_wrapping.
Print Assumptions coh_pkglen_wrap_counterexample.
Print Assumptions coh_int.
Print Assumptions coh_int_unfolded.
Print Assumptions coh_path.
Print Assumptions coh_path18.
Print Assumptions coh_path_unfolded.
Print Assumptions coh_path_domain_sharp.
Print Assumptions coh_eisa.
Print Assumptions coh_eisa_unfolded.
Print Assumptions coh_uuid.
Print Assumptions coh_uuid_unfolded.
