(* C17 -- the checksum accumulator is a faithful mod-256 sum with exact inverses.
   Property statements only; proofs are in Proofs/ChecksumP.v. *)
From Coq Require Import NArith ZArith List.
From ACPI Require Import Lib.Bytes Lib.Sx Impl.Checksum Proofs.ChecksumP.
Import ListNotations.

(* raw value = (sum of everything added - sum of everything removed) mod 256, computed over the
   integers, for every sequence of add/sub/append/delete and sink byte/word/dword/qword/vec calls,
   with no assumption on the operands at all *)
Theorem c17_raw_is_net_sum :
  forall ops : list ckop, Z.of_N (ck_raw (ck_run ops)) = (net ops mod 256)%Z.
Proof. exact ck_run_net. Qed.

(* every reachable accumulator state is a byte *)
Theorem c17_state_is_byte : forall ops, (ck_run ops < 256)%N.
Proof. intros ops. apply ck_fold_lt. reflexivity. Qed.

(* removing what was added restores the previous state exactly, and conversely *)
Theorem c17_exact_inverses :
  forall s, (s < 256)%N ->
    (forall b, ck_sub (ck_add s b) b = s) /\
    (forall b, ck_add (ck_sub s b) b = s) /\
    (forall l, ck_delete (ck_append s l) l = s) /\
    (forall l, ck_append (ck_delete s l) l = s).
Proof.
  intros s H. repeat split; intros.
  - now apply ck_sub_add. - now apply ck_add_sub. - now apply ck_delete_append. - now apply ck_append_delete.
Qed.

(* the reported checksum makes raw + checksum = 0 mod 256 *)
Theorem c17_value_cancels :
  forall s, (s < 256)%N -> ((ck_raw s + ck_value s) mod 256 = 0)%N /\ (ck_value s < 256)%N.
Proof. exact ck_value_spec. Qed.

(* non-vacuity: a concrete mixed history *)
Example c17_example :
  (ck_run [CkAdd 200; CkAppend [100; 7]; CkSub 9; CkDword 0x01020304; CkDelete [7]] = 301 mod 256)%N.
Proof. vm_compute. reflexivity. Qed.

Print Assumptions c17_raw_is_net_sum.
Print Assumptions c17_state_is_byte.
Print Assumptions c17_exact_inverses.
Print Assumptions c17_value_cancels.
