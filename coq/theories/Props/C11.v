(* C11 -- option builders set exactly their own specification bit, independently. Statements only.
   Generic laws over the field-list representation every option-bearing packed structure is modelled with; the
   per-structure instances (which builder ORs which bit into which field) are in the Impl files and are compared with the
   crate and with the reference layouts by the correspondence run. *)
From Coq Require Import NArith List.
From ACPI Require Import Lib.Bytes Lib.Sx Lib.Machine Impl.Fields Impl.Fadt Spec.Layout Spec.FadtS Proofs.FlagsP Proofs.FixedP Proofs.RefFixedCommonP Proofs.FadtRefP.
From ACPI Require Import Impl.Table Impl.Cedt Spec.CedtS Proofs.CedtRefP.
From ACPI Require Import Impl.Madt Impl.Srat Impl.Pptt Impl.Tpm2 Impl.Hmat Impl.Hest Impl.Rimt Spec.OptionsS Proofs.FadtP Proofs.FixedP
  Proofs.C11CommonP Proofs.C11MadtP Proofs.C11SratP Proofs.C11PpttP Proofs.C11Tpm2P Proofs.C11HmatP Proofs.C11HestP Proofs.C11RimtP.
Import ListNotations.
Open Scope N_scope.

(* OR-ing any sequence of option bits into a flag field: the field becomes the union of the bits, every other field of the
   structure keeps its value (frame) *)
Theorem c11_union_and_frame :
  forall f i bits, (i < length f)%nat ->
    fget (fold_left (fun g b => f_or g i b) bits f) i = N.lor (fget f i) (big_or bits) /\
    forall j, j <> i -> fget (fold_left (fun g b => f_or g i b) bits f) j = fget f j.
Proof. exact fold_f_or. Qed.

(* the union depends only on WHICH options were invoked: any order, any number of repetitions *)
Theorem c11_order_and_repetition_irrelevant :
  forall l1 l2, (forall x, In x l1 <-> In x l2) -> big_or l1 = big_or l2.
Proof. exact big_or_same_set. Qed.

(* a bit is set iff an invoked option carries it (options with distinct bits remain distinguishable in the output) *)
Theorem c11_bit_set_iff_invoked :
  forall l k, N.testbit (big_or l) k = true <-> exists x, In x l /\ N.testbit x k = true.
Proof. exact big_or_bit. Qed.

(* a value setter changes its own field only *)
Theorem c11_setter_frame :
  forall f i j v, i <> j -> fget (fset f i v) j = fget f j.
Proof. exact fget_fset_other. Qed.

(* the emitted bytes are a function of the field values alone *)
Theorem c11_image_from_fields :
  forall f g, map fst f = map fst g -> (forall j, fget f j = fget g j) -> ser_flds f = ser_flds g.
Proof. exact ser_flds_ext. Qed.

(* Instance, FADT: for every constructor argument and every sequence of builder calls and direct assignments of the public
   fields inside the reference's domain (any order, any repetition, interleaved freely), in both build profiles, the Flags dword
   at offset 112 of the emitted table is exactly: the value of the LAST direct assignment `b.flags = v` of the history (op
   (10 35 v) of Spec/FadtS.v; 0 when the history contains none) united with the specification bits (flag_ref, Spec/FadtS.v) of
   the flags requested by the flag() calls made AFTER that assignment.  (base, post) = flags_cut ops (Proofs/FadtP.v): base =
   Some v for the last assignment, post = the operations after it (all of them when there is none).  That nothing else of the
   image moves is c04_fixed_structures_refine (the image equals the reference image). *)
Theorem c11_fadt_flags :
  forall md ctor ops r,
    ts_image fadt_spec ctor ops = Some r -> fadt_ctor_bytes ctor ->
    exists f0 f, fadt_new ctor = Some f0 /\ run_steps (fadt_step md) f0 ops = Some f /\
                 field_at (fadt_image f) 112 4 =
                 fold_left N.lor (concat (map spec_flag_call (snd (flags_cut ops))))
                           (match fst (flags_cut ops) with Some v => v | None => 0 end) mod 2 ^ 32.
Proof. exact fadt_refines_flags. Qed.

(* the two readings of (base, post): a history without direct assignment of `flags`: the union of the bits of all the flags
   requested; a history whose last direct assignment is `flags = v`, followed by [post]: v united with the bits requested in post *)
Theorem c11_fadt_flags_no_assign :
  forall md ctor ops r,
    ts_image fadt_spec ctor ops = Some r -> fadt_ctor_bytes ctor -> no_flags_assignment ops ->
    exists f0 f, fadt_new ctor = Some f0 /\ run_steps (fadt_step md) f0 ops = Some f /\
                 field_at (fadt_image f) 112 4 = fold_left N.lor (concat (map spec_flag_call ops)) 0 mod 2 ^ 32.
Proof. exact fadt_refines_flags_no_assign. Qed.

Theorem c11_fadt_flags_after_assign :
  forall md ctor pre v post r,
    ts_image fadt_spec ctor (pre ++ SL [SA 10; SA 35; SA v] :: post) = Some r -> fadt_ctor_bytes ctor ->
    no_flags_assignment post ->
    exists f0 f, fadt_new ctor = Some f0 /\ run_steps (fadt_step md) f0 (pre ++ SL [SA 10; SA 35; SA v] :: post) = Some f /\
                 field_at (fadt_image f) 112 4 = fold_left N.lor (concat (map spec_flag_call post)) v mod 2 ^ 32.
Proof. exact fadt_refines_flags_after_assign. Qed.

(* Instance, CEDT fixed memory window: whenever the reference accepts the structure, the model emits it byte for byte, and its
   window-restrictions word (offset 32) is the sum of the distinct bits 1 2 4 8 16 of exactly the restriction options invoked
   (cedt_invoked k: option k occurs in the builder list), whatever their order and repetition *)
Theorem c11_cedt_window_restrictions :
  forall s base size arith gran ways qtg builders targets r,
    let o := SL [SA 2; SA base; SA size; SA arith; SA gran; SA ways; SA qtg; SL builders; SL targets] in
    cedt_entry_ref o = Some r ->
    exists e, cedt_addition s o = Some e /\ a_bytes e = r /\ field_at (a_bytes e) 32 2 = cedt_restrictions builders.
Proof. exact cfmws_refined_restrictions. Qed.


(* ====================================================================================================================
   Explicit per-structure instances (Proofs/C11<Struct>P.v).  Each is about the BYTES the Impl model emits (`a_bytes` of the
   addition / the table image), read with `field_at` at the SPECIFICATION offset and width (Spec/OptionsS.v, transcribed
   from SPEC_NOTES.md), for EVERY sequence of builder calls the model accepts: any order, any repetition, interleaved with
   the value setters.  `big_or (map bit calls)` is the union of the specification bits of the calls made; by
   c11_calls_order_irrelevant it depends only on WHICH calls were made.  `in_ranges k rs`: byte position k lies in one of the
   byte ranges rs.  Each instance is followed by a non-vacuity Example (a concrete accepted call sequence, evaluated). *)

Theorem c11_calls_order_irrelevant :
  forall (bit : sx -> N) l1 l2, (forall x, In x l1 <-> In x l2) -> big_or (map bit l1) = big_or (map bit l2).
Proof. exact (@big_or_map_same_set sx). Qed.

(* the generic law behind the field-list instances, on bytes *)
Theorem c11_flag_bytes :
  forall (st : flds -> sx -> option flds) (WS : list nat) (i : nat) (Inv : flds -> Prop) (bit : sx -> N) (ranges : sx -> list (nat * nat)),
    (i < length WS)%nat -> (forall o, bit o < 2 ^ (8 * N.of_nat (fwid WS i))) ->
    (forall f o f', widths f = WS -> Inv f -> st f o = Some f' ->
        widths f' = WS /\ Inv f' /\ fget f' i = N.lor (fget f i) (bit o) /\
        forall j, j <> i -> ~ In (fld_range WS j) (ranges o) -> fget f' j = fget f j) ->
    forall ops f f', widths f = WS -> Inv f -> fget f i < 2 ^ (8 * N.of_nat (fwid WS i)) -> fold_opt st f ops = Some f' ->
      length (ser_flds f') = wsum WS /\
      field_at (ser_flds f') (foff WS i) (fwid WS i) = N.lor (fget f i) (big_or (map bit ops)) /\
      forall k, ~ in_ranges k (fld_range WS i :: concat (map ranges ops)) -> nth k (ser_flds f') 0 = nth k (ser_flds f) 0.
Proof. exact flag_bytes. Qed.

Definition c11_hdr : hdr := {| h_sig := [65; 80; 73; 67]; h_rev := 1; h_oem := repeatN 0 6; h_tbl := repeatN 0 8; h_orev := 0 |}.
Definition c11_tbl (k : tkind) : tbl := tbl_new k c11_hdr [].
Definition c11_show (a : option addition) (off w : nat) : option (N * nat) :=
  option_map (fun e => (field_at (a_bytes e) off w, length (a_bytes e))) a.

(* ---- MADT GICC: Flags dword (offset 12) = status bits | edge-trigger options invoked; frame against Gicc::new(Disabled) ---- *)
Theorem c11_madt_gicc :
  forall s status st e, madt_addition s (SL [SA 3; SA status; SL st]) = Some e ->
    length (a_bytes e) = 82%nat /\
    field_at (a_bytes e) 12 4 = N.lor (gicc_status_bits status) (big_or (map gicc_call_bit st)) /\
    forall k, ~ in_ranges k (gicc_flags_at :: concat (map gicc_call_ranges st)) -> nth k (a_bytes e) 0 = nth k GICC_BLANK 0.
Proof. exact madt_gicc_options. Qed.
Example c11_madt_gicc_nonvacuous :
  c11_show (madt_addition (c11_tbl KMadt)
      (SL [SA 3; SA 2; SL [SL [SA 13; SA 7; SA 1]; SL [SA 2; SA 9]; SL [SA 14; SA 5; SA 1]; SL [SA 13; SA 8; SA 0]; SL [SA 14; SA 6; SA 1]]])) 12 4
  = Some (14, 82%nat) /\ distinct_single_bits gicc_option_table = true.
Proof. split; vm_compute; reflexivity. Qed.

(* ---- MADT GIC MSI frame: Flags dword (offset 16) = 1 iff spi_count_and_base was called ---- *)
Theorem c11_madt_gicmsi :
  forall s st e, madt_addition s (SL [SA 5; SL st]) = Some e ->
    length (a_bytes e) = 24%nat /\
    field_at (a_bytes e) 16 4 = big_or (map gicmsi_call_bit st) /\
    field_at (a_bytes e) 16 4 = (if existsb gicmsi_supplies_spi st then 1 else 0) /\
    forall k, ~ in_ranges k (gicmsi_flags_at :: concat (map gicmsi_call_ranges st)) -> nth k (a_bytes e) 0 = nth k GICMSI_BLANK 0.
Proof. exact madt_gicmsi_options. Qed.
Example c11_madt_gicmsi_nonvacuous :
  c11_show (madt_addition (c11_tbl KMadt) (SL [SA 5; SL [SL [SA 1; SA 3]; SL [SA 3; SA 32; SA 64]; SL [SA 2; SA 4096]; SL [SA 3; SA 8; SA 96]]])) 16 4 = Some (1, 24%nat) /\
  c11_show (madt_addition (c11_tbl KMadt) (SL [SA 5; SL [SL [SA 1; SA 3]; SL [SA 2; SA 4096]]])) 16 4 = Some (0, 24%nat).
Proof. split; vm_compute; reflexivity. Qed.

(* ---- MADT local APIC / RINTC: the enable state (constructor argument) is the Flags dword (offset 4) and nothing else ---- *)
Theorem c11_madt_lapic_enable :
  forall s uid id en e, madt_addition s (SL [SA 1; SA uid; SA id; SA en]) = Some e ->
    length (a_bytes e) = 8%nat /\ field_at (a_bytes e) 4 4 = en mod 2 ^ 32 /\
    (en < 3 -> field_at (a_bytes e) 4 4 = enable_state_bits en) /\
    forall k, ~ in_range k lapic_flags_at -> nth k (a_bytes e) 0 = nth k (ser_flds (local_apic uid id 0)) 0.
Proof. exact madt_lapic_enable. Qed.
Theorem c11_madt_rintc_enable :
  forall s st hart uid ext ib isz e, madt_addition s (SL [SA 8; SA st; SA hart; SA uid; SA ext; SA ib; SA isz]) = Some e ->
    length (a_bytes e) = 36%nat /\ field_at (a_bytes e) 4 4 = st mod 2 ^ 32 /\
    (st < 3 -> field_at (a_bytes e) 4 4 = enable_state_bits st) /\
    forall k, ~ in_range k rintc_flags_at -> nth k (a_bytes e) 0 = nth k (ser_flds (rintc 0 hart uid ext ib isz)) 0.
Proof. exact madt_rintc_enable. Qed.
Example c11_madt_enable_nonvacuous :
  c11_show (madt_addition (c11_tbl KMadt) (SL [SA 1; SA 3; SA 4; SA 2])) 4 4 = Some (2, 8%nat) /\
  c11_show (madt_addition (c11_tbl KMadt) (SL [SA 8; SA 1; SA 5; SA 6; SA 7; SA 8; SA 9])) 4 4 = Some (1, 36%nat).
Proof. split; vm_compute; reflexivity. Qed.

(* ---- SRAT memory affinity / generic initiator / RINTC affinity ---- *)
Theorem c11_srat_memaff :
  forall s pd base len bs e, srat_addition s (SL [SA 1; SA pd; SA base; SA len; SL bs]) = Some e ->
    length (a_bytes e) = 40%nat /\
    field_at (a_bytes e) 28 4 = big_or (map memaff_call_bit bs) /\
    forall k, ~ in_range k memaff_flags_at -> nth k (a_bytes e) 0 = nth k (memaff_bytes (memaff_new pd base len)) 0.
Proof. exact srat_memaff_options. Qed.
Theorem c11_srat_geninit :
  forall s pd h bs e, srat_addition s (SL [SA 2; SA pd; h; SL bs]) = Some e ->
    exists hd, sx_handle h = Some hd /\ length (a_bytes e) = 32%nat /\
      field_at (a_bytes e) 24 4 = big_or (map geninit_call_bit bs) /\
      forall k, ~ in_range k geninit_flags_at ->
        nth k (a_bytes e) 0 = nth k (geninit_bytes {| gi_pd := pd; gi_handle := hd; gi_flags := 0 |}) 0.
Proof. exact srat_geninit_options. Qed.
Theorem c11_srat_rintc_affinity :
  forall s uid clock bs e, srat_addition s (SL [SA 3; uid; SA clock; SL bs]) = Some e ->
    exists u, sx_arr 4 uid = Some u /\ length (a_bytes e) = 20%nat /\
      field_at (a_bytes e) 12 4 = big_or (map rintc_aff_call_bit bs) /\
      field_at (a_bytes e) 12 4 = (if existsb rintc_aff_enables bs then 1 else 0) /\
      forall k, ~ in_ranges k (rintc_aff_flags_at :: concat (map rintc_aff_call_ranges bs)) ->
        nth k (a_bytes e) 0 = nth k (ser_flds (rintc_aff_new u clock)) 0.
Proof. exact srat_rintc_affinity_options. Qed.
Example c11_srat_nonvacuous :
  c11_show (srat_addition (c11_tbl KSrat) (SL [SA 1; SA 1; SA 4096; SA 8192; SL [SL [SA 3]; SL [SA 1]; SL [SA 3]]])) 28 4 = Some (5, 40%nat) /\
  c11_show (srat_addition (c11_tbl KSrat) (SL [SA 2; SA 1; SL [SA 1; SA 0; SA 1; SA 2; SA 3]; SL [SL [SA 2]; SL [SA 2]]])) 24 4 = Some (2, 32%nat) /\
  c11_show (srat_addition (c11_tbl KSrat) (SL [SA 3; SL [SA 1; SA 2; SA 3; SA 4]; SA 9; SL [SL [SA 2; SA 5]; SL [SA 1]; SL [SA 2; SA 6]]])) 12 4 = Some (1, 20%nat) /\
  distinct_single_bits memaff_option_table && distinct_single_bits geninit_option_table = true.
Proof. repeat split; vm_compute; reflexivity. Qed.

(* ---- PPTT processor hierarchy node (5 flag options + add_cache + pub-field assignments) ---- *)
Theorem c11_pptt_pnode :
  forall s parent uid bs e, pptt_addition s (SL [SA 1; parent; SA uid; SL bs]) = Some e ->
    field_at (a_bytes e) 4 4 = fold_left pnode_flags_after bs 0 mod 2 ^ 32 /\
    (forallb (fun o => negb (pnode_assigns_flags o)) bs = true -> field_at (a_bytes e) 4 4 = big_or (map pnode_call_bit bs)) /\
    exists e0, pptt_addition s (SL [SA 1; parent; SA uid; SL (filter pnode_nonoption bs)]) = Some e0 /\
      length (a_bytes e) = length (a_bytes e0) /\
      forall k, ~ in_range k pnode_flags_at -> nth k (a_bytes e) 0 = nth k (a_bytes e0) 0.
Proof. exact pptt_pnode_options. Qed.
(* a direct assignment node.flags = v replaces the word; options invoked afterwards are united with v *)
Theorem c11_pptt_pnode_after_assignment :
  forall pre v post a, forallb (fun o => negb (pnode_assigns_flags o)) post = true ->
    fold_left pnode_flags_after (pre ++ SL [SA 7; SA v] :: post) a = N.lor v (big_or (map pnode_call_bit post)).
Proof. exact pnode_flags_after_assign. Qed.
Example c11_pptt_pnode_nonvacuous :
  c11_show (pptt_addition (c11_tbl KPptt) (SL [SA 1; SL []; SA 7; SL [SL [SA 4]; SL [SA 6; SA 36]; SL [SA 2]; SL [SA 9; SA 3]; SL [SA 4]; SL [SA 5]]])) 4 4
    = Some (26, 24%nat) /\
  c11_show (pptt_addition (c11_tbl KPptt) (SL [SA 1; SL []; SA 7; SL [SL [SA 1]; SL [SA 7; SA 64]; SL [SA 3]]])) 4 4 = Some (68, 20%nat) /\
  distinct_single_bits pnode_option_table = true.
Proof. repeat split; vm_compute; reflexivity. Qed.

(* ---- PPTT cache type structure: 8 valid bits gate the value setters; attribute sub-fields ---- *)
Theorem c11_pptt_cache :
  forall s st e, pptt_addition s (SL [SA 2; SL st]) = Some e ->
    length (a_bytes e) = 28%nat /\
    field_at (a_bytes e) 4 4 = big_or (map cache_valid_bit st) /\
    (forall k, In k [1; 2; 3; 4; 5; 6; 7; 8] -> N.testbit (field_at (a_bytes e) 4 4) (k - 1) = existsb (cache_supplies k) st) /\
    field_at (a_bytes e) 21 1 = big_or (map cache_attr_bits st) /\
    forall k, ~ in_ranges k (cache_flags_at :: concat (map cache_call_ranges st)) -> nth k (a_bytes e) 0 = nth k CACHE_BLANK 0.
Proof. exact pptt_cache_options. Qed.
Example c11_pptt_cache_nonvacuous :
  c11_show (pptt_addition (c11_tbl KPptt)
      (SL [SA 2; SL [SL [SA 7; SA 64]; SL [SA 5; SA 2]; SL [SA 1; SA 32768]; SL [SA 6; SA 1]; SL [SA 9; SA 36]; SL [SA 7; SA 128]; SL [SA 4; SA 1]]])) 4 4
    = Some (1 + 8 + 16 + 32 + 64, 28%nat) /\
  c11_show (pptt_addition (c11_tbl KPptt)
      (SL [SA 2; SL [SL [SA 7; SA 64]; SL [SA 5; SA 2]; SL [SA 1; SA 32768]; SL [SA 6; SA 1]; SL [SA 9; SA 36]; SL [SA 7; SA 128]; SL [SA 4; SA 1]]])) 21 1
    = Some (1 + 8 + 16, 28%nat) /\
  distinct_single_bits cache_valid_table = true.
Proof. repeat split; vm_compute; reflexivity. Qed.

(* ---- TCPA server table: device flags (offset 58) / interrupt flags (offset 59), valid bits gate their value setters ---- *)
Theorem c11_tcpa_server :
  forall md c ops s0 s, tpmserver_new c = Some s0 -> run_steps (tpmserver_step md) s0 ops = Some s ->
    length (tpmserver_bytes s) = 100%nat /\
    field_at (tpmserver_bytes s) 58 1 = big_or (map tcpa_dev_bit ops) /\
    field_at (tpmserver_bytes s) 59 1 = big_or (map tcpa_int_bit ops) /\
    (forall k b, In (k, b) [(7, 0); (6, 1); (9, 2)] -> N.testbit (field_at (tpmserver_bytes s) 58 1) b = existsb (tcpa_calls k) ops) /\
    (forall k b, In (k, b) [(3, 0); (2, 1); (4, 2); (5, 3)] -> N.testbit (field_at (tpmserver_bytes s) 59 1) b = existsb (tcpa_calls k) ops) /\
    forall k, ~ in_ranges k (tcpa_checksum_at :: tcpa_devflags_at :: tcpa_intflags_at :: concat (map tcpa_call_ranges ops)) ->
      nth k (tpmserver_bytes s) 0 = nth k (tpmserver_bytes s0) 0.
Proof. exact tcpa_server_options. Qed.
Example c11_tcpa_server_nonvacuous :
  match tpmserver_new (SL [SL (map SA (repeatN 65 6)); SL (map SA (repeatN 66 8)); SA 1]) with
  | Some s0 => option_map (fun s => (field_at (tpmserver_bytes s) 58 1, field_at (tpmserver_bytes s) 59 1))
                 (run_steps (tpmserver_step Checked) s0
                    [SL [SA 5; SA 33]; SL [SA 6]; SL [SA 3]; SL [SA 9; SA 0; SA 32; SA 0; SA 3; SA 4096]; SL [SA 5; SA 34]; SL [SA 6]])
  | None => None
  end = Some (6, 9).
Proof. vm_compute. reflexivity. Qed.

(* ---- HMAT system locality (Flags byte, offset 8) and memory proximity domain (Flags word, offset 8) ---- *)
Theorem c11_hmat_sysloc :
  forall md s lt dt mts unit ni nt bs e,
    hmat_addition md s (SL [SA 2; SA lt; SA dt; SA mts; SA unit; SA ni; SA nt; SL bs]) = Some e ->
    field_at (a_bytes e) 8 1 = N.lor (lt mod 256) (big_or (map sysloc_call_bit bs)) /\
    (lt < 16 -> field_at (a_bytes e) 8 1 mod 16 = lt /\
                forall k b, In (k, b) [(1, 5); (2, 4)] -> N.testbit (field_at (a_bytes e) 8 1) b = existsb (sysloc_calls k) bs) /\
    exists e0, hmat_addition md s (SL [SA 2; SA lt; SA dt; SA mts; SA unit; SA ni; SA nt; SL (filter sysloc_nonoption bs)]) = Some e0 /\
      length (a_bytes e) = length (a_bytes e0) /\
      forall k, ~ in_range k sysloc_flags_at -> nth k (a_bytes e) 0 = nth k (a_bytes e0) 0.
Proof. exact hmat_sysloc_options. Qed.
Theorem c11_hmat_memprox :
  forall md s ipd mpd e, hmat_addition md s (SL [SA 1; SA ipd; SA mpd]) = Some e ->
    length (a_bytes e) = 40%nat /\ field_at (a_bytes e) 8 2 = 1 /\ field_at (a_bytes e) 12 4 = ipd mod 2 ^ 32.
Proof. exact hmat_memprox_flags. Qed.
Example c11_hmat_nonvacuous :
  c11_show (hmat_addition Checked (c11_tbl KHmat)
     (SL [SA 2; SA 2; SA 1; SA 0; SA 100; SA 2; SA 2; SL [SL [SA 1]; SL [SA 5; SA 1; SA 0; SA 7]; SL [SA 3; SA 0; SA 4]; SL [SA 1]]])) 8 1 = Some (34, 56%nat) /\
  c11_show (hmat_addition Checked (c11_tbl KHmat)
     (SL [SA 2; SA 3; SA 1; SA 0; SA 100; SA 1; SA 1; SL [SL [SA 2]; SL [SA 1]; SL [SA 2]]])) 8 1 = Some (51, 42%nat) /\
  c11_show (hmat_addition Checked (c11_tbl KHmat) (SL [SA 1; SA 3; SA 4])) 8 2 = Some (1, 40%nat).
Proof. repeat split; vm_compute; reflexivity. Qed.

(* ---- HEST PCIe AER sources: Flags byte (offset 6) = the constructor's option, whatever setters follow ---- *)
Theorem c11_hest_aer :
  forall s k c st e, In k [1; 2; 3] -> hest_addition s (SL [SA k; c; SL st]) = Some e ->
    exists f0, aer_new (aer_type k) c = Some f0 /\
      length (a_bytes e) = aer_size (aer_type k) /\
      field_at (a_bytes e) 6 1 = aer_ctor_flags c mod 2 ^ 8 /\
      forall b, ~ in_ranges b (aer_flags_at :: concat (map aer_call_ranges st)) -> nth b (a_bytes e) 0 = nth b (ser_flds f0) 0.
Proof. exact hest_aer_options. Qed.
Theorem c11_hest_aer_ctor_frame :
  forall ty ff bus dev fn f, aer_new ty (SL [SA 1; SA ff; SA bus; SA dev; SA fn]) = Some f ->
    exists f0, aer_new ty (SL [SA 1; SA 0; SA bus; SA dev; SA fn]) = Some f0 /\
      forall b, ~ in_range b aer_flags_at -> nth b (ser_flds f) 0 = nth b (ser_flds f0) 0.
Proof. exact hest_aer_ctor_frame. Qed.
Example c11_hest_aer_nonvacuous :
  c11_show (hest_addition (c11_tbl KHest) (SL [SA 1; SL [SA 0]; SL [SL [SA 1; SA 5]; SL [SA 8; SA 9]]])) 6 1 = Some (2, 48%nat) /\
  c11_show (hest_addition (c11_tbl KHest) (SL [SA 3; SL [SA 1; SA 1; SA 2; SA 3; SA 4]; SL [SL [SA 10; SA 5]; SL [SA 4; SA 9]]])) 6 1 = Some (1, 56%nat) /\
  c11_show (hest_addition (c11_tbl KHest) (SL [SA 2; SL [SA 1; SA 0; SA 2; SA 3; SA 4]; SL []])) 6 1 = Some (0, 44%nat).
Proof. repeat split; vm_compute; reflexivity. Qed.

(* ---- RIMT: the options are constructor arguments ---- *)
Theorem c11_rimt_iommu :
  forall s id base pci prox wires e, rimt_addition s (SL [SA 1; SA id; base; pci; prox; wires]) = Some e ->
    field_at (a_bytes e) 16 4 = iommu_flags_ref pci prox /\
    (N.testbit (field_at (a_bytes e) 16 4) 0 = opt_given pci) /\
    (N.testbit (field_at (a_bytes e) 16 4) 1 = opt_given prox) /\
    (opt_given pci = false -> field_at (a_bytes e) 20 2 = 0 /\ field_at (a_bytes e) 22 2 = 0) /\
    (opt_given prox = false -> field_at (a_bytes e) 24 4 = 0) /\
    exists e0, rimt_addition s (SL [SA 1; SA id; base; SL []; SL []; wires]) = Some e0 /\
      length (a_bytes e) = length (a_bytes e0) /\
      forall k, ~ in_ranges k (iommu_flags_at :: iommu_prox_at :: iommu_pci_at) -> nth k (a_bytes e) 0 = nth k (a_bytes e0) 0.
Proof. exact rimt_iommu_options. Qed.
Theorem c11_rimt_wire :
  forall num lvl pol aplic b, wire_bytes (SL [SA num; SA lvl; SA pol; SA aplic]) = Some b ->
    length b = 8%nat /\ field_at b 4 2 = wire_flags_ref lvl pol /\
    forall k, ~ in_range k wire_flags_at -> nth k b 0 = nth k (d4 num ++ w2 0 ++ w2 aplic) 0.
Proof. exact rimt_wire_flags. Qed.
Theorem c11_rimt_iommu_wire :
  forall s id base pci prox ws e i num lvl pol aplic,
    rimt_addition s (SL [SA 1; SA id; base; pci; prox; SL [SL ws]]) = Some e ->
    nth_error ws i = Some (SL [SA num; SA lvl; SA pol; SA aplic]) ->
    field_at (a_bytes e) (32 + 8 * i + 4) 2 = wire_flags_ref lvl pol.
Proof. exact rimt_iommu_wire_flags. Qed.
Theorem c11_rimt_idmap :
  forall s src dst num href ats pri rciep b,
    idmap_bytes s (SL [SA src; SA dst; SA num; href; SA ats; SA pri; SA rciep]) = Some b ->
    length b = 20%nat /\ field_at b 16 4 = idmap_flags_ref ats pri rciep /\
    exists b0, idmap_bytes s (SL [SA src; SA dst; SA num; href; SA 0; SA 0; SA 0]) = Some b0 /\
      forall k, ~ in_range k idmap_flags_at -> nth k b 0 = nth k b0 0.
Proof. exact rimt_idmap_flags. Qed.
Theorem c11_rimt_pcierc :
  forall s id seg ats pri maps e, rimt_addition s (SL [SA 2; SA id; SA seg; SA ats; SA pri; maps]) = Some e ->
    field_at (a_bytes e) 8 4 = pcierc_flags_ref ats pri /\
    exists e0, rimt_addition s (SL [SA 2; SA id; SA seg; SA 0; SA 0; maps]) = Some e0 /\
      length (a_bytes e) = length (a_bytes e0) /\
      forall k, ~ in_range k pcierc_flags_at -> nth k (a_bytes e) 0 = nth k (a_bytes e0) 0.
Proof. exact rimt_pcierc_options. Qed.
Theorem c11_rimt_pcierc_idmap :
  forall s id seg ats pri ms e i src dst num href a p r,
    rimt_addition s (SL [SA 2; SA id; SA seg; SA ats; SA pri; SL [SL ms]]) = Some e ->
    nth_error ms i = Some (SL [SA src; SA dst; SA num; href; SA a; SA p; SA r]) ->
    field_at (a_bytes e) (16 + 20 * i + 16) 4 = idmap_flags_ref a p r.
Proof. exact rimt_pcierc_idmap_flags. Qed.
Theorem c11_rimt_platform_idmap :
  forall s id name nm ms e i src dst num href a p r,
    rimt_addition s (SL [SA 3; SA id; name; SL [SL ms]]) = Some e -> sx_bytes name = Some nm ->
    nth_error ms i = Some (SL [SA src; SA dst; SA num; href; SA a; SA p; SA r]) ->
    field_at (a_bytes e) (12 + length nm + 1 + 20 * i + 16) 4 = idmap_flags_ref a p r.
Proof. exact rimt_platform_idmap_flags. Qed.
Example c11_rimt_nonvacuous :
  c11_show (rimt_addition (c11_tbl KRimt)
      (SL [SA 1; SA 7; SL [SA 4096]; SL [SL [SA 1; SA 2; SA 3; SA 4]]; SL []; SL [SL [SL [SA 9; SA 1; SA 0; SA 5]; SL [SA 10; SA 0; SA 1; SA 5]]]])) 16 4
    = Some (1, 48%nat) /\
  c11_show (rimt_addition (c11_tbl KRimt)
      (SL [SA 1; SA 7; SL [SA 4096]; SL [SL [SA 1; SA 2; SA 3; SA 4]]; SL []; SL [SL [SL [SA 9; SA 1; SA 0; SA 5]; SL [SA 10; SA 0; SA 1; SA 5]]]])) 44 2
    = Some (2, 48%nat) /\
  c11_show (rimt_addition (c11_tbl KRimt) (SL [SA 1; SA 7; SL []; SL []; SL [SA 3]; SL []])) 16 4 = Some (2, 32%nat) /\
  c11_show (rimt_addition (c11_tbl KRimt) (SL [SA 2; SA 1; SA 0; SA 0; SA 1; SL [SL [SL [SA 0; SA 0; SA 16; SA 48; SA 1; SA 0; SA 1]]]])) 8 4 = Some (2, 36%nat) /\
  c11_show (rimt_addition (c11_tbl KRimt) (SL [SA 2; SA 1; SA 0; SA 0; SA 1; SL [SL [SL [SA 0; SA 0; SA 16; SA 48; SA 1; SA 0; SA 1]]]])) 32 4 = Some (5, 36%nat).
Proof. repeat split; vm_compute; reflexivity. Qed.

(* ---- distinctness: in every option table the options own different single bits of their field (finite check) ---- *)
Theorem c11_option_tables_distinct :
  forallb distinct_single_bits
    ([gicc_option_table; enable_state_table; memaff_option_table; geninit_option_table; pnode_option_table; cache_valid_table;
      tcpa_dev_table; tcpa_int_table; sysloc_option_table; aer_option_table] ++ rimt_option_tables) = true /\
  map cache_alloc_field [0; 1; 2] = [0; 1; 2] /\ map cache_type_field [0; 1; 2] = [0; 4; 8] /\ map cache_policy_field [0; 1] = [0; 16] /\
  map gicc_status_bits [0; 1; 2] = [0; 1; 8] /\ map enable_state_bits [0; 1; 2] = [0; 1; 2].
Proof. repeat split; vm_compute; reflexivity. Qed.

Print Assumptions c11_union_and_frame.
Print Assumptions c11_order_and_repetition_irrelevant.
Print Assumptions c11_bit_set_iff_invoked.
Print Assumptions c11_setter_frame.
Print Assumptions c11_image_from_fields.
Print Assumptions c11_fadt_flags.
Print Assumptions c11_fadt_flags_no_assign.
Print Assumptions c11_fadt_flags_after_assign.
Print Assumptions c11_cedt_window_restrictions.
Print Assumptions c11_calls_order_irrelevant.
Print Assumptions c11_flag_bytes.
Print Assumptions c11_madt_gicc.
Print Assumptions c11_madt_gicmsi.
Print Assumptions c11_madt_lapic_enable.
Print Assumptions c11_madt_rintc_enable.
Print Assumptions c11_srat_memaff.
Print Assumptions c11_srat_geninit.
Print Assumptions c11_srat_rintc_affinity.
Print Assumptions c11_pptt_pnode.
Print Assumptions c11_pptt_pnode_after_assignment.
Print Assumptions c11_pptt_cache.
Print Assumptions c11_tcpa_server.
Print Assumptions c11_hmat_sysloc.
Print Assumptions c11_hmat_memprox.
Print Assumptions c11_hest_aer.
Print Assumptions c11_hest_aer_ctor_frame.
Print Assumptions c11_rimt_iommu.
Print Assumptions c11_rimt_wire.
Print Assumptions c11_rimt_iommu_wire.
Print Assumptions c11_rimt_idmap.
Print Assumptions c11_rimt_pcierc.
Print Assumptions c11_rimt_pcierc_idmap.
Print Assumptions c11_rimt_platform_idmap.
Print Assumptions c11_option_tables_distinct.
