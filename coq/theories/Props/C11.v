(* C11 -- option builders set exactly their own specification bit, independently. Statements only.
   Generic laws over the field-list representation every option-bearing packed structure is modelled with; the
   per-structure instances (which builder ORs which bit into which field) are in the Impl files and are compared with the
   crate and with the reference layouts by the correspondence run. *)
From Coq Require Import NArith List.
From ACPI Require Import Lib.Bytes Lib.Sx Lib.Machine Impl.Fields Impl.Fadt Spec.Layout Spec.FadtS Proofs.FlagsP Proofs.FixedP Proofs.RefFixedCommonP Proofs.FadtRefP.
From ACPI Require Import Impl.Table Impl.Cedt Spec.CedtS Proofs.CedtRefP.
Import ListNotations.
Open Scope N_scope.

(* OR-ing any sequence of option bits into a flag field: the field becomes the union of the bits, every other field of the
   structure keeps its value (frame) *)
Theorem c11_union_and_frame :
  forall f i bits, (i < length f)%nat ->
    fget (fold_left (fun g b => f_or g i b) bits f) i = N.lor (fget f i) (big_or bits) /\
    forall j, j <> i -> fget (fold_left (fun g b => f_or g i b) bits f) j = fget f j.
Proof. exact fold_f_or. Qed.

(* the union depends only on WHICH options were invoked: any order, any number of repetitions *)
Theorem c11_order_and_repetition_irrelevant :
  forall l1 l2, (forall x, In x l1 <-> In x l2) -> big_or l1 = big_or l2.
Proof. exact big_or_same_set. Qed.

(* a bit is set iff an invoked option carries it (options with distinct bits remain distinguishable in the output) *)
Theorem c11_bit_set_iff_invoked :
  forall l k, N.testbit (big_or l) k = true <-> exists x, In x l /\ N.testbit x k = true.
Proof. exact big_or_bit. Qed.

(* a value setter changes its own field only *)
Theorem c11_setter_frame :
  forall f i j v, i <> j -> fget (fset f i v) j = fget f j.
Proof. exact fget_fset_other. Qed.

(* the emitted bytes are a function of the field values alone *)
Theorem c11_image_from_fields :
  forall f g, map fst f = map fst g -> (forall j, fget f j = fget g j) -> ser_flds f = ser_flds g.
Proof. exact ser_flds_ext. Qed.

(* Instance, FADT: for every constructor argument and every sequence of builder calls inside the reference's domain (any order,
   any repetition, interleaved with the other builders and the profile selectors), in both build profiles, the Flags dword at
   offset 112 of the emitted table is exactly the union of the specification bits (flag_ref, Spec/FadtS.v) of the flags
   requested; that nothing else of the image moves is c04_fixed_structures_refine (the image equals the reference image). *)
Theorem c11_fadt_flags :
  forall md ctor ops r,
    ts_image fadt_spec ctor ops = Some r -> fadt_ctor_bytes ctor ->
    exists f0 f, fadt_new ctor = Some f0 /\ run_steps (fadt_step md) f0 ops = Some f /\
                 field_at (fadt_image f) 112 4 = fold_left N.lor (concat (map spec_flag_call ops)) 0 mod 2 ^ 32.
Proof. exact fadt_refines_flags. Qed.

(* Instance, CEDT fixed memory window: whenever the reference accepts the structure, the model emits it byte for byte, and its
   window-restrictions word (offset 32) is the sum of the distinct bits 1 2 4 8 16 of exactly the restriction options invoked
   (cedt_invoked k: option k occurs in the builder list), whatever their order and repetition *)
Theorem c11_cedt_window_restrictions :
  forall s base size arith gran ways qtg builders targets r,
    let o := SL [SA 2; SA base; SA size; SA arith; SA gran; SA ways; SA qtg; SL builders; SL targets] in
    cedt_entry_ref o = Some r ->
    exists e, cedt_addition s o = Some e /\ a_bytes e = r /\ field_at (a_bytes e) 32 2 = cedt_restrictions builders.
Proof. exact cfmws_refined_restrictions. Qed.

Print Assumptions c11_union_and_frame.
Print Assumptions c11_order_and_repetition_irrelevant.
Print Assumptions c11_bit_set_iff_invoked.
Print Assumptions c11_setter_frame.
Print Assumptions c11_image_from_fields.
Print Assumptions c11_fadt_flags.
Print Assumptions c11_cedt_window_restrictions.
