(* C11 -- option builders set exactly their own specification bit, independently. Statements only.
   Generic laws over the field-list representation every option-bearing packed structure is modelled with; the
   per-structure instances (which builder ORs which bit into which field) are in the Impl files and are compared with the
   crate and with the reference layouts by the correspondence run. *)
From Coq Require Import NArith List.
From ACPI Require Import Lib.Bytes Lib.Sx Impl.Fields Proofs.FlagsP.
Import ListNotations.
Open Scope N_scope.

(* OR-ing any sequence of option bits into a flag field: the field becomes the union of the bits, every other field of the
   structure keeps its value (frame) *)
Theorem c11_union_and_frame :
  forall f i bits, (i < length f)%nat ->
    fget (fold_left (fun g b => f_or g i b) bits f) i = N.lor (fget f i) (big_or bits) /\
    forall j, j <> i -> fget (fold_left (fun g b => f_or g i b) bits f) j = fget f j.
Proof. exact fold_f_or. Qed.

(* the union depends only on WHICH options were invoked: any order, any number of repetitions *)
Theorem c11_order_and_repetition_irrelevant :
  forall l1 l2, (forall x, In x l1 <-> In x l2) -> big_or l1 = big_or l2.
Proof. exact big_or_same_set. Qed.

(* a bit is set iff an invoked option carries it (options with distinct bits remain distinguishable in the output) *)
Theorem c11_bit_set_iff_invoked :
  forall l k, N.testbit (big_or l) k = true <-> exists x, In x l /\ N.testbit x k = true.
Proof. exact big_or_bit. Qed.

(* a value setter changes its own field only *)
Theorem c11_setter_frame :
  forall f i j v, i <> j -> fget (fset f i v) j = fget f j.
Proof. exact fget_fset_other. Qed.

(* the emitted bytes are a function of the field values alone *)
Theorem c11_image_from_fields :
  forall f g, map fst f = map fst g -> (forall j, fget f j = fget g j) -> ser_flds f = ser_flds g.
Proof. exact ser_flds_ext. Qed.

Print Assumptions c11_union_and_frame.
Print Assumptions c11_order_and_repetition_irrelevant.
Print Assumptions c11_bit_set_iff_invoked.
Print Assumptions c11_setter_frame.
Print Assumptions c11_image_from_fields.
