(* C03 -- table bodies are exactly tiled by self-describing entries; counts agree. Statements only. *)
From Coq Require Import NArith List.
From ACPI Require Import Lib.Bytes Lib.Sx Lib.Machine Impl.Table Spec.Layout Proofs.TableP Proofs.WalkP Proofs.Tables Proofs.Registry.
Import ListNotations.
Open Scope N_scope.

(* The Spec walker on ANY concatenation of entries that describe themselves under a header format: stepping by each
   entry's own length field visits exactly those entries, in order, with their type codes, and lands exactly on the end. *)
Theorem c03_walker_tiles :
  forall h es tys off fuel,
    Forall2 (self_describing h) es tys -> (length es <= fuel)%nat ->
    walk fuel h off (concat es) = Some (walk_result off es tys).
Proof. exact walk_concat. Qed.

(* For every table in the walk registry, after every history: from the specification's first-entry offset the walk over
   the emitted image finds exactly the entries that were added (in insertion order, with their own type codes and lengths),
   the image ends where the last entry ends, and the maintained entry count equals the number of entries. *)
Theorem c03_tables :
  forall W, In W walk_tables ->
  forall md c ops s0 s,
    at_new (wt_table W) c = Some s0 -> run_adds (at_entry (wt_table W)) md s0 ops = Some s ->
    N.of_nat (length (tbl_image s)) < 2 ^ 32 ->
    let first := (36 + length (mid (t_kind s) (t_pre s) 0))%nat in
    exists tys,
      Forall2 (self_describing (wt_ehdr W)) (t_ents s) tys /\
      walk (length (t_ents s)) (wt_ehdr W) first (skipn first (tbl_image s)) = Some (walk_result first (t_ents s) tys) /\
      concat (t_ents s) = skipn first (tbl_image s) /\
      t_cnt s = N.of_nat (length (t_ents s)).
Proof. intros W _. exact (walktable_tiles W). Qed.

Print Assumptions c03_walker_tiles.
Print Assumptions c03_tables.
