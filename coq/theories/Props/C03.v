(* C03 -- table bodies are exactly tiled by self-describing entries; counts agree. Statements only. *)
From Coq Require Import NArith List.
From ACPI Require Import Lib.Bytes Lib.Sx Lib.Machine Impl.Table Spec.Layout Proofs.TableP Proofs.WalkP Proofs.Tables Proofs.Registry.
From ACPI Require Import Impl.Madt Impl.Srat Impl.Mcfg Impl.Xsdt Spec.MadtS Spec.SratS Spec.McfgS Spec.XsdtS
  Proofs.MadtRefP Proofs.SratRefP Proofs.MadtWalkRefP Proofs.SratWalkRefP Proofs.McfgWalkRefP Proofs.XsdtWalkRefP.
From ACPI Require Import Impl.Rhct Impl.Viot Impl.Rimt Impl.Hmat Spec.RhctS Spec.ViotS Spec.RimtS
  Proofs.RhctWalkRefP Proofs.ViotWalkRefP Proofs.RimtWalkRefP Proofs.HmatP Proofs.HmatWalkP.
Import ListNotations.
Open Scope N_scope.

(* The Spec walker on ANY concatenation of entries that describe themselves under a header format: stepping by each
   entry's own length field visits exactly those entries, in order, with their type codes, and lands exactly on the end. *)
Theorem c03_walker_tiles :
  forall h es tys off fuel,
    Forall2 (self_describing h) es tys -> (length es <= fuel)%nat ->
    walk fuel h off (concat es) = Some (walk_result off es tys).
Proof. exact walk_concat. Qed.

(* For every table in the walk registry (Proofs/Registry.v: MADT SRAT XSDT MCFG PPTT RHCT RIMT VIOT CEDT HEST HMAT), after every history
   the model ACCEPTS, in both build profiles: from the specification's first-entry offset the walk over
   the emitted image finds exactly the entries that were added (in insertion order, with their own type codes and lengths),
   the image ends where the last entry ends, and the maintained entry count equals the number of entries. *)
Theorem c03_tables :
  forall W, In W walk_tables ->
  forall md c ops s0 s,
    at_new (wt_table W) c = Some s0 -> run_adds (at_entry (wt_table W)) md s0 ops = Some s ->
    N.of_nat (length (tbl_image s)) < 2 ^ 32 ->
    let first := (36 + length (mid (t_kind s) (t_pre s) 0))%nat in
    exists tys,
      Forall2 (self_describing (wt_ehdr W)) (t_ents s) tys /\
      walk (length (t_ents s)) (wt_ehdr W) first (skipn first (tbl_image s)) = Some (walk_result first (t_ents s) tys) /\
      concat (t_ents s) = skipn first (tbl_image s) /\
      t_cnt s = N.of_nat (length (t_ents s)).
Proof. intros W _. exact (walktable_tiles W). Qed.

(* HMAT spelled out (it is also in the registry): first entry at offset 40 *)
Theorem c03_hmat :
  forall md md' c ops s0 s,
    hmat_new c = Some s0 -> run_adds (hmat_addition md) md' s0 ops = Some s -> N.of_nat (length (tbl_image s)) < 2 ^ 32 ->
    exists tys,
      Forall2 (self_describing H_u16_u16_u32) (t_ents s) tys /\
      walk (length (t_ents s)) H_u16_u16_u32 40 (skipn 40 (tbl_image s)) = Some (walk_result 40 (t_ents s) tys) /\
      concat (t_ents s) = skipn 40 (tbl_image s) /\
      t_cnt s = N.of_nat (length (t_ents s)).
Proof. exact hmat_tiles. Qed.

(* ------------------------------------------------------------------------------------------------
   The run-time judgement itself as a theorem.  [c03_judge ts ctor img ops] is the boolean the check evaluates on the
   IMPLEMENTATION's bytes: the Spec walker started at the table's first-entry offset finds exactly the (type, length) list of
   the entries added by [ops], lands on the end of the image, and the count fields hold.  For every history inside the
   reference's domain it holds of the reference image, and (through the C04 refinement) of the model's image. *)
Theorem c03_reference_images_tile :
  (forall ctor ops r, ts_image madt_spec ctor ops = Some r -> c03_judge madt_spec ctor r ops = true) /\
  (forall ctor ops r, ts_image srat_spec ctor ops = Some r -> c03_judge srat_spec ctor r ops = true) /\
  (forall ctor ops r, ts_image mcfg_spec ctor ops = Some r -> c03_judge mcfg_spec ctor r ops = true) /\
  (forall ctor ops r, ts_image xsdt_spec ctor ops = Some r -> c03_judge xsdt_spec ctor r ops = true) /\
  (forall ctor ops r, ts_image rhct_spec ctor ops = Some r -> c03_judge rhct_spec ctor r ops = true) /\
  (forall ctor ops r, ts_image viot_spec ctor ops = Some r -> c03_judge viot_spec ctor r ops = true) /\
  (forall ctor ops r, ts_image rimt_spec ctor ops = Some r -> N.of_nat (length r) < 2 ^ 32 -> c03_judge rimt_spec ctor r ops = true).
Proof.
  repeat split; [exact madt_reference_tiles | exact srat_reference_tiles | exact mcfg_reference_tiles | exact xsdt_reference_tiles
                | exact rhct_reference_tiles | exact viot_reference_tiles | exact rimt_reference_tiles].
Qed.

Theorem c03_model_images_tile :
  (forall md ctor ops r, ts_image madt_spec ctor ops = Some r -> madt_ops_wf ops -> N.of_nat (length r) < 2 ^ 32 ->
     exists s0 s, madt_new ctor = Some s0 /\ run_adds madt_addition md s0 ops = Some s /\
                  c03_judge madt_spec ctor (tbl_image s) ops = true) /\
  (forall md ctor ops r, ts_image srat_spec ctor ops = Some r -> srat_ops_wf ops -> N.of_nat (length r) < 2 ^ 32 ->
     exists s0 s, srat_new ctor = Some s0 /\ run_adds srat_addition md s0 ops = Some s /\
                  c03_judge srat_spec ctor (tbl_image s) ops = true) /\
  (forall md ctor ops r, ts_image mcfg_spec ctor ops = Some r -> N.of_nat (length r) < 2 ^ 32 ->
     exists s0 s, mcfg_new ctor = Some s0 /\ run_adds mcfg_addition md s0 ops = Some s /\
                  c03_judge mcfg_spec ctor (tbl_image s) ops = true) /\
  (forall md ctor ops r, ts_image xsdt_spec ctor ops = Some r -> N.of_nat (length r) < 2 ^ 32 ->
     exists s0 s, xsdt_new ctor = Some s0 /\ run_adds xsdt_addition md s0 ops = Some s /\
                  c03_judge xsdt_spec ctor (tbl_image s) ops = true) /\
  (forall md ctor ops r, ts_image rhct_spec ctor ops = Some r -> N.of_nat (length r) < 2 ^ 32 ->
     exists s0 s, rhct_new ctor = Some s0 /\ run_adds rhct_addition md s0 ops = Some s /\
                  c03_judge rhct_spec ctor (tbl_image s) ops = true) /\
  (forall md ctor ops r, ts_image viot_spec ctor ops = Some r ->
     exists s0 s, viot_new ctor = Some s0 /\ run_adds viot_addition md s0 ops = Some s /\
                  c03_judge viot_spec ctor (tbl_image s) ops = true) /\
  (forall md ctor ops r, ts_image rimt_spec ctor ops = Some r -> N.of_nat (length r) < 2 ^ 32 ->
     exists s0 s, rimt_new ctor = Some s0 /\ run_adds rimt_addition md s0 ops = Some s /\
                  c03_judge rimt_spec ctor (tbl_image s) ops = true).
Proof.
  repeat split; [exact madt_model_tiles | exact srat_model_tiles | exact mcfg_model_tiles | exact xsdt_model_tiles
                | exact rhct_model_tiles | exact viot_model_tiles | exact rimt_model_tiles].
Qed.

Print Assumptions c03_walker_tiles.
Print Assumptions c03_tables.
Print Assumptions c03_reference_images_tile.
Print Assumptions c03_model_images_tile.
Print Assumptions c03_hmat.
