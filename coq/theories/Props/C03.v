(* C03 -- table bodies are exactly tiled by self-describing entries; counts agree. Statements only. *)
From Coq Require Import NArith List.
From ACPI Require Import Lib.Bytes Lib.Sx Lib.Machine Impl.Table Spec.Layout Proofs.TableP Proofs.WalkP Proofs.Tables Proofs.Registry.
From ACPI Require Import Impl.Madt Impl.Srat Impl.Mcfg Impl.Xsdt Spec.MadtS Spec.SratS Spec.McfgS Spec.XsdtS
  Proofs.MadtRefP Proofs.SratRefP Proofs.MadtWalkRefP Proofs.SratWalkRefP Proofs.McfgWalkRefP Proofs.XsdtWalkRefP.
From ACPI Require Import Impl.Rhct Impl.Viot Impl.Rimt Impl.Hmat Spec.RhctS Spec.ViotS Spec.RimtS
  Proofs.RhctWalkRefP Proofs.ViotWalkRefP Proofs.RimtWalkRefP Proofs.HmatP Proofs.HmatWalkP.
From ACPI Require Import Judge Spec.SelfCheck Spec.CedtS Spec.PpttS Spec.HmatS Spec.HestS Spec.RqscS Impl.Cedt Impl.Pptt
  Proofs.MadtSelfP Proofs.SratSelfP Proofs.McfgSelfP Proofs.XsdtSelfP Proofs.RhctSelfP Proofs.ViotSelfP Proofs.RimtSelfP
  Proofs.CedtSelfP Proofs.PpttSelfP Proofs.HmatSelfP Proofs.HestSelfP Proofs.RqscSelfP Proofs.SelfModelP.
Import ListNotations.
Open Scope N_scope.

(* The Spec walker on ANY concatenation of entries that describe themselves under a header format: stepping by each
   entry's own length field visits exactly those entries, in order, with their type codes, and lands exactly on the end. *)
Theorem c03_walker_tiles :
  forall h es tys off fuel,
    Forall2 (self_describing h) es tys -> (length es <= fuel)%nat ->
    walk fuel h off (concat es) = Some (walk_result off es tys).
Proof. exact walk_concat. Qed.

(* For every table in the walk registry (Proofs/Registry.v: MADT SRAT XSDT MCFG PPTT RHCT RIMT VIOT CEDT HEST HMAT), after every history
   the model ACCEPTS, in both build profiles: from the specification's first-entry offset the walk over
   the emitted image finds exactly the entries that were added (in insertion order, with their own type codes and lengths),
   the image ends where the last entry ends, and the maintained entry count equals the number of entries. *)
Theorem c03_tables :
  forall W, In W walk_tables ->
  forall md c ops s0 s,
    at_new (wt_table W) c = Some s0 -> run_adds (at_entry (wt_table W)) md s0 ops = Some s ->
    N.of_nat (length (tbl_image s)) < 2 ^ 32 ->
    let first := (36 + length (mid (t_kind s) (t_pre s) 0))%nat in
    exists tys,
      Forall2 (self_describing (wt_ehdr W)) (t_ents s) tys /\
      walk (length (t_ents s)) (wt_ehdr W) first (skipn first (tbl_image s)) = Some (walk_result first (t_ents s) tys) /\
      concat (t_ents s) = skipn first (tbl_image s) /\
      t_cnt s = N.of_nat (length (t_ents s)).
Proof. intros W _. exact (walktable_tiles W). Qed.

(* HMAT spelled out (it is also in the registry): first entry at offset 40 *)
Theorem c03_hmat :
  forall md md' c ops s0 s,
    hmat_new c = Some s0 -> run_adds (hmat_addition md) md' s0 ops = Some s -> N.of_nat (length (tbl_image s)) < 2 ^ 32 ->
    exists tys,
      Forall2 (self_describing H_u16_u16_u32) (t_ents s) tys /\
      walk (length (t_ents s)) H_u16_u16_u32 40 (skipn 40 (tbl_image s)) = Some (walk_result 40 (t_ents s) tys) /\
      concat (t_ents s) = skipn 40 (tbl_image s) /\
      t_cnt s = N.of_nat (length (t_ents s)).
Proof. exact hmat_tiles. Qed.

(* ------------------------------------------------------------------------------------------------
   The run-time judgement itself as a theorem.  [c03_judge ts ctor img ops] is the boolean the check evaluates on the
   IMPLEMENTATION's bytes: the Spec walker started at the table's first-entry offset finds exactly the (type, length) list of
   the entries added by [ops], lands on the end of the image, and the count fields hold.  For every history inside the
   reference's domain it holds of the reference image, and (through the C04 refinement) of the model's image. *)
Theorem c03_reference_images_tile :
  (forall ctor ops r, ts_image madt_spec ctor ops = Some r -> c03_judge madt_spec ctor r ops = true) /\
  (forall ctor ops r, ts_image srat_spec ctor ops = Some r -> c03_judge srat_spec ctor r ops = true) /\
  (forall ctor ops r, ts_image mcfg_spec ctor ops = Some r -> c03_judge mcfg_spec ctor r ops = true) /\
  (forall ctor ops r, ts_image xsdt_spec ctor ops = Some r -> c03_judge xsdt_spec ctor r ops = true) /\
  (forall ctor ops r, ts_image rhct_spec ctor ops = Some r -> c03_judge rhct_spec ctor r ops = true) /\
  (forall ctor ops r, ts_image viot_spec ctor ops = Some r -> c03_judge viot_spec ctor r ops = true) /\
  (forall ctor ops r, ts_image rimt_spec ctor ops = Some r -> N.of_nat (length r) < 2 ^ 32 -> c03_judge rimt_spec ctor r ops = true).
Proof.
  repeat split; [exact madt_reference_tiles | exact srat_reference_tiles | exact mcfg_reference_tiles | exact xsdt_reference_tiles
                | exact rhct_reference_tiles | exact viot_reference_tiles | exact rimt_reference_tiles].
Qed.

Theorem c03_model_images_tile :
  (forall md ctor ops r, ts_image madt_spec ctor ops = Some r -> madt_ops_wf ops -> N.of_nat (length r) < 2 ^ 32 ->
     exists s0 s, madt_new ctor = Some s0 /\ run_adds madt_addition md s0 ops = Some s /\
                  c03_judge madt_spec ctor (tbl_image s) ops = true) /\
  (forall md ctor ops r, ts_image srat_spec ctor ops = Some r -> srat_ops_wf ops -> N.of_nat (length r) < 2 ^ 32 ->
     exists s0 s, srat_new ctor = Some s0 /\ run_adds srat_addition md s0 ops = Some s /\
                  c03_judge srat_spec ctor (tbl_image s) ops = true) /\
  (forall md ctor ops r, ts_image mcfg_spec ctor ops = Some r -> N.of_nat (length r) < 2 ^ 32 ->
     exists s0 s, mcfg_new ctor = Some s0 /\ run_adds mcfg_addition md s0 ops = Some s /\
                  c03_judge mcfg_spec ctor (tbl_image s) ops = true) /\
  (forall md ctor ops r, ts_image xsdt_spec ctor ops = Some r -> N.of_nat (length r) < 2 ^ 32 ->
     exists s0 s, xsdt_new ctor = Some s0 /\ run_adds xsdt_addition md s0 ops = Some s /\
                  c03_judge xsdt_spec ctor (tbl_image s) ops = true) /\
  (forall md ctor ops r, ts_image rhct_spec ctor ops = Some r -> N.of_nat (length r) < 2 ^ 32 ->
     exists s0 s, rhct_new ctor = Some s0 /\ run_adds rhct_addition md s0 ops = Some s /\
                  c03_judge rhct_spec ctor (tbl_image s) ops = true) /\
  (forall md ctor ops r, ts_image viot_spec ctor ops = Some r ->
     exists s0 s, viot_new ctor = Some s0 /\ run_adds viot_addition md s0 ops = Some s /\
                  c03_judge viot_spec ctor (tbl_image s) ops = true) /\
  (forall md ctor ops r, ts_image rimt_spec ctor ops = Some r -> N.of_nat (length r) < 2 ^ 32 ->
     exists s0 s, rimt_new ctor = Some s0 /\ run_adds rimt_addition md s0 ops = Some s /\
                  c03_judge rimt_spec ctor (tbl_image s) ops = true).
Proof.
  repeat split; [exact madt_model_tiles | exact srat_model_tiles | exact mcfg_model_tiles | exact xsdt_model_tiles
                | exact rhct_model_tiles | exact viot_model_tiles | exact rimt_model_tiles].
Qed.

(* ------------------------------------------------------------------------------------------------
   The two variable-body tables outside the walk registry. *)
From ACPI Require Import Impl.Rqsc Impl.Slit Spec.RqscWalkS Proofs.FixedP Proofs.RqscP Proofs.RqscRefP Proofs.RqscWalkP
  Proofs.SlitP Proofs.SlitShapeP.

(* RQSC (nested: controllers, and resources inside each controller).  For every constructor argument and every history of
   add_controller calls the model ACCEPTS, in both build profiles, with no side condition: the two-level walk of the emitted
   image (Spec/RqscWalkS.v: controllers stepped by their own 16-bit Length from offset 40, resources stepped by their own 16-bit
   Length from offset 28 of their controller) succeeds -- every inner walk lands exactly on its controller's end and the outer
   walk exactly on the end of the image --; what it finds is exactly what the caller added (rqsc_expected reads the operations
   alone): the same controllers in insertion order with their type codes and sizes and, inside each, the same resources in
   insertion order with their type codes and sizes; ControllerCount (offset 36) is the number of controllers found and every
   controller's ResourceCount (its offset 26) is the number of resources the inner walk found. *)
Theorem c03_rqsc_nested_walk :
  forall md c ops s0 s,
    rqsc_new c = Some s0 -> rqsc_run md s0 ops = Some s ->
    exists found exp,
      rqsc_walk2 (Rqsc.rqsc_image s) = Some found /\
      rqsc_expected ops = Some exp /\
      rq_shape found = exp /\
      ctrls_tile 40 found (length (Rqsc.rqsc_image s)) /\
      field_at (Rqsc.rqsc_image s) 36 4 = N.of_nat (length found) /\
      Forall (fun rc => rc_count rc = N.of_nat (length (rc_res rc))) found.
Proof. exact rqsc_nested_walk. Qed.

(* non-vacuity: an accepted history of three controllers with 3 + 2 + 0 resources (every resource-id form), what the walk
   returns on its image, and the judgement rejecting a one-byte corruption (ResourceCount 3 -> 4) and a truncation of that image *)
Example c03_rqsc_nested_walk_nonvacuous :
  (* rqsc_walk_demo answers Some only when rqsc_new and rqsc_run accepted: (what the walk found, its shape's expectation, image size, count) *)
  option_map (fun r => (rq_shape (fst (fst (fst r))), snd (fst r), snd r)) (rqsc_walk_demo Checked) =
    Some ([ (0, 97%nat, [(0, 20%nat); (1, 28%nat); (0, 21%nat)]); (1, 68%nat, [(1, 20%nat); (0, 20%nat)]); (0, 28%nat, []) ], 233%nat, 3) /\
  rqsc_walk_demo Wrapping = rqsc_walk_demo Checked /\
  rqsc_nested_judge rqsc_demo_image rqsc_demo_ops = true /\
  rqsc_nested_judge (upd rqsc_demo_image 66 4) rqsc_demo_ops = false /\
  rqsc_nested_judge (firstn 232 rqsc_demo_image) rqsc_demo_ops = false.
Proof. repeat split; vm_compute; reflexivity. Qed.

(* SLIT (no self-describing entries: a count and a square matrix).  For every constructor call the model accepts (n localities)
   and every accepted sequence of set_distance calls, in both build profiles: the image is 36 + 8 + n^2 bytes, the 8-byte
   NumberOfLocalities at offset 36 is n, and the body from offset 44 is exactly n rows of n one-byte cells: every cell (i, j)
   lies inside the image at offset 44 + i*n + j, distinct cells have distinct offsets, and every byte from 44 to the end is a cell. *)
Theorem c03_slit_shape :
  forall md o t r n ops s0 s,
    slit_new (SL [o; t; r; SA n]) = Some s0 -> slit_run md s0 ops = Some s ->
    N.of_nat (length (slit_image s)) = 36 + 8 + n * n /\
    field_at (slit_image s) 36 8 = n /\
    (forall i j, i < n -> j < n -> (44 <= 44 + N.to_nat (i * n + j) < length (slit_image s))%nat) /\
    (forall i j i' j', i < n -> j < n -> i' < n -> j' < n -> i * n + j = i' * n + j' -> i = i' /\ j = j') /\
    (forall k, (44 <= k < length (slit_image s))%nat -> exists i j, i < n /\ j < n /\ k = (44 + N.to_nat (i * n + j))%nat).
Proof. exact slit_shape. Qed.

(* the same on the case vocabulary (observation markers included), as the harness drives it *)
Theorem c03_slit_shape_history :
  forall md o t r n ops s0 s,
    slit_new (SL [o; t; r; SA n]) = Some s0 -> run_steps (slit_step md) s0 ops = Some s ->
    N.of_nat (length (slit_image s)) = 36 + 8 + n * n /\
    field_at (slit_image s) 36 8 = n /\
    (forall i j, i < n -> j < n -> (44 <= 44 + N.to_nat (i * n + j) < length (slit_image s))%nat) /\
    (forall i j i' j', i < n -> j < n -> i' < n -> j' < n -> i * n + j = i' * n + j' -> i = i' /\ j = j') /\
    (forall k, (44 <= k < length (slit_image s))%nat -> exists i j, i < n /\ j < n /\ k = (44 + N.to_nat (i * n + j))%nat).
Proof. exact slit_shape_history. Qed.

(* non-vacuity: 3 localities and three accepted calls give 53 bytes, count 3 and three rows of three cells; 0 localities give the
   44-byte table; an out-of-range call is refused *)
Example c03_slit_shape_nonvacuous :
  slit_shape_demo Checked 3 [(0, 1, 20); (2, 2, 7); (1, 2, 30)] = Some (53%nat, 3, [10; 20; 10;  20; 10; 30;  10; 30; 7]) /\
  slit_shape_demo Wrapping 3 [(0, 1, 20); (2, 2, 7); (1, 2, 30)] = Some (53%nat, 3, [10; 20; 10;  20; 10; 30;  10; 30; 7]) /\
  slit_shape_demo Checked 0 [] = Some (44%nat, 0, []) /\
  slit_shape_demo Checked 3 [(0, 3, 1)] = None.
Proof. repeat split; vm_compute; reflexivity. Qed.

(* ------------------------------------------------------------------------------------------------
   Per-entry self-consistency.  [c03_self comp img] (Judge.v, Spec/SelfCheck.v) is the second boolean the check evaluates on
   EVERY image the implementation emits, with or without a reference image: the walk from the table's first-entry offset
   lands on the end of the image and every entry it finds is consistent with itself -- an entry of a fixed-size type has the
   specification's size; in a variable-size entry every count / array-offset / string-length field agrees with the entry's
   own length.  For every history inside the reference's domain it holds of the reference image. *)
Theorem c03_xsdt_selfcheck : forall ctor ops r, ts_image xsdt_spec ctor ops = Some r -> c03_self 10 r = true.
Proof. exact xsdt_selfcheck. Qed.
Theorem c03_mcfg_selfcheck : forall ctor ops r, ts_image mcfg_spec ctor ops = Some r -> c03_self 11 r = true.
Proof. exact mcfg_selfcheck. Qed.
Theorem c03_madt_selfcheck : forall ctor ops r, ts_image madt_spec ctor ops = Some r -> c03_self 12 r = true.
Proof. exact madt_selfcheck. Qed.
Theorem c03_srat_selfcheck : forall ctor ops r, ts_image srat_spec ctor ops = Some r -> c03_self 13 r = true.
Proof. exact srat_selfcheck. Qed.
Theorem c03_hmat_selfcheck : forall ctor ops r, ts_image hmat_spec ctor ops = Some r -> c03_self 15 r = true.
Proof. exact hmat_selfcheck. Qed.
Theorem c03_pptt_selfcheck : forall ctor ops r, ts_image pptt_spec ctor ops = Some r -> c03_self 16 r = true.
Proof. exact pptt_selfcheck. Qed.
Theorem c03_rhct_selfcheck : forall ctor ops r, ts_image rhct_spec ctor ops = Some r -> c03_self 17 r = true.
Proof. exact rhct_selfcheck. Qed.
Theorem c03_rimt_selfcheck : forall ctor ops r, ts_image rimt_spec ctor ops = Some r -> c03_self 18 r = true.
Proof. exact rimt_selfcheck. Qed.
Theorem c03_viot_selfcheck : forall ctor ops r, ts_image viot_spec ctor ops = Some r -> c03_self 19 r = true.
Proof. exact viot_selfcheck. Qed.
Theorem c03_cedt_selfcheck : forall ctor ops r, ts_image cedt_spec ctor ops = Some r -> c03_self 20 r = true.
Proof. exact cedt_selfcheck. Qed.
(* HEST: the observation that follows a stand-alone error structure (ops 20 / 21) shows that structure, not the table; the
   run-time check exempts exactly those observations ([c03_full_oracle]), and so does the theorem *)
Theorem c03_hest_selfcheck : forall ctor ops r,
  ts_image hest_spec ctor ops = Some r -> shows_alone ops = false -> c03_self 21 r = true.
Proof. exact hest_selfcheck. Qed.
Theorem c03_rqsc_selfcheck : forall ctor ops r, ts_image rqsc_spec ctor ops = Some r -> c03_self 22 r = true.
Proof. exact rqsc_selfcheck. Qed.

(* [c03_judge] on the reference images of the tables not covered by [c03_reference_images_tile] *)
Theorem c03_reference_images_tile_more :
  (forall ctor ops r, ts_image cedt_spec ctor ops = Some r -> c03_judge cedt_spec ctor r ops = true) /\
  (forall ctor ops r, ts_image pptt_spec ctor ops = Some r -> c03_judge pptt_spec ctor r ops = true) /\
  (forall ctor ops r, ts_image hmat_spec ctor ops = Some r -> c03_judge hmat_spec ctor r ops = true) /\
  (forall ctor ops r, ts_image hest_spec ctor ops = Some r -> c03_judge hest_spec ctor r ops = true) /\
  (forall ctor ops r, ts_image rqsc_spec ctor ops = Some r -> c03_judge rqsc_spec ctor r ops = true).
Proof.
  repeat split; [exact cedt_reference_tiles | exact pptt_reference_tiles | exact hmat_reference_tiles
                | exact hest_reference_tiles | exact rqsc_reference_tiles].
Qed.

(* the same self-check on the image the Impl model emits, through the refinement theorems *)
Theorem c03_model_images_selfcheck :
  (forall md ctor ops r, ts_image madt_spec ctor ops = Some r -> madt_ops_wf ops -> N.of_nat (length r) < 2 ^ 32 ->
     exists s0 s, madt_new ctor = Some s0 /\ run_adds madt_addition md s0 ops = Some s /\ c03_self 12 (tbl_image s) = true) /\
  (forall md ctor ops r, ts_image srat_spec ctor ops = Some r -> srat_ops_wf ops -> N.of_nat (length r) < 2 ^ 32 ->
     exists s0 s, srat_new ctor = Some s0 /\ run_adds srat_addition md s0 ops = Some s /\ c03_self 13 (tbl_image s) = true) /\
  (forall md ctor ops r, ts_image mcfg_spec ctor ops = Some r -> N.of_nat (length r) < 2 ^ 32 ->
     exists s0 s, mcfg_new ctor = Some s0 /\ run_adds mcfg_addition md s0 ops = Some s /\ c03_self 11 (tbl_image s) = true) /\
  (forall md ctor ops r, ts_image xsdt_spec ctor ops = Some r -> N.of_nat (length r) < 2 ^ 32 ->
     exists s0 s, xsdt_new ctor = Some s0 /\ run_adds xsdt_addition md s0 ops = Some s /\ c03_self 10 (tbl_image s) = true) /\
  (forall md ctor ops r, ts_image rhct_spec ctor ops = Some r -> N.of_nat (length r) < 2 ^ 32 ->
     exists s0 s, rhct_new ctor = Some s0 /\ run_adds rhct_addition md s0 ops = Some s /\ c03_self 17 (tbl_image s) = true) /\
  (forall md ctor ops r, ts_image viot_spec ctor ops = Some r ->
     exists s0 s, viot_new ctor = Some s0 /\ run_adds viot_addition md s0 ops = Some s /\ c03_self 19 (tbl_image s) = true) /\
  (forall md ctor ops r, ts_image rimt_spec ctor ops = Some r -> N.of_nat (length r) < 2 ^ 32 ->
     exists s0 s, rimt_new ctor = Some s0 /\ run_adds rimt_addition md s0 ops = Some s /\ c03_self 18 (tbl_image s) = true) /\
  (forall md ctor ops r, ts_image cedt_spec ctor ops = Some r -> N.of_nat (length r) < 2 ^ 32 ->
     exists s0 s, cedt_new ctor = Some s0 /\ run_adds cedt_addition md s0 ops = Some s /\ c03_self 20 (tbl_image s) = true) /\
  (forall md ctor ops r, ts_image pptt_spec ctor ops = Some r -> N.of_nat (length r) < 2 ^ 32 ->
     exists s0 s, pptt_new ctor = Some s0 /\ run_adds pptt_addition md s0 ops = Some s /\ c03_self 16 (tbl_image s) = true) /\
  (forall md ctor ops r, ts_image hmat_spec ctor ops = Some r -> N.of_nat (length r) < 2 ^ 32 ->
     exists s0 s, hmat_new ctor = Some s0 /\ run_adds (hmat_addition md) md s0 ops = Some s /\ c03_self 15 (tbl_image s) = true).
Proof.
  repeat split; [exact madt_model_selfcheck | exact srat_model_selfcheck | exact mcfg_model_selfcheck
                | exact xsdt_model_selfcheck | exact rhct_model_selfcheck | exact viot_model_selfcheck
                | exact rimt_model_selfcheck | exact cedt_model_selfcheck | exact pptt_model_selfcheck
                | exact hmat_model_selfcheck].
Qed.

Print Assumptions c03_walker_tiles.
Print Assumptions c03_tables.
Print Assumptions c03_reference_images_tile.
Print Assumptions c03_model_images_tile.
Print Assumptions c03_hmat.
Print Assumptions c03_rqsc_nested_walk.
Print Assumptions c03_slit_shape.
Print Assumptions c03_slit_shape_history.
Print Assumptions c03_xsdt_selfcheck.
Print Assumptions c03_mcfg_selfcheck.
Print Assumptions c03_madt_selfcheck.
Print Assumptions c03_srat_selfcheck.
Print Assumptions c03_hmat_selfcheck.
Print Assumptions c03_pptt_selfcheck.
Print Assumptions c03_rhct_selfcheck.
Print Assumptions c03_rimt_selfcheck.
Print Assumptions c03_viot_selfcheck.
Print Assumptions c03_cedt_selfcheck.
Print Assumptions c03_hest_selfcheck.
Print Assumptions c03_rqsc_selfcheck.
Print Assumptions c03_reference_images_tile_more.
Print Assumptions c03_model_images_selfcheck.
