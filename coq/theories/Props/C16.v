(* C16 -- EISA identifiers and UUIDs are encoded per the ACPI compression rules. Statements only. *)
From Coq Require Import NArith List.
From ACPI Require Import Lib.Bytes Lib.Sx Lib.Machine Impl.AmlCore Spec.AmlCoreS Proofs.IntP Proofs.EisaUuidP.
Import ListNotations.
Open Scope N_scope.

(* every valid 7-character id is emitted as an integer constant whose 32-bit value decompresses to the id *)
Theorem c16_eisa :
  forall s r, valid_eisa s = true ->
    exists v, eisa_enc s = Some (enc_u32 v) /\ v < 2 ^ 32 /\
              int_decode (enc_u32 v ++ r) = Some (v, r) /\ eisa_decompress v = s.
Proof.
  intros s r H. destruct (eisa_roundtrip s H) as (v & E & Hv & D). exists v.
  split; [now apply eisa_emitted|]. split; [exact Hv|]. split; [|exact D].
  rewrite enc_u32_spec by exact Hv. apply int_decode_spec_int.
  eapply N.lt_trans; [exact Hv|]. reflexivity.
Qed.

Theorem c16_eisa_refuses :
  (forall s, length s <> 7%nat -> eisa_enc s = None) /\
  (forall c0 c1 c2 h3 h4 h5 h6,
      hex_digit h3 = None \/ hex_digit h4 = None \/ hex_digit h5 = None \/ hex_digit h6 = None ->
      eisa_enc [c0; c1; c2; h3; h4; h5; h6] = None).
Proof.
  split.
  - intros s H. unfold eisa_enc. now rewrite eisa_refuse_length.
  - intros. unfold eisa_enc. now rewrite eisa_refuse_digit.
Qed.

(* every canonical 36-character UUID (either letter case) is emitted as a Buffer of declared size 16 whose
   16 bytes, read back in the ToUUID mixed-endian order, spell the same UUID in lower case *)
Theorem c16_uuid :
  forall md s r, canonical_uuid s = true ->
    exists b e, uuid_enc md s = Some e /\ buffer_decode (e ++ r) = Some (16, b, r) /\
                length b = 16%nat /\ uuid_to_string b = map to_lower s.
Proof.
  intros md s r H. destruct (uuid_roundtrip s H) as (b & E & L & S).
  destruct (buffer16 md b r L) as [B1 B2].
  exists b, ([0x11; 19; 0x0A; 16] ++ b). split; [|split; [exact B2|split; [exact L|exact S]]].
  unfold uuid_enc. rewrite E. exact B1.
Qed.

Theorem c16_uuid_refuses :
  forall md s,
    (length s <> 36%nat -> uuid_enc md s = None) /\
    (forall i, In i [8; 13; 18; 23]%nat -> nth i s 0 <> 45 -> uuid_enc md s = None) /\
    (forall i j, In (i, j) uuid_order -> hex_digit (nth i s 0) = None \/ hex_digit (nth j s 0) = None ->
                 uuid_enc md s = None).
Proof.
  intros md s. unfold uuid_enc. repeat split; intros.
  - now rewrite uuid_refuse_length.
  - now rewrite (uuid_refuse_dash s i).
  - now rewrite (uuid_refuse_digit s i j).
Qed.

Example c16_examples :
  eisa_enc [80; 78; 80; 48; 53; 48; 49] = Some [0x0C; 0x41; 0xD0; 0x05; 0x01] /\   (* "PNP0501" *)
  valid_eisa [80; 78; 80; 48; 53; 48; 49] = true.
Proof. vm_compute. split; reflexivity. Qed.

Print Assumptions c16_eisa.
Print Assumptions c16_eisa_refuses.
Print Assumptions c16_uuid.
Print Assumptions c16_uuid_refuses.
