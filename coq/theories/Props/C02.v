(* C02 -- declared table length equals the number of bytes emitted. Statements only. *)
From Coq Require Import NArith List.
From ACPI Require Import Lib.Bytes Lib.Sx Lib.Machine Impl.Table Spec.Layout Proofs.TableP Proofs.Tables Proofs.Registry.
Import ListNotations.
Open Scope N_scope.

(* Incrementally maintained tables: after every history the 32-bit little-endian field at offset 4 of the image,
   read by the Spec layer's field decoder, equals the number of bytes of the image. *)
Theorem c02_add_tables :
  forall T, In T add_tables ->
  forall md c ops s0 s,
    at_new T c = Some s0 -> run_adds (at_entry T) md s0 ops = Some s ->
    N.of_nat (length (tbl_image s)) < 2 ^ 32 ->
    field_at (tbl_image s) 4 4 = N.of_nat (length (tbl_image s)).
Proof. intros T _. exact (add_tables_len T). Qed.

(* the fixed structures, incl. RSDP (36 at offset 20) and FACS (64 at offset 4): fixed_len_statement in Proofs/Registry.v *)
Theorem c02_fixed_tables : fixed_len_statement.
Proof. exact fixed_len. Qed.

(* RQSC, FADT, SLIT, HEST histories: special_len_statement in Proofs/Registry.v *)
Theorem c02_special_tables : special_len_statement.
Proof. exact special_len. Qed.

Print Assumptions c02_add_tables.
Print Assumptions c02_fixed_tables.
Print Assumptions c02_special_tables.
