(* C09 -- name paths encode to the specification's NameString form and back. Statements only. *)
From Coq Require Import NArith List.
From ACPI Require Import Lib.Bytes Lib.Sx Lib.Machine Impl.AmlCore Spec.AmlCoreS Proofs.PathP.
Import ListNotations.
Open Scope N_scope.

(* A path of 1..255 well-formed segments is emitted as: root char if rooted; no prefix / DualNamePrefix /
   MultiNamePrefix + count; the segments verbatim.  The specification's NameString decoder returns the
   same rootedness and segments and stops exactly at the end of the name, whatever follows. *)
Theorem c09_encode_decode :
  forall p r, wf_parts (p_parts p) -> (1 <= length (p_parts p) <= 255)%nat ->
    exists e, path_enc p = Some e /\
              name_decode (e ++ r) = Some (p_root p, p_parts p, r) /\
              name_prefix_ok (length (p_parts p)) (skipn (if p_root p then 1 else 0) e) = true /\
              e = (if p_root p then [0x5C] else []) ++
                  (match length (p_parts p) with 1%nat => [] | 2%nat => [0x2E] | k => [0x2F; N.of_nat k] end)
                  ++ concat (p_parts p).
Proof. exact path_enc_decode. Qed.

(* Path::new recovers exactly the root flag and segments of every well-formed path text. *)
Theorem c09_new_parses :
  forall p, wf_parts (p_parts p) -> p_parts p <> [] -> path_new (render p) = Some p.
Proof. exact path_new_render. Qed.

(* Whatever Path::new accepts is the given text itself (never an altered path), all segments 4 bytes. *)
Theorem c09_new_never_alters :
  forall s p, path_new s = Some p -> render p = s /\ Forall (fun part => length part = 4%nat) (p_parts p).
Proof. exact path_new_sound. Qed.

(* A string with a segment that is not exactly four characters is refused. *)
Theorem c09_refuses_bad_segment :
  forall s,
    let body := match s with c :: r => if c =? 0x5C then r else s | [] => s end in
    (exists part, In part (split_dot [] body) /\ length part <> 4%nat) -> path_new s = None.
Proof. exact path_new_refuse. Qed.

(* Empty paths and paths of more than 255 segments are refused at serialisation (shared with C18). *)
Theorem c09_refuses_count :
  forall p, (length (p_parts p) = 0 \/ 255 < length (p_parts p))%nat -> path_enc p = None.
Proof. exact path_enc_refuse. Qed.

Example c09_example :
  (do p <- path_new [0x5C; 95; 83; 66; 95; 46; 80; 67; 73; 48; 46; 95; 72; 73; 68]; path_enc p)
  = Some [0x5C; 0x2F; 3; 95; 83; 66; 95; 80; 67; 73; 48; 95; 72; 73; 68]
  /\ path_new [65; 66; 67; 46; 68; 69; 70; 71] = None.
Proof. vm_compute. split; reflexivity. Qed.

Print Assumptions c09_encode_decode.
Print Assumptions c09_new_parses.
Print Assumptions c09_new_never_alters.
Print Assumptions c09_refuses_bad_segment.
Print Assumptions c09_refuses_count.
