(* C01 -- every emitted static table carries a valid ACPI checksum. Statements only. *)
From Coq Require Import NArith List.
From ACPI Require Import Lib.Bytes Lib.Sx Lib.Machine Impl.Table Proofs.TableP Proofs.Tables Proofs.Registry.
Import ListNotations.
Open Scope N_scope.

(* Incrementally maintained tables: for every table in the registry [add_tables], every constructor argument, every build
   profile and every finite history of additions (observation markers are skipped), the bytes serialised from the reached
   state sum to 0 mod 256.  No bound on the history; the only side condition is the u32 Length. *)
Theorem c01_add_tables :
  forall T, In T add_tables ->
  forall md c ops s0 s,
    at_new T c = Some s0 -> run_adds (at_entry T) md s0 ops = Some s ->
    N.of_nat (length (tbl_image s)) < 2 ^ 32 ->
    sum8 (tbl_image s) = 0.
Proof. intros T _. exact (add_tables_sum T). Qed.

(* BERT, SPCR, TCPA client and server (any builder chain), TPM2 (with or without its log area), RSDP (both checksums);
   the statement is spelled out in Proofs/Registry.v (fixed_sum_statement) *)
Theorem c01_fixed_tables : fixed_sum_statement.
Proof. exact fixed_sum. Qed.

(* RQSC (controllers with nested resources), FADT (any builder calls), SLIT (any accepted cell assignments), HEST histories
   interleaved with stand-alone structures: special_sum_statement in Proofs/Registry.v *)
Theorem c01_special_tables : special_sum_statement.
Proof. exact special_sum. Qed.

Print Assumptions c01_add_tables.
Print Assumptions c01_fixed_tables.
Print Assumptions c01_special_tables.
