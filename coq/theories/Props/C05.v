(* C05 -- handles returned by add operations are true offsets of the node they name. Statements only. *)
From Coq Require Import NArith List.
From ACPI Require Import Lib.Bytes Lib.Sx Lib.Machine Impl.Table Proofs.TableP Proofs.Tables Proofs.Registry.
Import ListNotations.
Open Scope N_scope.

(* For every table built on the shared addition machinery (all four handle-returning tables are), for every reachable
   state s, every addition o and every continuation ops: the number reported for o is the byte length of the image before
   the addition when the API returns a handle (0 otherwise), and at exactly that offset the image after the addition -- and
   every later image -- contains the bytes of the node that o added (followed only by later nodes). *)
Theorem c05_handle_is_offset :
  forall T, In T add_tables ->
  forall md c pre s0 s o s1 evs ops s',
    at_new T c = Some s0 -> run_adds (at_entry T) md s0 pre = Some s ->
    add_step (at_entry T) md s o = Some (s1, evs) -> run_adds (at_entry T) md s1 ops = Some s' ->
    N.of_nat (length (tbl_image s')) < 2 ^ 32 ->
    exists e tail, at_entry T s o = Some e /\
      evs = [EvNum (if a_returns e then N.of_nat (length (tbl_image s)) else 0)] /\
      skipn (length (tbl_image s)) (tbl_image s') = a_bytes e ++ concat tail /\
      skipn (length (tbl_image s)) (tbl_image s1) = a_bytes e.
Proof. intros T _. exact (handle_offset_from_ctor T). Qed.

Print Assumptions c05_handle_is_offset.
