(* C05 -- handles returned by add operations are true offsets of the node they name. Statements only. *)
From Coq Require Import NArith List.
From ACPI Require Import Lib.Bytes Lib.Sx Lib.Machine Impl.Table Proofs.TableP Proofs.Tables Proofs.Registry.
Import ListNotations.
Open Scope N_scope.

(* For every table built on the shared addition machinery (all four handle-returning tables are), for every reachable
   state s, every addition o and every continuation ops: the number reported for o is the byte length of the image before
   the addition when the API returns a handle (0 otherwise), and at exactly that offset the image after the addition -- and
   every later image -- contains the bytes of the node that o added (followed only by later nodes). *)
Theorem c05_handle_is_offset :
  forall T, In T add_tables ->
  forall md c pre s0 s o s1 evs ops s',
    at_new T c = Some s0 -> run_adds (at_entry T) md s0 pre = Some s ->
    add_step (at_entry T) md s o = Some (s1, evs) -> run_adds (at_entry T) md s1 ops = Some s' ->
    N.of_nat (length (tbl_image s')) < 2 ^ 32 ->
    exists e tail, at_entry T s o = Some e /\
      evs = [EvNum (if a_returns e then N.of_nat (length (tbl_image s)) else 0)] /\
      skipn (length (tbl_image s)) (tbl_image s') = a_bytes e ++ concat tail /\
      skipn (length (tbl_image s)) (tbl_image s1) = a_bytes e.
Proof. intros T _. exact (handle_offset_from_ctor T). Qed.

Print Assumptions c05_handle_is_offset.

(* ==========================================================================================================================
   The four handle tables (PPTT RHCT RIMT VIOT): handles and reference fields against the WALK of the emitted image.
   Part A: the Spec REFERENCE image.  Part B: the image of the Impl model (both build modes), through the refinement theorems
   of Props/C04.v.  A history is a list of operations; (104 k) in an operation = "the handle returned by operation k".
   ========================================================================================================================== *)
From Coq Require Import Bool Arith.
From ACPI Require Import Impl.Pptt Impl.Rhct Impl.Rimt Impl.Viot
  Spec.Layout Spec.MadtS Spec.HmatS Spec.PpttS Spec.RhctS Spec.RimtS Spec.ViotS
  Proofs.WalkP Proofs.WalkRefCommon2P Proofs.RefFieldCommonP
  Proofs.PpttWalkRefP Proofs.RhctWalkRefP Proofs.RimtWalkRefP Proofs.ViotWalkRefP Proofs.HandleFieldsP Proofs.HandleModelP.

(* ---------------------------------------------------------------------------------------------------------------------------
   A.1  PPTT, reference image (the other three tables had these in Proofs/<T>WalkRefP.v; all four are pinned here).
   [pptt_placed pre] is the Spec's bookkeeping after the operations [pre] -- (type, start) of every node, most recent first,
   and their number --, i.e. what the NEXT operation's references are resolved in by [resolve p ty (104 k)] (ty 0: processor
   node, ty 1: cache node). *)
Theorem c05_pptt_reference_tiles :
  forall ctor ops r, ts_image pptt_spec ctor ops = Some r -> c03_judge pptt_spec ctor r ops = true.
Proof. exact pptt_reference_tiles. Qed.

Theorem c05_pptt_reference_handles :
  forall ctor pre post r,
    ts_image pptt_spec ctor (pre ++ post) = Some r ->
    exists p found,
      pptt_placed pre = Some p /\ snd p = N.of_nat (length pre) /\
      walk (S (length r)) H_u8_u8 36 (skipn 36 r) = Some found /\
      length found = length (pre ++ post) /\
      (forall k ty off, resolve p ty (SL [SA 104; SA k]) = Some off ->
         exists o len, nth_error found (N.to_nat k) = Some (ty, o, len) /\ N.of_nat o = off) /\
      (forall k, (k < length pre)%nat ->
         exists ty o len, nth_error found k = Some (ty, o, len) /\
                          resolve p ty (SL [SA 104; SA (N.of_nat k)]) = Some (N.of_nat o)).
Proof. exact pptt_reference_handles. Qed.

Theorem c05_pptt_reference_handles_ok :
  forall ctor ops r p pending,
    ts_image pptt_spec ctor ops = Some r -> pptt_placed ops = Some p ->
    (forall hk, In hk pending -> exists ty, resolve p ty (SL [SA 104; SA (N.of_nat (snd hk))]) = Some (fst hk)) ->
    c05_handles_ok pptt_spec r pending = true.
Proof. exact pptt_reference_handles_ok. Qed.

Theorem c05_rhct_reference_handles :
  forall ctor pre post r,
    ts_image rhct_spec ctor (pre ++ post) = Some r ->
    exists p found,
      rhct_placed pre = Some p /\ snd p = N.of_nat (length pre) /\
      walk (S (length r)) H_u16_u16 56 (skipn 56 r) = Some found /\
      length found = length (pre ++ post) /\
      (forall k ty off, resolve p ty (SL [SA 104; SA k]) = Some off ->
         exists o len, nth_error found (N.to_nat k) = Some (ty, o, len) /\ N.of_nat o = off) /\
      (forall k, (k < length pre)%nat ->
         exists ty o len, nth_error found k = Some (ty, o, len) /\
                          resolve p ty (SL [SA 104; SA (N.of_nat k)]) = Some (N.of_nat o)).
Proof. exact rhct_reference_handles. Qed.

Theorem c05_rimt_reference_handles :
  forall ctor pre post r,
    ts_image rimt_spec ctor (pre ++ post) = Some r ->
    exists n rs found,
      sp_final rimt_entry_ref pre 48 0 [] = Some (n, rs) /\ n = length pre /\
      walk (S (length r)) H_u8_x_u16 48 (skipn 48 r) = Some found /\
      length found = length (pre ++ post) /\
      (forall k o ty, sp_lookup n rs (SL [SA 104; SA k]) = Some (o, ty) ->
         exists off len, nth_error found (N.to_nat k) = Some (ty, off, len) /\ N.of_nat off = o) /\
      (forall k, (k < length pre)%nat ->
         exists ty off len, nth_error found k = Some (ty, off, len) /\
                            sp_lookup n rs (SL [SA 104; SA (N.of_nat k)]) = Some (N.of_nat off, ty)).
Proof. exact rimt_reference_handles. Qed.

Theorem c05_viot_reference_handles :
  forall ctor pre post r,
    ts_image viot_spec ctor (pre ++ post) = Some r ->
    exists n rs found,
      sp_final viot_entry_ref pre 48 0 [] = Some (n, rs) /\ n = length pre /\
      walk (S (length r)) H_u8_x_u16 48 (skipn 48 r) = Some found /\
      length found = length (pre ++ post) /\
      (forall k o ty, sp_lookup n rs (SL [SA 104; SA k]) = Some (o, ty) ->
         exists off len, nth_error found (N.to_nat k) = Some (ty, off, len) /\ N.of_nat off = o) /\
      (forall k, (k < length pre)%nat ->
         exists ty off len, nth_error found k = Some (ty, off, len) /\
                            sp_lookup n rs (SL [SA 104; SA (N.of_nat k)]) = Some (N.of_nat off, ty)).
Proof. exact viot_reference_handles. Qed.

(* ---------------------------------------------------------------------------------------------------------------------------
   A.2  Reference fields hold the referenced node's offset, verbatim.
   [c05_names found npre x ty v]: the reference x, written when npre operations had been applied, is (104 k) with k < npre,
   the walk's k-th entry is a node of type ty, and v is the offset of that node.
   [c05_<t>_refs img pre o]: o is the operation applied after [pre]; the walk over img finds o's node as entry number |pre|
   at offset [start], and every reference field of that node, decoded with [field_at img (start + field offset) width],
   names the node it refers to.  The argument selectors (pptt_last_parent: the last assignment of the parent, constructor
   argument then builders (8 x); pptt_resource_args: the add_cache builders (6 h) in order; pptt_last_next: the last
   next_level setter (9 h); rimt_map_args: mapping-array offset inside the device and the ID mappings; rimt_map_href: the
   IOMMU argument of a mapping; viot_out_arg: the output-node argument of an endpoint) are in Proofs/HandleFieldsP.v. *)
Definition c05_names (found : list (N * nat * nat)) (npre : nat) (x : sx) (ty : N) (v : N) : Prop :=
  exists k off klen, x = SL [SA 104; SA k] /\ (N.to_nat k < npre)%nat /\
    nth_error found (N.to_nat k) = Some (ty, off, klen) /\ v = N.of_nat off.

Definition c05_pptt_refs (img : list N) (pre : list sx) (o : sx) : Prop :=
  exists found ty start len,
    walk (S (length img)) H_u8_u8 36 (skipn 36 img) = Some found /\
    nth_error found (length pre) = Some (ty, start, len) /\
    (* Processor Hierarchy Node: +8 Parent (a processor node), +20 + 4 j private resource j (a cache node) *)
    (forall parent uid bs, o = SL [SA 1; parent; SA uid; SL bs] ->
       ty = 0 /\ len = (20 + 4 * length (pptt_resource_args bs))%nat /\
       (forall k, pptt_last_parent bs parent = SL [SA 104; SA k] ->
          c05_names found (length pre) (SL [SA 104; SA k]) 0 (field_at img (start + 8) 4)) /\
       (forall j x, nth_error (pptt_resource_args bs) j = Some x ->
          c05_names found (length pre) x 1 (field_at img (start + 20 + 4 * j) 4))) /\
    (* Cache Type Structure: +8 Next Level of Cache (a cache node) *)
    (forall st, o = SL [SA 2; SL st] ->
       ty = 1 /\ len = 28%nat /\
       (forall x, pptt_last_next st None = Some x ->
          c05_names found (length pre) x 1 (field_at img (start + 8) 4))).

Definition c05_rhct_refs (img : list N) (pre : list sx) (o : sx) : Prop :=
  (* hart info node (type 65535): +12 + 4 j offset j; the first names an ISA string node (0), the others CMO nodes (1) *)
  forall uid isa cmos, o = SL [SA 4; SA uid; isa; SL cmos] ->
  exists found start,
    walk (S (length img)) H_u16_u16 56 (skipn 56 img) = Some found /\
    nth_error found (length pre) = Some (65535, start, (12 + 4 * S (length cmos))%nat) /\
    forall j x, nth_error (isa :: cmos) j = Some x ->
      c05_names found (length pre) x (if Nat.eqb j 0 then 0 else 1) (field_at img (start + 12 + 4 * j) 4).

Definition c05_rimt_refs (img : list N) (pre : list sx) (o : sx) : Prop :=
  (* PCIe root complex / platform device: ID mapping j at +base + 20 j, its Destination IOMMU Offset at +12 (an IOMMU, 0) *)
  forall base ms, rimt_map_args o = Some (base, ms) ->
  exists found ty start,
    walk (S (length img)) H_u8_x_u16 48 (skipn 48 img) = Some found /\
    nth_error found (length pre) = Some (ty, start, (base + 20 * length ms)%nat) /\
    forall j m, nth_error ms j = Some m ->
      exists x, rimt_map_href m = Some x /\
        c05_names found (length pre) x 0 (field_at img (start + base + 20 * j + 12) 4).

Definition c05_viot_refs (img : list N) (pre : list sx) (o : sx) : Prop :=
  (* PCI range (1) / MMIO endpoint (2): +16 Output Node, 16 bits (a translation node: 3 or 4) *)
  forall x, viot_out_arg o = Some x ->
  exists found ty start kty,
    walk (S (length img)) H_u8_x_u16 48 (skipn 48 img) = Some found /\
    nth_error found (length pre) = Some (ty, start, 24%nat) /\ (ty = 1 \/ ty = 2) /\
    (kty = 3 \/ kty = 4) /\
    c05_names found (length pre) x kty (field_at img (start + 16) 2).

Theorem c05_pptt_reference_fields :
  forall ctor pre o post r,
    ts_image pptt_spec ctor (pre ++ o :: post) = Some r -> N.of_nat (length r) < 2 ^ 32 -> c05_pptt_refs r pre o.
Proof. exact pptt_reference_fields. Qed.

Theorem c05_rhct_reference_fields :
  forall ctor pre o post r,
    ts_image rhct_spec ctor (pre ++ o :: post) = Some r -> N.of_nat (length r) < 2 ^ 32 -> c05_rhct_refs r pre o.
Proof. exact rhct_reference_fields. Qed.

Theorem c05_rimt_reference_fields :
  forall ctor pre o post r,
    ts_image rimt_spec ctor (pre ++ o :: post) = Some r -> N.of_nat (length r) < 2 ^ 32 -> c05_rimt_refs r pre o.
Proof. exact rimt_reference_fields. Qed.

(* the VIOT Spec bounds the table by 2^16 (16-bit node offsets): no size hypothesis *)
Theorem c05_viot_reference_fields :
  forall ctor pre o post r,
    ts_image viot_spec ctor (pre ++ o :: post) = Some r -> c05_viot_refs r pre o.
Proof. exact viot_reference_fields. Qed.

(* ---------------------------------------------------------------------------------------------------------------------------
   B.  The Impl model, both build modes, every in-domain history pre ++ o :: post:
   (handles) the model accepts; the one number h it reports for o is, when the API returns a handle for o
   ([ts_returns]: every PPTT add; RHCT add_isa_string / add_cmo; RIMT add_iommu; VIOT the two IOMMU adds), the offset at which
   the walk over the image of the WHOLE history finds the node added by o (entry number |pre|), whatever is added before or
   after; it is 0 when the API returns nothing.
   (fields) in that image the reference fields of o's node hold the offsets of the nodes they refer to. *)
Theorem c05_pptt_model_handles :
  forall md ctor pre o post r,
    ts_image pptt_spec ctor (pre ++ o :: post) = Some r -> N.of_nat (length r) < 2 ^ 32 ->
    exists s0 s s1 s' h found,
      pptt_new ctor = Some s0 /\ run_adds pptt_addition md s0 pre = Some s /\
      add_step pptt_addition md s o = Some (s1, [EvNum h]) /\ run_adds pptt_addition md s1 post = Some s' /\
      tbl_image s' = r /\
      walk (S (length (tbl_image s'))) H_u8_u8 36 (skipn 36 (tbl_image s')) = Some found /\
      length found = length (pre ++ o :: post) /\
      exists ty off len, nth_error found (length pre) = Some (ty, off, len) /\
        h = if ts_returns pptt_spec o then N.of_nat off else 0.
Proof. exact pptt_model_handles. Qed.

Theorem c05_rhct_model_handles :
  forall md ctor pre o post r,
    ts_image rhct_spec ctor (pre ++ o :: post) = Some r -> N.of_nat (length r) < 2 ^ 32 ->
    exists s0 s s1 s' h found,
      rhct_new ctor = Some s0 /\ run_adds rhct_addition md s0 pre = Some s /\
      add_step rhct_addition md s o = Some (s1, [EvNum h]) /\ run_adds rhct_addition md s1 post = Some s' /\
      tbl_image s' = r /\
      walk (S (length (tbl_image s'))) H_u16_u16 56 (skipn 56 (tbl_image s')) = Some found /\
      length found = length (pre ++ o :: post) /\
      exists ty off len, nth_error found (length pre) = Some (ty, off, len) /\
        h = if ts_returns rhct_spec o then N.of_nat off else 0.
Proof. exact rhct_model_handles. Qed.

Theorem c05_rimt_model_handles :
  forall md ctor pre o post r,
    ts_image rimt_spec ctor (pre ++ o :: post) = Some r -> N.of_nat (length r) < 2 ^ 32 ->
    exists s0 s s1 s' h found,
      rimt_new ctor = Some s0 /\ run_adds rimt_addition md s0 pre = Some s /\
      add_step rimt_addition md s o = Some (s1, [EvNum h]) /\ run_adds rimt_addition md s1 post = Some s' /\
      tbl_image s' = r /\
      walk (S (length (tbl_image s'))) H_u8_x_u16 48 (skipn 48 (tbl_image s')) = Some found /\
      length found = length (pre ++ o :: post) /\
      exists ty off len, nth_error found (length pre) = Some (ty, off, len) /\
        h = if ts_returns rimt_spec o then N.of_nat off else 0.
Proof. exact rimt_model_handles. Qed.

Theorem c05_viot_model_handles :
  forall md ctor pre o post r,
    ts_image viot_spec ctor (pre ++ o :: post) = Some r ->
    exists s0 s s1 s' h found,
      viot_new ctor = Some s0 /\ run_adds viot_addition md s0 pre = Some s /\
      add_step viot_addition md s o = Some (s1, [EvNum h]) /\ run_adds viot_addition md s1 post = Some s' /\
      tbl_image s' = r /\
      walk (S (length (tbl_image s'))) H_u8_x_u16 48 (skipn 48 (tbl_image s')) = Some found /\
      length found = length (pre ++ o :: post) /\
      exists ty off len, nth_error found (length pre) = Some (ty, off, len) /\
        h = if ts_returns viot_spec o then N.of_nat off else 0.
Proof. exact viot_model_handles. Qed.

Theorem c05_pptt_model_fields :
  forall md ctor pre o post r,
    ts_image pptt_spec ctor (pre ++ o :: post) = Some r -> N.of_nat (length r) < 2 ^ 32 ->
    exists s0 s', pptt_new ctor = Some s0 /\ run_adds pptt_addition md s0 (pre ++ o :: post) = Some s' /\
                  c05_pptt_refs (tbl_image s') pre o.
Proof. exact pptt_model_fields. Qed.

Theorem c05_rhct_model_fields :
  forall md ctor pre o post r,
    ts_image rhct_spec ctor (pre ++ o :: post) = Some r -> N.of_nat (length r) < 2 ^ 32 ->
    exists s0 s', rhct_new ctor = Some s0 /\ run_adds rhct_addition md s0 (pre ++ o :: post) = Some s' /\
                  c05_rhct_refs (tbl_image s') pre o.
Proof. exact rhct_model_fields. Qed.

Theorem c05_rimt_model_fields :
  forall md ctor pre o post r,
    ts_image rimt_spec ctor (pre ++ o :: post) = Some r -> N.of_nat (length r) < 2 ^ 32 ->
    exists s0 s', rimt_new ctor = Some s0 /\ run_adds rimt_addition md s0 (pre ++ o :: post) = Some s' /\
                  c05_rimt_refs (tbl_image s') pre o.
Proof. exact rimt_model_fields. Qed.

Theorem c05_viot_model_fields :
  forall md ctor pre o post r,
    ts_image viot_spec ctor (pre ++ o :: post) = Some r ->
    exists s0 s', viot_new ctor = Some s0 /\ run_adds viot_addition md s0 (pre ++ o :: post) = Some s' /\
                  c05_viot_refs (tbl_image s') pre o.
Proof. exact viot_model_fields. Qed.

(* ---------------------------------------------------------------------------------------------------------------------------
   Non-vacuity: for each table a concrete history of four operations whose LAST operation refers to earlier nodes (a "late
   reference": nodes are added between the referenced node and the reference).  Each example shows that the history is in
   the domain (so the hypotheses of the theorems above are met), what the walk finds, what the reference fields hold, and
   the numbers the model reports (by vm_compute). *)
Definition c05_ctor3 : sx := SL [SL (map SA [65; 66; 67; 68; 69; 70]); SL (map SA [1; 2; 3; 4; 5; 6; 7; 8]); SA 1].
Definition c05_ctor4 : sx := SL [SL (map SA [65; 66; 67; 68; 69; 70]); SL (map SA [1; 2; 3; 4; 5; 6; 7; 8]); SA 1; SA 10000000].

Definition c05_starts (h : ehdr) (first : nat) (r : list N) : option (list (N * nat)) :=
  option_map (map (fun x : N * nat * nat => match x with (t, o, _) => (t, o) end)) (walk (S (length r)) h first (skipn first r)).

(* PPTT: L2 cache; package; L1 cache whose next level is the L2; core with parent = package and private resources L1, L2 *)
Definition c05_pptt_hist : list sx :=
  [ SL [SA 2; SL [SL [SA 1; SA 4096]]];
    SL [SA 1; SL []; SA 0; SL [SL [SA 1]]];
    SL [SA 2; SL [SL [SA 9; SL [SA 104; SA 0]]]];
    SL [SA 1; SL [SA 104; SA 1]; SA 7; SL [SL [SA 6; SL [SA 104; SA 2]]; SL [SA 6; SL [SA 104; SA 0]]]] ].

Example c05_pptt_nonvacuous :
  exists r, ts_image pptt_spec c05_ctor3 c05_pptt_hist = Some r /\ N.of_nat (length r) < 2 ^ 32 /\
    c05_starts H_u8_u8 36 r = Some [(1, 36%nat); (0, 64%nat); (1, 84%nat); (0, 112%nat)] /\
    field_at r (84 + 8) 4 = 36 /\                                    (* L1.next_level = offset of the L2 *)
    field_at r (112 + 8) 4 = 64 /\                                   (* core.parent = offset of the package *)
    field_at r (112 + 20) 4 = 84 /\ field_at r (112 + 24) 4 = 36 /\  (* core.private_resources = [L1; L2] *)
    pptt_case Checked (SL (c05_ctor3 :: c05_pptt_hist ++ [SA 1])) = [EvNum 36; EvNum 64; EvNum 84; EvNum 112; EvBytes r] /\
    pptt_case Wrapping (SL (c05_ctor3 :: c05_pptt_hist ++ [SA 1])) = [EvNum 36; EvNum 64; EvNum 84; EvNum 112; EvBytes r].
Proof. eexists. split; [vm_compute; reflexivity|]. vm_compute. repeat split; reflexivity. Qed.

(* RHCT: ISA string; CMO node; MMU node; hart info referring to the ISA string and the CMO node *)
Definition c05_rhct_hist : list sx :=
  [ SL [SA 1; SL (map SA [114; 118; 54; 52])]; SL [SA 3; SA 6; SA 6; SA 6]; SL [SA 2; SA 1];
    SL [SA 4; SA 0; SL [SA 104; SA 0]; SL [SL [SA 104; SA 1]]] ].

Example c05_rhct_nonvacuous :
  exists r, ts_image rhct_spec c05_ctor4 c05_rhct_hist = Some r /\ N.of_nat (length r) < 2 ^ 32 /\
    c05_starts H_u16_u16 56 r = Some [(0, 56%nat); (1, 70%nat); (2, 80%nat); (65535, 88%nat)] /\
    field_at r (88 + 12) 4 = 56 /\ field_at r (88 + 16) 4 = 70 /\
    rhct_case Checked (SL (c05_ctor4 :: c05_rhct_hist ++ [SA 1])) = [EvNum 56; EvNum 70; EvNum 0; EvNum 0; EvBytes r] /\
    rhct_case Wrapping (SL (c05_ctor4 :: c05_rhct_hist ++ [SA 1])) = [EvNum 56; EvNum 70; EvNum 0; EvNum 0; EvBytes r].
Proof. eexists. split; [vm_compute; reflexivity|]. vm_compute. repeat split; reflexivity. Qed.

(* RIMT: IOMMU; platform device; second IOMMU; PCIe root complex with two ID mappings, to the second and to the first IOMMU *)
Definition c05_rimt_map (k : N) : sx := SL [SA 0; SA 0; SA 16; SL [SA 104; SA k]; SA 0; SA 0; SA 0].
Definition c05_rimt_hist : list sx :=
  [ SL [SA 1; SA 5; SL []; SL []; SL []; SL []]; SL [SA 3; SA 1; SL (map SA [65; 66]); SL []];
    SL [SA 1; SA 6; SL []; SL []; SL []; SL []];
    SL [SA 2; SA 9; SA 0; SA 1; SA 0; SL [SL [c05_rimt_map 2; c05_rimt_map 0]]] ].

Example c05_rimt_nonvacuous :
  exists r, ts_image rimt_spec c05_ctor3 c05_rimt_hist = Some r /\ N.of_nat (length r) < 2 ^ 32 /\
    c05_starts H_u8_x_u16 48 r = Some [(0, 48%nat); (2, 80%nat); (0, 95%nat); (1, 127%nat)] /\
    rimt_map_args (nth 3 c05_rimt_hist (SA 0)) = Some (16%nat, [c05_rimt_map 2; c05_rimt_map 0]) /\
    field_at r (127 + 16 + 20 * 0 + 12) 4 = 95 /\ field_at r (127 + 16 + 20 * 1 + 12) 4 = 48 /\
    rimt_case Checked (SL (c05_ctor3 :: c05_rimt_hist ++ [SA 1])) = [EvNum 48; EvNum 0; EvNum 95; EvNum 0; EvBytes r] /\
    rimt_case Wrapping (SL (c05_ctor3 :: c05_rimt_hist ++ [SA 1])) = [EvNum 48; EvNum 0; EvNum 95; EvNum 0; EvBytes r].
Proof. eexists. split; [vm_compute; reflexivity|]. vm_compute. repeat split; reflexivity. Qed.

(* VIOT: virtio-mmio IOMMU; virtio-pci IOMMU; MMIO endpoint -> the first; PCI range -> the second *)
Definition c05_viot_hist : list sx :=
  [ SL [SA 4; SA 4096]; SL [SA 3; SL [SA 0; SA 0; SA 1; SA 0]]; SL [SA 2; SA 7; SA 8192; SL [SA 104; SA 0]];
    SL [SA 1; SL [SA 0; SA 0; SA 2; SA 0]; SL [SA 0; SA 0; SA 3; SA 0]; SL [SA 104; SA 1]] ].

Example c05_viot_nonvacuous :
  exists r, ts_image viot_spec c05_ctor3 c05_viot_hist = Some r /\
    c05_starts H_u8_x_u16 48 r = Some [(4, 48%nat); (3, 64%nat); (2, 80%nat); (1, 104%nat)] /\
    field_at r (80 + 16) 2 = 48 /\ field_at r (104 + 16) 2 = 64 /\
    viot_case Checked (SL (c05_ctor3 :: c05_viot_hist ++ [SA 1])) = [EvNum 48; EvNum 64; EvNum 0; EvNum 0; EvBytes r] /\
    viot_case Wrapping (SL (c05_ctor3 :: c05_viot_hist ++ [SA 1])) = [EvNum 48; EvNum 64; EvNum 0; EvNum 0; EvBytes r].
Proof. eexists. split; [vm_compute; reflexivity|]. vm_compute. repeat split; reflexivity. Qed.

(* the theorems applied to the examples: the reference-field statement instantiated at the last operation of each history *)
Example c05_pptt_fields_instance :
  exists r, ts_image pptt_spec c05_ctor3 c05_pptt_hist = Some r /\ c05_pptt_refs r (firstn 3 c05_pptt_hist) (nth 3 c05_pptt_hist (SA 0)).
Proof.
  destruct c05_pptt_nonvacuous as (r & H & Hfit & _). exists r. split; [exact H|].
  exact (c05_pptt_reference_fields c05_ctor3 (firstn 3 c05_pptt_hist) (nth 3 c05_pptt_hist (SA 0)) [] r H Hfit).
Qed.

Example c05_viot_handles_instance :
  exists s0 s s1 s' found,
    viot_new c05_ctor3 = Some s0 /\ run_adds viot_addition Wrapping s0 (firstn 1 c05_viot_hist) = Some s /\
    add_step viot_addition Wrapping s (nth 1 c05_viot_hist (SA 0)) = Some (s1, [EvNum 64]) /\
    run_adds viot_addition Wrapping s1 (skipn 2 c05_viot_hist) = Some s' /\
    walk (S (length (tbl_image s'))) H_u8_x_u16 48 (skipn 48 (tbl_image s')) = Some found /\
    exists ty len, nth_error found 1 = Some (ty, 64%nat, len).
Proof.
  destruct c05_viot_nonvacuous as (r & H & Hst & _).
  destruct (c05_viot_model_handles Wrapping c05_ctor3 (firstn 1 c05_viot_hist) (nth 1 c05_viot_hist (SA 0)) (skipn 2 c05_viot_hist) r H)
    as (s0 & s & s1 & s' & h & found & Hn & Hp & Ha & Hq & Hi & Hw & Hl & ty & off & len & Hnth & Hh).
  assert (Hoff : off = 64%nat).
  { unfold c05_starts in Hst. rewrite <- Hi, Hw in Hst. cbn [option_map] in Hst. injection Hst as Hst.
    apply (f_equal (fun l => nth_error l 1)) in Hst. rewrite nth_error_map in Hst. cbn [length firstn c05_viot_hist] in Hnth. rewrite Hnth in Hst.
    cbn [option_map nth_error] in Hst. congruence. }
  subst off. cbn [ts_returns viot_spec nth c05_viot_hist] in Hh. subst h.
  exists s0, s, s1, s', found. repeat split; try assumption. exists ty, len. exact Hnth.
Qed.

Print Assumptions c05_pptt_reference_tiles.
Print Assumptions c05_pptt_reference_handles.
Print Assumptions c05_pptt_reference_handles_ok.
Print Assumptions c05_rhct_reference_handles.
Print Assumptions c05_rimt_reference_handles.
Print Assumptions c05_viot_reference_handles.
Print Assumptions c05_pptt_reference_fields.
Print Assumptions c05_rhct_reference_fields.
Print Assumptions c05_rimt_reference_fields.
Print Assumptions c05_viot_reference_fields.
Print Assumptions c05_pptt_model_handles.
Print Assumptions c05_rhct_model_handles.
Print Assumptions c05_rimt_model_handles.
Print Assumptions c05_viot_model_handles.
Print Assumptions c05_pptt_model_fields.
Print Assumptions c05_rhct_model_fields.
Print Assumptions c05_rimt_model_fields.
Print Assumptions c05_viot_model_fields.
