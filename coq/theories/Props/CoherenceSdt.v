(* Coherence of the executable judgement (Judge.v: oracle, run_case) with the history-level theorems of C13, for component 31,
   the generic user-defined table `Sdt`.  Statements only; proofs in Proofs/CoherenceSdtP.v (on the generic lemmas of
   Proofs/CoherenceTablesP.v and the history theorems of Proofs/SdtHistP.v).  Props/CoherenceTables.v covers components 10..30.

   The Sdt protocol (Impl/Sdt.v): after a successful constructor every operation reports EvNum 0 (performed) or EvNum 1
   (refused, table unchanged) and the history goes on; a refused constructor gives [EvPanic].  On component 31 Judge.v judges
     C13  as  c04_oracle sdt_spec (every observed image is the Spec's plain byte vector after the same appends and writes,
              no fatal refusal inside the Spec's domain)  &&  c01 (every image sums to 0)  &&  sdt_oracle (an operation is
              performed / refused exactly when the Spec says so),
     C01  as  c01_oracle,   C02  as  c02_oracle UNLESS the caller himself writes into bytes 4..8 ([sdt_writes_length]).

   For every WELL-FORMED case c = (ctor op ...):
       sdt_spec_new ctor = Some v0         the constructor is in the Spec's domain (4/6/8-byte identifiers, 36 <= len < 2^32)
       markers_ok ops = true               every atom among the operations is the observation marker 1 (anywhere, any number)
       Forall sdt_op_ok (real_ops ops)     every operation is one of the seven forms of Impl/Sdt.v with parameters in the range
                                           of their Rust types (Proofs/SdtHistP.v; decided by [sdt_op_okb])
       |v0| + ops_growth (real_ops ops) < 2^62       the bound of c13_history_refines
   and in both build profiles, the oracles of C13 and C01 ACCEPT the model's own observation stream; the oracle of C02
   accepts it when moreover the caller writes into Length somewhere (then nothing is judged) or the table stays below 2^32
   bytes.  That last hypothesis cannot be dropped ([coherence_sdt_c02_bound_needed]): Length is a u32.

   Hence (coherence_sdt_no_false_alarm) whenever the driver's correspondence check K holds on such a case, the oracle
   accepts the implementation's stream: an ORACLE alarm of C13 / C01 / C02 on component 31 implies a disagreement between
   crate and model. *)
From Coq Require Import NArith List Bool.
From ACPI Require Import Lib.Bytes Lib.Sx Impl.Sdt Spec.Layout Spec.SdtS Judge.
From ACPI Require Import Proofs.SdtHistP Proofs.CoherenceTablesP Proofs.CoherenceSdtP.
Import ListNotations.
Open Scope N_scope.

(* markers_ok ops = forallb (fun o => match o with SA n => n =? 1 | SL _ => true end) ops      (Proofs/CoherenceTablesP.v)
   real_ops ops   = the operations without the markers                                          (Spec/Layout.v) *)

Theorem coherence_sdt : forall md ctor ops v0,
  sdt_spec_new ctor = Some v0 ->
  markers_ok ops = true ->
  Forall sdt_op_ok (real_ops ops) ->
  N.of_nat (length v0) + ops_growth (real_ops ops) < 2 ^ 62 ->
  let c := SL (ctor :: ops) in
  oracle 13 31 c (run_case md 31 c) = true /\
  oracle 1 31 c (run_case md 31 c) = true /\
  (sdt_writes_length c = true \/ N.of_nat (length v0) + ops_growth (real_ops ops) < 2 ^ 32 ->
   oracle 2 31 c (run_case md 31 c) = true).
Proof. exact sdt_coherence. Qed.

(* the same on the decidable form of the hypotheses: sdt_case_okb ctor ops =
     match sdt_spec_new ctor with
     | Some v0 => markers_ok ops && forallb sdt_op_okb (real_ops ops) && (N.of_nat (length v0) + ops_growth (real_ops ops) <? 2 ^ 62)
     | None => false end *)
Theorem coherence_sdt_decidable : forall md ctor ops,
  sdt_case_okb ctor ops = true ->
  let c := SL (ctor :: ops) in
  oracle 13 31 c (run_case md 31 c) = true /\ oracle 1 31 c (run_case md 31 c) = true.
Proof. exact sdt_coherence_okb. Qed.

(* the other properties judged on component 31 by the same functions (C04 = C11: images and fatal refusals; C12: C04 and C01)
   accept every stream that C13's judgement accepts *)
Theorem coherence_sdt_c04_c11_c12 : forall c evs,
  oracle 13 31 c evs = true ->
  oracle 4 31 c evs = true /\ oracle 11 31 c evs = true /\ oracle 12 31 c evs = true /\ oracle 1 31 c evs = true.
Proof. exact sdt_coherent_others. Qed.

(* C02's size hypothesis is needed, and 2^32 is the exact bound: for EVERY constructor of the Spec's domain and EVERY slice
   taking the table to 4 GiB or more (below 2^62) the case (ctor (2 slice) 1) is well formed, the model performs the append
   (`new_length as u32` truncates silently in both profiles), and C02's judgement rejects the model's own stream -- Length
   holds size mod 2^32 -- while C13 and C01 accept it.  (A statement about the judgement -- and, where model = crate, about
   the crate: no such history is ever run.) *)
Theorem coherence_sdt_c02_bound_needed : forall md ctor v0 b bytes,
  sdt_spec_new ctor = Some v0 -> sx_bytes b = Some bytes ->
  2 ^ 32 <= N.of_nat (length v0) + N.of_nat (length bytes) < 2 ^ 62 ->
  let ops := [SL [SA 2; b]; SA 1] in
  let c := SL (ctor :: ops) in
  (markers_ok ops = true /\ Forall sdt_op_ok (real_ops ops) /\ N.of_nat (length v0) + ops_growth (real_ops ops) < 2 ^ 62) /\
  run_case md 31 c = [EvNum 0; EvBytes (with_checksum (with_length (v0 ++ bytes)))] /\
  sdt_writes_length c = false /\
  oracle 2 31 c (run_case md 31 c) = false /\
  oracle 13 31 c (run_case md 31 c) = true /\ oracle 1 31 c (run_case md 31 c) = true.
Proof. exact sdt_c02_bound_needed. Qed.

(* a refused constructor (whatever the reason: the model refuses exactly when `Sdt::new` would panic on its assertion or the
   case is malformed; then the Spec's constructor is undefined too): the model answers [EvPanic] and all three oracles
   accept it, provided the case has at least one operation or marker after the constructor *)
Theorem coherence_sdt_refused_constructor : forall md ctor ops,
  sdt_new ctor = None -> ops <> [] ->
  let c := SL (ctor :: ops) in
  run_case md 31 c = [EvPanic] /\
  oracle 13 31 c (run_case md 31 c) = true /\ oracle 1 31 c (run_case md 31 c) = true /\ oracle 2 31 c (run_case md 31 c) = true.
Proof. exact sdt_refused_ctor_coherent. Qed.

(* ... and [ops <> []] is needed: on the case (ctor) alone with a refused constructor (declared length 35), C04's part of
   the judgement ([judge_history] at the end of the operations expects no further event) rejects the model's own [EvPanic].
   The generators never emit a case without a final observation marker. *)
Example coherence_sdt_refused_constructor_alone :
  let c := SL [sdt_bad_ctor] in
  sdt_new sdt_bad_ctor = None /\ run_case Checked 31 c = [EvPanic] /\ run_case Wrapping 31 c = [EvPanic] /\
  oracle 13 31 c (run_case Checked 31 c) = false /\ oracle 4 31 c (run_case Checked 31 c) = false /\
  oracle 1 31 c (run_case Checked 31 c) = true /\ oracle 2 31 c (run_case Checked 31 c) = true.
Proof. exact sdt_refused_ctor_alone. Qed.

(* K (the driver's check, through Judge.project: whole streams for C13, byte sums for C01, (Length, size) for C02) implies the
   oracle's acceptance wherever the oracle accepts the model's own stream, i.e. on every case covered above *)
Theorem coherence_sdt_no_false_alarm : forall md c impl,
  (oracle 13 31 c (run_case md 31 c) = true ->
   evs_eqb (project 13 31 (run_case md 31 c)) (project 13 31 impl) = true -> oracle 13 31 c impl = true) /\
  (oracle 1 31 c (run_case md 31 c) = true ->
   evs_eqb (project 1 31 (run_case md 31 c)) (project 1 31 impl) = true -> oracle 1 31 c impl = true) /\
  (oracle 2 31 c (run_case md 31 c) = true ->
   evs_eqb (project 2 31 (run_case md 31 c)) (project 2 31 impl) = true -> oracle 2 31 c impl = true).
Proof. exact sdt_no_false_alarm. Qed.

(* ---------- non-vacuity ---------- *)
(* sdt_ex_ctor = Sdt::new("DSDT", 40, 2, "CLOUDH", "CHDSDT  ", 1);  sdt_ex_ops (Proofs/CoherenceSdtP.v) =
     1  append u8  append u16  append u32  append u64  1  append_slice(3)  write_bytes(37, 2 bytes: inside the body)
     write_bytes(8, 3 bytes: across the checksum byte 9)  1  write_u64(52, ..) REFUSED  write_bytes(2^64 - 1, 2 bytes) REFUSED
     1  sink.word  sink.vec(3)  sink.vec(0)  write_u16(9, ..)  update_checksum  1
   The hypotheses of coherence_sdt hold of it (with the 2^32 bound, no write into Length), all three oracles accept the
   model's stream in both profiles, and the stream is: sizes observed 40 55 58 58 63, statuses 0 / 1 in between. *)
Example coherence_sdt_not_vacuous :
  let c := SL (sdt_ex_ctor :: sdt_ex_ops) in
  (exists v0, sdt_spec_new sdt_ex_ctor = Some v0 /\ markers_ok sdt_ex_ops = true /\ Forall sdt_op_ok (real_ops sdt_ex_ops) /\
              N.of_nat (length v0) + ops_growth (real_ops sdt_ex_ops) < 2 ^ 32) /\
  sdt_writes_length c = false /\
  oracle 13 31 c (run_case Wrapping 31 c) = true /\ oracle 13 31 c (run_case Checked 31 c) = true /\
  oracle 1 31 c (run_case Wrapping 31 c) = true /\ oracle 2 31 c (run_case Wrapping 31 c) = true /\
  run_case Checked 31 c = run_case Wrapping 31 c /\
  map (fun e => match e with EvBytes img => N.of_nat (length img) | EvNum n => n | EvPanic => 999 end) (run_case Wrapping 31 c)
  = [40; 0; 0; 0; 0; 55; 0; 0; 0; 58; 1; 1; 58; 0; 0; 0; 0; 0; 63].
Proof. exact sdt_coherent_not_vacuous. Qed.

(* the theorem applied to that history, both profiles at once *)
Example coherence_sdt_applies : forall md,
  let c := SL (sdt_ex_ctor :: sdt_ex_ops) in
  oracle 13 31 c (run_case md 31 c) = true /\ oracle 1 31 c (run_case md 31 c) = true /\ oracle 2 31 c (run_case md 31 c) = true.
Proof. exact sdt_coherence_applies. Qed.

(* C02's escape: the caller overwrites Length (write_u32(4, 1000)); the image shows Length 1000 on 40 bytes, C02's plain
   judgement would reject the model's own stream, Judge.v does not judge such a history; C13 still accepts *)
Example coherence_sdt_writes_length :
  let c := SL [sdt_ex_ctor; SA 1; SL [SA 4; SA 4; SA 4; SA 1000]; SA 1] in
  (let ops := [SA 1; SL [SA 4; SA 4; SA 4; SA 1000]; SA 1] in
   exists v0, sdt_spec_new sdt_ex_ctor = Some v0 /\ markers_ok ops = true /\ Forall sdt_op_ok (real_ops ops) /\
              N.of_nat (length v0) + ops_growth (real_ops ops) < 2 ^ 62) /\
  sdt_writes_length c = true /\ c02_oracle c (run_case Wrapping 31 c) = false /\
  oracle 2 31 c (run_case Wrapping 31 c) = true /\ oracle 13 31 c (run_case Wrapping 31 c) = true.
Proof. exact sdt_writes_length_not_vacuous. Qed.

Print Assumptions coherence_sdt.
Print Assumptions coherence_sdt_decidable.
Print Assumptions coherence_sdt_c04_c11_c12.
Print Assumptions coherence_sdt_c02_bound_needed.
Print Assumptions coherence_sdt_refused_constructor.
Print Assumptions coherence_sdt_refused_constructor_alone.
Print Assumptions coherence_sdt_no_false_alarm.
Print Assumptions coherence_sdt_not_vacuous.
Print Assumptions coherence_sdt_applies.
Print Assumptions coherence_sdt_writes_length.
