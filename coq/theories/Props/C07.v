(* C07 -- PkgLength encodings are correct for every representable length. Statements only. *)
From Coq Require Import NArith List.
From ACPI Require Import Lib.Bytes Lib.Sx Lib.Machine Impl.AmlCore Impl.AmlTerm Spec.AmlCoreS Proofs.PkgLenP Proofs.FrameSitesP.
Import ListNotations.
Open Scope N_scope.

(* Self-inclusive form (every length-prefixed object): whenever create_pkg_length returns bytes e for a
   content size n, then for every continuation r the specification's decoder reads, from e ++ r, exactly
   n + |e| (the distance from the first PkgLength byte to the end of the object) and stops right after e;
   e has the specification's lead-byte format; and no shorter PkgLength could have included its own size. *)
Theorem c07_inclusive :
  forall md n e r, n < 2 ^ 63 -> pkg_len md n true = Some e ->
    pkg_decode (e ++ r) = Some (n + N.of_nat (length e), r) /\ lead_ok e /\
    (forall w, (1 <= w < length e)%nat -> pkg_cap w < n + N.of_nat w).
Proof. exact pkg_len_incl_correct. Qed.

(* Exclusive form (named / reserved field widths): decodes to exactly the width given. *)
Theorem c07_exclusive :
  forall md n e r, n < 2 ^ 63 -> pkg_len md n false = Some e ->
    pkg_decode (e ++ r) = Some (n, r) /\ lead_ok e.
Proof. exact pkg_len_excl_correct. Qed.

(* Every content size below 2^28 - 4 is accepted, in both forms and both build profiles. *)
Theorem c07_accepts :
  forall md n (incl : bool), n + 4 < 2 ^ 28 -> exists e, pkg_len md n incl = Some e.
Proof. exact pkg_len_accept. Qed.

(* A total of 2^28 or more is refused in both build profiles (shared with C18). *)
Theorem c07_refuses :
  forall md n (incl : bool), n < 2 ^ 63 -> 2 ^ 28 <= n + (if incl then pkg_ll n else 0) -> pkg_len md n incl = None.
Proof. exact pkg_len_refuse. Qed.

(* The call sites: every constructor that emits a length-prefixed object (frame_op lists them with their opcodes: Buffer
   data / terms, Uuid buffers, resource templates, variable packages, Device, Scope and Scope::raw, Method, PowerResource,
   Field, Package and PackageBuilder, If, Else, While) emits  opcode ++ PkgLength ++ body  where the PkgLength decodes,
   whatever follows the object, to exactly the distance from its own first byte to the end of the object, has the
   specification's lead-byte format and is the shortest that can include its own size. *)
Theorem c07_call_sites :
  forall md t op b, frame_op t = Some op -> enc md t = Some b -> N.of_nat (length b) < 2 ^ 63 ->
    exists pl body,
      b = op ++ pl ++ body /\
      (forall r, pkg_decode (pl ++ body ++ r) = Some (N.of_nat (length pl + length body), body ++ r)) /\
      lead_ok pl /\
      (forall w, (1 <= w < length pl)%nat -> pkg_cap w < N.of_nat (length body) + N.of_nat w).
Proof. exact frame_sites. Qed.

(* Field-list entries: the width of a named or reserved field decodes to exactly the width given. *)
Theorem c07_field_entries :
  forall md e b, enc_fentry md e = Some b ->
    match e with
    | FNamed name len => len < 2 ^ 63 -> exists pl, b = name ++ pl /\ forall r, pkg_decode (pl ++ r) = Some (len, r)
    | FReserved len => len < 2 ^ 63 -> exists pl, b = 0 :: pl /\ forall r, pkg_decode (pl ++ r) = Some (len, r)
    end.
Proof. exact fentry_width. Qed.

Example c07_site_example :
  enc Wrapping (TResTemplate []) = Some [0x11; 0x05; 0x0A; 0x02; 0x79; 0x00] /\ frame_op (TResTemplate []) = Some [0x11].
Proof. vm_compute. split; reflexivity. Qed.

(* non-vacuity: one length per width, across the boundaries 63/64, 4095/4096, 2^20 *)
Example c07_examples :
  pkg_len Wrapping 62 true = Some [63] /\ pkg_len Wrapping 63 true = Some [0x41; 0x04] /\
  pkg_len Checked 4093 true = Some [0x4F; 0xFF] /\ pkg_len Checked 4094 true = Some [0x81; 0x00; 0x01] /\
  pkg_len Wrapping 1048573 true = Some [0xC1; 0x00; 0x00; 0x01] /\ pkg_len Wrapping 63 false = Some [0x4F; 0x03].
Proof. vm_compute. repeat split. Qed.

Print Assumptions c07_inclusive.
Print Assumptions c07_exclusive.
Print Assumptions c07_accepts.
Print Assumptions c07_refuses.
Print Assumptions c07_call_sites.
Print Assumptions c07_field_entries.
