(* C10 -- resource descriptors and templates are correctly framed and valued. Statements only. *)
From Coq Require Import NArith List.
From ACPI Require Import Lib.Bytes Lib.Sx Lib.Machine Impl.AmlCore Impl.AmlTerm Spec.AmlCoreS Spec.AmlTermS Proofs.DescP.
Import ListNotations.
Open Scope N_scope.

(* every descriptor the model emits starts with the specification's tag and carries a length field equal to the
   number of payload bytes that follow: the Spec walker, stepping by the descriptor's own length field, consumes
   exactly the descriptor whatever follows it *)
Theorem c10_descriptor_framed :
  forall d b, enc_desc d = Some b ->
    exists payload, length payload = desc_payload_len d /\
      forall f r, rd_walk (S f) (b ++ r) = option_map (cons (desc_tag d, payload)) (rd_walk f r).
Proof. exact desc_framed. Qed.

(* address-space descriptors (word / dword / qword): accepted exactly when min <= max and the size is representable;
   the bytes are the specification's layout with Length = max - min + 1 and MinFixed|MaxFixed (0x0C) set *)
Theorem c10_address_space :
  forall w k tag ty ca rw min max tr b,
    (w = 16 /\ k = 2%nat /\ tag = 0x88) \/ (w = 32 /\ k = 4%nat /\ tag = 0x87) \/ (w = 64 /\ k = 8%nat /\ tag = 0x8A) ->
    enc_desc (DAddr w ty ca rw min max tr) = Some b ->
    min <= max /\ max - min + 1 < 2 ^ (8 * N.of_nat k) /\
    b = [tag] ++ le 2 (N.of_nat (3 + 5 * k)) ++
        [ty; 0x0C; match ty with 0 => N.lor (cast U8 (N.shiftl ca 1)) rw | 1 => 3 | _ => 0 end] ++
        le k 0 ++ le k min ++ le k max ++
        le k (match (match ty with 2 => None | _ => tr end) with Some t => t | None => 0 end) ++
        le k (max - min + 1).
Proof. exact addr_space_layout. Qed.

Theorem c10_address_space_refuses :
  forall w ty ca rw min max tr k m,
    (w = 16 /\ k = 2%nat /\ m = U16) \/ (w = 32 /\ k = 4%nat /\ m = U32) \/ (w = 64 /\ k = 8%nat /\ m = U64) ->
    max < min \/ m <= max - min + 1 -> enc_desc (DAddr w ty ca rw min max tr) = None.
Proof. exact addr_space_refuse. Qed.

(* a resource template of any number of descriptors, in any order, is a Buffer whose declared size equals its payload,
   whose payload is the descriptors in order followed by the end tag 79 00, and which the walk tiles exactly *)
Theorem c10_template :
  forall md ks b r,
    Forall is_desc ks -> enc md (TResTemplate ks) = Some b -> N.of_nat (length b) < 2 ^ 63 ->
    exists bs payload items,
      map enc_desc (descs_of ks) = map Some bs /\
      payload = concat bs ++ [0x79; 0x00] /\
      buffer_decode (b ++ r) = Some (N.of_nat (length payload), payload, r) /\
      rd_walk (S (S (length (descs_of ks)))) payload = Some (items ++ [(0x79, [0])]) /\
      map fst items = map desc_tag (descs_of ks) /\
      map (fun i => length (snd i)) items = map desc_payload_len (descs_of ks).
Proof. exact res_template_correct. Qed.

Example c10_example :
  enc Wrapping (TResTemplate [TDesc (DMem32 1 0xE8000000 0x10000000)])
  = Some [0x11; 0x11; 0x0A; 0x0E; 0x86; 0x09; 0x00; 0x01; 0; 0; 0; 0xE8; 0; 0; 0; 0x10; 0x79; 0x00].
Proof. vm_compute. reflexivity. Qed.

Print Assumptions c10_descriptor_framed.
Print Assumptions c10_address_space.
Print Assumptions c10_address_space_refuses.
Print Assumptions c10_template.
