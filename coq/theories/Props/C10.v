(* C10 -- resource descriptors and templates are correctly framed and valued. Statements only. *)
From Coq Require Import NArith List.
From ACPI Require Import Lib.Bytes Lib.Sx Lib.Machine Impl.AmlCore Impl.AmlTerm Spec.AmlCoreS Spec.AmlTermS Proofs.DescP.
Import ListNotations.
Open Scope N_scope.

(* every descriptor the model emits starts with the specification's tag and carries a length field equal to the
   number of payload bytes that follow: the Spec walker, stepping by the descriptor's own length field, consumes
   exactly the descriptor whatever follows it *)
Theorem c10_descriptor_framed :
  forall d b, enc_desc d = Some b ->
    exists payload, length payload = desc_payload_len d /\
      forall f r, rd_walk (S f) (b ++ r) = option_map (cons (desc_tag d, payload)) (rd_walk f r).
Proof. exact desc_framed. Qed.

(* address-space descriptors (word / dword / qword): accepted exactly when min <= max and the size is representable;
   the bytes are the specification's layout with Length = max - min + 1 and MinFixed|MaxFixed (0x0C) set *)
Theorem c10_address_space :
  forall w k tag ty ca rw min max tr b,
    (w = 16 /\ k = 2%nat /\ tag = 0x88) \/ (w = 32 /\ k = 4%nat /\ tag = 0x87) \/ (w = 64 /\ k = 8%nat /\ tag = 0x8A) ->
    enc_desc (DAddr w ty ca rw min max tr) = Some b ->
    min <= max /\ max - min + 1 < 2 ^ (8 * N.of_nat k) /\
    b = [tag] ++ le 2 (N.of_nat (3 + 5 * k)) ++
        [ty; 0x0C; match ty with 0 => N.lor (cast U8 (N.shiftl ca 1)) rw | 1 => 3 | _ => 0 end] ++
        le k 0 ++ le k min ++ le k max ++
        le k (match (match ty with 2 => None | _ => tr end) with Some t => t | None => 0 end) ++
        le k (max - min + 1).
Proof. exact addr_space_layout. Qed.

Theorem c10_address_space_refuses :
  forall w ty ca rw min max tr k m,
    (w = 16 /\ k = 2%nat /\ m = U16) \/ (w = 32 /\ k = 4%nat /\ m = U32) \/ (w = 64 /\ k = 8%nat /\ m = U64) ->
    max < min \/ m <= max - min + 1 -> enc_desc (DAddr w ty ca rw min max tr) = None.
Proof. exact addr_space_refuse. Qed.

(* a resource template of any number of descriptors, in any order, is a Buffer whose declared size equals its payload,
   whose payload is the descriptors in order followed by the end tag 79 00, and which the walk tiles exactly *)
Theorem c10_template :
  forall md ks b r,
    Forall is_desc ks -> enc md (TResTemplate ks) = Some b -> N.of_nat (length b) < 2 ^ 63 ->
    exists bs payload items,
      map enc_desc (descs_of ks) = map Some bs /\
      payload = concat bs ++ [0x79; 0x00] /\
      buffer_decode (b ++ r) = Some (N.of_nat (length payload), payload, r) /\
      rd_walk (S (S (length (descs_of ks)))) payload = Some (items ++ [(0x79, [0])]) /\
      map fst items = map desc_tag (descs_of ks) /\
      map (fun i => length (snd i)) items = map desc_payload_len (descs_of ks).
Proof. exact res_template_correct. Qed.

Example c10_example :
  enc Wrapping (TResTemplate [TDesc (DMem32 1 0xE8000000 0x10000000)])
  = Some [0x11; 0x11; 0x0A; 0x0E; 0x86; 0x09; 0x00; 0x01; 0; 0; 0; 0xE8; 0; 0; 0; 0x10; 0x79; 0x00].
Proof. vm_compute. reflexivity. Qed.

Print Assumptions c10_descriptor_framed.
Print Assumptions c10_address_space.
Print Assumptions c10_address_space_refuses.
Print Assumptions c10_template.

(* ------------------------------------------------------------------------------------------------------------------
   The caller's values at the specification's offsets, for every descriptor kind.
   [desc_in_range d]: d's arguments fit their Rust types (bool / u8 / u16 / u32 / u64 / the constructors' enums).
   [desc_to_sx d]: d in the exchange vocabulary (codes 20..24), inverse of the vocabulary's parser [desc_of_sx].
   [values_of d]: the caller's arguments named by the specification's fields (address spaces: general flags 0x0C,
   type specific flags as the constructor sets them, granularity 0, length = max - min + 1, bus numbers untranslated).
   [desc_decode], [decode_item]: the Spec decoder of Spec/DescDecodeS.v, reading each field at its ACPI 6.5 6.4 offset. *)
From ACPI Require Import Spec.DescDecodeS Proofs.DescValP.

(* whatever in-range arguments the caller passes, the model's bytes for a descriptor are the reference encoding the Spec
   layer writes from ACPI 6.5 6.4 for the same arguments; where the reference has no encoding (an address range whose
   size max - min + 1 does not fit the field, or max < min) the model refuses, and nowhere else *)
Theorem c10_descriptor_is_reference :
  forall d, desc_in_range d -> enc_desc d = ref_desc (desc_to_sx d).
Proof. exact desc_is_reference. Qed.

(* the exchange form used above is the one the vocabulary's own parser maps back to d *)
Theorem c10_descriptor_exchange_form :
  forall d, desc_of_sx (desc_to_sx d) = Some d.
Proof. exact desc_of_to_sx. Qed.

(* every emitted descriptor is one item for the Spec walker (its length field covers exactly its payload), and the Spec
   decoder, reading that payload at the specification's offsets, returns exactly the caller's values *)
Theorem c10_descriptor_values_decode :
  forall d b, desc_in_range d -> enc_desc d = Some b ->
    exists payload, rd_walk 1 b = Some [(desc_tag d, payload)] /\ desc_decode (desc_tag d) payload = Some (values_of d).
Proof. exact desc_decode_encode. Qed.

(* a resource template of any number of in-range descriptors in any order, in both build modes: the Spec buffer decoder
   finds a payload of the declared size with nothing left over, the Spec walker (any fuel of at least one unit per item)
   tiles it into items, decoding the items gives the caller's values of every descriptor in order, and the item after
   them is the end tag 79 00 *)
Theorem c10_template_values_decode :
  forall md ds b,
    Forall desc_in_range ds ->
    enc md (TResTemplate (map TDesc ds)) = Some b -> N.of_nat (length b) < 2 ^ 63 ->
    exists payload items,
      buffer_decode b = Some (N.of_nat (length payload), payload, []) /\
      (forall fuel, (S (S (length ds)) <= fuel)%nat -> rd_walk fuel payload = Some (items ++ [(0x79, [0])])) /\
      map decode_item items = map (fun d => Some (values_of d)) ds.
Proof. exact template_decodes. Qed.

(* two in-range descriptors that come out as the same bytes were built from the same values: a difference in any
   caller-visible value shows in the output *)
Theorem c10_descriptor_values_injective :
  forall d1 d2 b,
    desc_in_range d1 -> desc_in_range d2 -> enc_desc d1 = Some b -> enc_desc d2 = Some b -> values_of d1 = values_of d2.
Proof. exact desc_values_injective. Qed.

(* non-vacuity: an accepted descriptor with its reference bytes, and a range the reference and the model both refuse *)
Example c10_is_reference_example :
  enc_desc (DIrq 1 0 1 1 33) = Some [0x89; 6; 0; 0x0D; 1; 33; 0; 0; 0] /\
  ref_desc (desc_to_sx (DIrq 1 0 1 1 33)) = Some [0x89; 6; 0; 0x0D; 1; 33; 0; 0; 0] /\
  enc_desc (DAddr 64 0 0 1 0 0xFFFFFFFFFFFFFFFF None) = None /\
  ref_desc (desc_to_sx (DAddr 64 0 0 1 0 0xFFFFFFFFFFFFFFFF None)) = None.
Proof. vm_compute. repeat split. Qed.

(* non-vacuity: a register descriptor with every argument at the top of its type walks and decodes to those arguments *)
Example c10_values_decode_example :
  match enc_desc (DReg 0xFF 0xFF 0xFF 0xFF 0xFFFFFFFFFFFFFFFF) with
  | Some b => option_map (map decode_item) (rd_walk 1 b)
  | None => None
  end = Some [Some (VReg 0xFF 0xFF 0xFF 0xFF 0xFFFFFFFFFFFFFFFF)].
Proof. vm_compute. reflexivity. Qed.

(* non-vacuity: a template of all five kinds decodes back to the values it was built from, then the end tag *)
Example c10_template_values_example :
  match enc Checked (TResTemplate (map TDesc
          [DMem32 1 0xE8000000 0x10000000; DIO 0x3F8 0x3FF 1 8; DAddr 64 0 3 1 0x800000000 0xFFFFFFFFF (Some 0x1000);
           DIrq 1 0 1 1 33; DReg 0x7F 64 0 4 0xFED00000])) with
  | Some b =>
      match buffer_decode b with
      | Some (size, payload, []) =>
          if size =? N.of_nat (length payload) then option_map (map decode_item) (rd_walk (S (length payload)) payload) else None
      | _ => None
      end
  | None => None
  end = Some [Some (VMem32 1 0xE8000000 0x10000000);
              Some (VIO 1 0x3F8 0x3FF 1 8);
              Some (VAddr 64 0 0x0C 7 0 0x800000000 0xFFFFFFFFF 0x1000 0x800000000);
              Some (VIrq 1 0 1 1 0 1 [33]);
              Some (VReg 0x7F 64 0 4 0xFED00000);
              Some (VEnd 0)].
Proof. vm_compute. reflexivity. Qed.

(* non-vacuity: descriptors differing in one caller value (the last byte-sized argument) have different values and
   different bytes *)
Example c10_values_injective_example :
  enc_desc (DIO 0x3F8 0x3FF 1 8) = Some [0x47; 1; 0xF8; 3; 0xFF; 3; 1; 8] /\
  enc_desc (DIO 0x3F8 0x3FF 1 9) = Some [0x47; 1; 0xF8; 3; 0xFF; 3; 1; 9] /\
  values_of (DIO 0x3F8 0x3FF 1 8) <> values_of (DIO 0x3F8 0x3FF 1 9).
Proof. vm_compute. repeat split. discriminate. Qed.

Print Assumptions c10_descriptor_is_reference.
Print Assumptions c10_descriptor_exchange_form.
Print Assumptions c10_descriptor_values_decode.
Print Assumptions c10_template_values_decode.
Print Assumptions c10_descriptor_values_injective.
