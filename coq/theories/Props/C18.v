(* C18 -- counts and sizes too large for their field are refused, never wrapped. Statements only.
   This file holds the AML sites; the table sites are in the second half (one theorem per narrowing site). *)
From Coq Require Import NArith List.
From ACPI Require Import Lib.Bytes Lib.Sx Lib.Machine Impl.AmlCore Impl.AmlTerm Proofs.PkgLenP Proofs.PathP Proofs.DescP
  Proofs.RefuseP.
From ACPI Require Import Impl.Table Impl.Pptt Impl.Hmat Impl.Rhct Impl.Rimt Impl.Viot Impl.Cedt Spec.Layout
  Proofs.TableP Proofs.PpttWalkP Proofs.HmatWalkP Proofs.RhctWalkP Proofs.RimtWalkP Proofs.ViotWalkP Proofs.CedtWalkP.
Import ListNotations.
Open Scope N_scope.

(* "md" ranges over both build profiles (Checked = overflow checks on, Wrapping = default release) in every statement *)

Theorem c18_package_elements :
  forall md ks, (255 < length ks)%nat -> enc md (TPackage ks) = None /\ enc md (TPkgBuilder ks) = None.
Proof. intros. split; [now apply package_refuses|now apply pkg_builder_refuses]. Qed.

Theorem c18_package_count_field :
  forall md ks b, enc md (TPackage ks) = Some b ->
    exists pl body, b = [0x12] ++ pl ++ N.of_nat (length ks) :: body /\ N.of_nat (length ks) <= 255.
Proof. exact package_count_agrees. Qed.

Theorem c18_method_arguments : forall md p args sr ks, 7 < args -> enc md (TMethod p args sr ks) = None.
Proof. exact method_refuses. Qed.

Theorem c18_arg_local : forall md n, (6 < n -> enc md (TArg n) = None) /\ (7 < n -> enc md (TLocal n) = None).
Proof. exact arg_local_refuse. Qed.

Theorem c18_name_segments :
  forall s p, path_new s = Some p -> (255 < length (p_parts p))%nat -> enc_path_text s = None.
Proof. exact path_text_refuses. Qed.

Theorem c18_pkg_length :
  forall md n (incl : bool), n < 2 ^ 63 -> 2 ^ 28 <= n + (if incl then pkg_ll n else 0) -> pkg_len md n incl = None.
Proof. exact pkg_len_refuse. Qed.

Theorem c18_framed_object :
  forall md op body, N.of_nat (length body) < 2 ^ 63 -> 2 ^ 28 <= N.of_nat (length body) + 4 ->
    2 ^ 20 <= N.of_nat (length body) -> framed md op body = None.
Proof. exact framed_refuses. Qed.

Theorem c18_address_range :
  forall w ty ca rw min max tr k m,
    (w = 16 /\ k = 2%nat /\ m = U16) \/ (w = 32 /\ k = 4%nat /\ m = U32) \/ (w = 64 /\ k = 8%nat /\ m = U64) ->
    max < min \/ m <= max - min + 1 -> enc_desc (DAddr w ty ca rw min max tr) = None.
Proof. exact addr_space_refuse. Qed.

(* ================================================================================================
   Table sites.  For every caller-controlled count or length inside a table entry: if the addition is accepted the emitted field
   holds the TRUE count / length, and an input whose count / length does not fit its field is refused.  The additions
   [*_addition] do not depend on the build profile (pptt, rhct, rimt, viot, cedt) or are quantified over it (hmat), and
   [add_step] refuses whenever the addition does, so every refusal holds in debug and release builds alike.  That every entry's
   own length field is exact in every accepted history of every table is c03_tables (Props/C03.v). *)

(* PPTT processor node: one-byte length 20 + 4 * (number of private resources), 32-bit resource count *)
Theorem c18_pptt_processor_node :
  (forall s parent uid bs e, pptt_addition s (SL [SA 1; parent; SA uid; SL bs]) = Some e ->
     field_at (a_bytes e) 1 1 = N.of_nat (length (a_bytes e)) /\
     N.of_nat (length (a_bytes e)) = 20 + 4 * N.of_nat (pptt_resources bs) /\
     field_at (a_bytes e) 16 4 = N.of_nat (pptt_resources bs)) /\
  (forall s parent uid bs, 2 ^ 8 <= 20 + 4 * N.of_nat (pptt_resources bs) ->
     pptt_addition s (SL [SA 1; parent; SA uid; SL bs]) = None).
Proof. split; [exact pptt_proc_exact | exact pptt_proc_refuses]. Qed.

(* HMAT memory-side cache: 16-bit SMBIOS handle count and 32-bit structure length; system locality structure: 32-bit length and
   32-bit initiator / target counts (guarded since the repair 2e6aec4) *)
Theorem c18_hmat_structures :
  (forall md s pd size total level assoc policy line hs e,
     hmat_addition md s (SL [SA 3; SA pd; SA size; SA total; SA level; SA assoc; SA policy; SA line; SL hs]) = Some e ->
     field_at (a_bytes e) 30 2 = N.of_nat (length hs) /\
     field_at (a_bytes e) 4 4 = N.of_nat (length (a_bytes e)) /\
     N.of_nat (length (a_bytes e)) = 32 + 2 * N.of_nat (length hs)) /\
  (forall md s pd size total level assoc policy line hs, 2 ^ 16 <= N.of_nat (length hs) ->
     hmat_addition md s (SL [SA 3; SA pd; SA size; SA total; SA level; SA assoc; SA policy; SA line; SL hs]) = None) /\
  (forall md s o e, hmat_addition md s o = Some e ->
     N.of_nat (length (a_bytes e)) < 2 ^ 32 /\ field_at (a_bytes e) 4 4 = N.of_nat (length (a_bytes e))) /\
  (forall md s lt dt mts unit ni nt bs, ni * nt < 2 ^ 64 -> 2 ^ 32 <= 32 + 4 * ni + 4 * nt + 2 * (ni * nt) ->
     hmat_addition md s (SL [SA 2; SA lt; SA dt; SA mts; SA unit; SA ni; SA nt; SL bs]) = None).
Proof.
  split; [exact hmat_msc_exact|]. split; [exact hmat_msc_refuses|]. split; [|exact hmat_sysloc_refuses].
  intros md s o e H. pose proof (hmat_addition_fits md s o e H) as Hf. split; [exact Hf|]. exact (hmat_length_exact md s o e H Hf).
Qed.

(* RHCT: 16-bit node lengths, ISA string length, hart-info offset count *)
Theorem c18_rhct_nodes :
  (forall s o e, rhct_addition s o = Some e ->
     field_at (a_bytes e) 2 2 = N.of_nat (length (a_bytes e)) /\ N.of_nat (length (a_bytes e)) < 2 ^ 16) /\
  (forall s str sb, sx_bytes str = Some sb -> 2 ^ 16 <= N.of_nat (isa_true_len (length sb)) ->
     rhct_addition s (SL [SA 1; str]) = None) /\
  (forall s uid isa cmos e, rhct_addition s (SL [SA 4; SA uid; isa; SL cmos]) = Some e ->
     field_at (a_bytes e) 6 2 = N.of_nat (hart_true_count cmos)) /\
  (forall s uid isa cmos, 2 ^ 16 <= N.of_nat (hart_true_len cmos) -> rhct_addition s (SL [SA 4; SA uid; isa; SL cmos]) = None).
Proof.
  split; [intros s o e H; split; [exact (rhct_node_length_exact s o e H) | exact (rhct_node_length_fits s o e H)]|].
  split; [exact rhct_isa_length_refuses|]. split; [exact rhct_hart_count_exact | exact rhct_hart_length_refuses].
Qed.

(* RIMT: 16-bit device lengths, interrupt-wire and id-mapping counts *)
Theorem c18_rimt_devices :
  (forall s o e, rimt_addition s o = Some e ->
     field_at (a_bytes e) 2 2 = N.of_nat (length (a_bytes e)) /\ N.of_nat (length (a_bytes e)) < 2 ^ 16) /\
  (forall s id base pci prox wires e, rimt_addition s (SL [SA 1; SA id; base; pci; prox; wires]) = Some e ->
     field_at (a_bytes e) 2 2 = N.of_nat (iommu_true_len wires) /\ length (a_bytes e) = iommu_true_len wires /\
     field_at (a_bytes e) 28 2 = N.of_nat (opt_list_count wires)) /\
  (forall s id base pci prox wires, 2 ^ 16 <= N.of_nat (iommu_true_len wires) ->
     rimt_addition s (SL [SA 1; SA id; base; pci; prox; wires]) = None) /\
  (forall s id seg ats pri maps, 2 ^ 16 <= N.of_nat (pcierc_true_len maps) ->
     rimt_addition s (SL [SA 2; SA id; SA seg; SA ats; SA pri; maps]) = None) /\
  (forall s id name nm maps, sx_bytes name = Some nm -> 2 ^ 16 <= N.of_nat (platform_true_len nm maps) ->
     rimt_addition s (SL [SA 3; SA id; name; maps]) = None).
Proof.
  split; [intros s o e H; split; [exact (rimt_device_length_exact s o e H) | exact (rimt_device_length_fits s o e H)]|].
  split; [exact rimt_iommu_exact|]. split; [exact rimt_iommu_length_refuses|].
  split; [exact rimt_pcierc_length_refuses | exact rimt_platform_length_refuses].
Qed.

(* CEDT CXIMS: one-byte bitmap count, 16-bit record length *)
Theorem c18_cedt_cxims :
  (forall s gran maps e, cedt_addition s (SL [SA 3; SA gran; SL maps]) = Some e ->
     field_at (a_bytes e) 7 1 = N.of_nat (length maps) /\
     field_at (a_bytes e) 2 2 = 8 + 8 * N.of_nat (length maps) /\
     N.of_nat (length (a_bytes e)) = 8 + 8 * N.of_nat (length maps)) /\
  (forall s gran maps, (256 <= length maps)%nat -> cedt_addition s (SL [SA 3; SA gran; SL maps]) = None).
Proof. split; [exact cedt_cxims_count_exact | exact cedt_cxims_refuses]. Qed.

(* VIOT: the 16-bit node count and node offset of the table: in every accepted history the count field is the number of nodes
   and the table stays below 2^16 bytes; an addition that would carry the 16-bit offset past 2^16 is refused in both profiles *)
Theorem c18_viot_table :
  (forall md c ops s0 s, viot_new c = Some s0 -> run_adds viot_addition md s0 ops = Some s ->
     field_at (tbl_image s) 36 2 = N.of_nat (length (t_ents s)) /\ N.of_nat (length (tbl_image s)) < 2 ^ 16) /\
  (forall md s o e, t_kind s = KViot -> viot_addition s o = Some e -> 2 ^ 16 <= t_hoff s + N.of_nat (length (a_bytes e)) ->
     add_step viot_addition md s o = None).
Proof.
  split; [|exact viot_offset_refuses].
  intros md c ops s0 s Hn Hr. split; [exact (proj1 (viot_node_count_exact md c ops s0 s Hn Hr)) | exact (proj1 (viot_history_small md c ops s0 s Hn Hr))].
Qed.

Print Assumptions c18_package_elements.
Print Assumptions c18_package_count_field.
Print Assumptions c18_method_arguments.
Print Assumptions c18_arg_local.
Print Assumptions c18_name_segments.
Print Assumptions c18_pkg_length.
Print Assumptions c18_framed_object.
Print Assumptions c18_address_range.
Print Assumptions c18_pptt_processor_node.
Print Assumptions c18_hmat_structures.
Print Assumptions c18_rhct_nodes.
Print Assumptions c18_rimt_devices.
Print Assumptions c18_cedt_cxims.
Print Assumptions c18_viot_table.
