(* C18 -- counts and sizes too large for their field are refused, never wrapped. Statements only.
   This file holds the AML sites; the table sites are in the second half (one theorem per narrowing site). *)
From Coq Require Import NArith List.
From ACPI Require Import Lib.Bytes Lib.Sx Lib.Machine Impl.AmlCore Impl.AmlTerm Proofs.PkgLenP Proofs.PathP Proofs.DescP
  Proofs.RefuseP.
Import ListNotations.
Open Scope N_scope.

(* "md" ranges over both build profiles (Checked = overflow checks on, Wrapping = default release) in every statement *)

Theorem c18_package_elements :
  forall md ks, (255 < length ks)%nat -> enc md (TPackage ks) = None /\ enc md (TPkgBuilder ks) = None.
Proof. intros. split; [now apply package_refuses|now apply pkg_builder_refuses]. Qed.

Theorem c18_package_count_field :
  forall md ks b, enc md (TPackage ks) = Some b ->
    exists pl body, b = [0x12] ++ pl ++ N.of_nat (length ks) :: body /\ N.of_nat (length ks) <= 255.
Proof. exact package_count_agrees. Qed.

Theorem c18_method_arguments : forall md p args sr ks, 7 < args -> enc md (TMethod p args sr ks) = None.
Proof. exact method_refuses. Qed.

Theorem c18_arg_local : forall md n, (6 < n -> enc md (TArg n) = None) /\ (7 < n -> enc md (TLocal n) = None).
Proof. exact arg_local_refuse. Qed.

Theorem c18_name_segments :
  forall s p, path_new s = Some p -> (255 < length (p_parts p))%nat -> enc_path_text s = None.
Proof. exact path_text_refuses. Qed.

Theorem c18_pkg_length :
  forall md n (incl : bool), n < 2 ^ 63 -> 2 ^ 28 <= n + (if incl then pkg_ll n else 0) -> pkg_len md n incl = None.
Proof. exact pkg_len_refuse. Qed.

Theorem c18_framed_object :
  forall md op body, N.of_nat (length body) < 2 ^ 63 -> 2 ^ 28 <= N.of_nat (length body) + 4 ->
    2 ^ 20 <= N.of_nat (length body) -> framed md op body = None.
Proof. exact framed_refuses. Qed.

Theorem c18_address_range :
  forall w ty ca rw min max tr k m,
    (w = 16 /\ k = 2%nat /\ m = U16) \/ (w = 32 /\ k = 4%nat /\ m = U32) \/ (w = 64 /\ k = 8%nat /\ m = U64) ->
    max < min \/ m <= max - min + 1 -> enc_desc (DAddr w ty ca rw min max tr) = None.
Proof. exact addr_space_refuse. Qed.

Print Assumptions c18_package_elements.
Print Assumptions c18_package_count_field.
Print Assumptions c18_method_arguments.
Print Assumptions c18_arg_local.
Print Assumptions c18_name_segments.
Print Assumptions c18_pkg_length.
Print Assumptions c18_framed_object.
Print Assumptions c18_address_range.
