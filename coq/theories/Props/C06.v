(* C06 -- emitted AML parses back to exactly the term tree the caller built.  Statements only.
   The full statement is c06_roundtrip (stated over the whole term language, see DESIGN.md section 5 C06);
   the parts proved so far are listed below it. *)
From Coq Require Import NArith List.
From ACPI Require Import Lib.Bytes Lib.Sx Lib.Machine Impl.AmlCore Impl.AmlTerm Spec.AmlCoreS Spec.AmlTermS
  Proofs.AmlFrameP.
Import ListNotations.
Open Scope N_scope.

(* every length-delimited object: the PkgLength the code computes for a body makes the Spec's object splitter
   recover exactly that body and stop exactly at its end, whatever follows (all four widths, all body sizes) *)
Theorem c06_partial_frames :
  forall md body pl r,
    N.of_nat (length body) < 2 ^ 63 ->
    pkg_len md (N.of_nat (length body)) true = Some pl ->
    take_pkg (pl ++ body ++ r) = Some (body, r).
Proof. exact take_pkg_framed. Qed.

Print Assumptions c06_partial_frames.
