(* C06 -- emitted AML parses back to exactly the term tree the caller built.  Statements only.

   c06_roundtrip is the full parse-back statement for every tree over the constructors
     ZERO ONE ONES, integers (all five carrier types), strings, Path, field names, EISAName, Uuid, BufferData, Arg, Local,
     ObjectType SizeOf Return DeRefOf BufferTerm VarPackageTerm, the six comparisons, Store Notify ToBuffer ToInteger,
     the 17 binary operators, CreateField Mid, Name Device Scope Scope::raw Method PowerResource OpRegion Mutex Acquire
     Release MethodCall, Field (name, flags byte, field list of named / reserved entries), Package PackageBuilder,
     ResourceTemplate (a Buffer whose payload is its descriptors' bytes and the end tag), If Else While
   of any shape, depth and body size (all four PkgLength widths).  Well-formedness (Proofs/AmlRoundTrip.v [wf]) asks of a
   Field: access < 16, lock <= 1, update < 4, every named entry a NameSeg, every width < 2^28; of a ResourceTemplate: every
   child a bare descriptor.  A bare descriptor is not an AML object, so it is not a term of its own here (only a child of a
   ResourceTemplate); the descriptors' own layout is the subject of the C10 theorems. *)
From Coq Require Import NArith List.
From ACPI Require Import Lib.Bytes Lib.Sx Lib.Machine Impl.AmlCore Impl.AmlTerm Spec.AmlCoreS Spec.AmlTermS
  Proofs.AmlFrameP Proofs.AmlRoundTrip.
Import ListNotations.
Open Scope N_scope.

(* For every arity environment env (the only outside knowledge: how many arguments each invoked name takes), every
   well-formed term t, in term position or package-element position (el), in both build profiles: if the implementation
   model emits bytes b for t, then the tree [norm el t] exists and the Spec parser, given any fuel above the nesting depth,
   reads from b ++ r exactly that tree and stops exactly at r -- for every continuation r.  In particular (r = []) the
   bytes are consumed completely, and every length-delimited object ends exactly where its last child ends. *)
Theorem c06_roundtrip :
  forall env t el md b,
    wf env el t -> enc md t = Some b -> N.of_nat (length b) < 2 ^ 63 ->
    exists g, norm el t = Some g /\
              forall f, (depth t < f)%nat -> forall r, parse env f el (b ++ r) = Some (g, r).
Proof. intros env t. exact (roundtrip env t). Qed.

(* every length-delimited object: the PkgLength the code computes for a body makes the Spec's object splitter
   recover exactly that body and stop exactly at its end, whatever follows (all four widths, all body sizes) *)
Theorem c06_frames :
  forall md body pl r,
    N.of_nat (length body) < 2 ^ 63 ->
    pkg_len md (N.of_nat (length body)) true = Some pl ->
    take_pkg (pl ++ body ++ r) = Some (body, r).
Proof. exact take_pkg_framed. Qed.

(* non-vacuity: a nested tree (Device { Name(_HID, EISA) ; Method(1 arg){ If (Arg0 == 5) { Return (Local0) } } }) is
   well-formed, is emitted, and parses back *)
Definition c06_demo : term :=
  TDevice [95; 83; 66; 95; 46; 67; 79; 77; 49]
    [TName [95; 72; 73; 68] (TEisa [80; 78; 80; 48; 53; 48; 49]);
     TMethod [84; 69; 83; 84] 1 0 [TIf (TOp2 0 (TArg 0) (TInt 8 5)) [TOp1 2 (TLocal 0)]]].

Example c06_demo_parses :
  match enc Wrapping c06_demo with
  | Some b => parse (fun _ => O) 10 false b = option_map (fun g => (g, [])) (norm false c06_demo) /\ norm false c06_demo <> None
  | None => False
  end.
Proof. vm_compute. split; [reflexivity|discriminate]. Qed.

Print Assumptions c06_roundtrip.
Print Assumptions c06_frames.

(* ---------------------------------------------------------------------------------------------------------------------
   The encoder emits bytes (Proofs/EncBytesP.v).  Statements only. *)
From ACPI Require Import Proofs.FieldListP Proofs.EncBytesP.

(* In the model the encoder returns a list of natural numbers; in Rust it feeds a sink of u8.  This is the missing link:
   if every constructor argument that the encoder copies into its output as it stands is inside the range of the type it
   has in the crate's API -- [typed t]: the u8 arguments (a u8 integer, PowerResource level, Mutex sync level, OpRegion
   space, IO alignment/length, the four Register bytes) < 256; the bool arguments (Method serialized, Memory32Fixed and
   AddressSpace read_write, the four Interrupt flags) <= 1; Field access < 16, lock <= 1, update < 4; AddressSpace type one
   of the three constructors; strings, name texts, field names, named field entries and BufferData made of bytes -- then
   in both build profiles everything the encoder emits for t is a byte.  No hypothesis is needed for anything else: the
   other arguments go through a cast, a little-endian image, a mask, a PkgLength or a refusal before they reach the output.
   The check is decidable ([typed t] is [typedb t = true]). *)
Theorem c06_encoder_emits_bytes :
  forall md t b, typed t -> enc md t = Some b -> bytes_ok b = true.
Proof. exact enc_bytes_ok. Qed.

(* the pieces, each on its own: child lists, descriptors, field entries, PkgLength *)
Theorem c06_encoder_pieces_emit_bytes :
  (forall md ks b, Forall typed ks -> encs md ks = Some b -> bytes_ok b = true) /\
  (forall d b, typed_desc d -> enc_desc d = Some b -> bytes_ok b = true) /\
  (forall md e b, typed_fentry e -> enc_fentry md e = Some b -> bytes_ok b = true) /\
  (forall md len incl b, pkg_len md len incl = Some b -> bytes_ok b = true).
Proof. exact (conj encs_bytes_ok (conj enc_desc_bytes_ok (conj enc_fentry_bytes_ok pkg_len_bytes_ok))). Qed.

(* For the terms c06_roundtrip speaks about most of [typed] is already implied: a well-formed term is typed as soon as
   its strings and BufferData are made of bytes and the descriptors inside its ResourceTemplates are typed ([rawb t]). *)
Theorem c06_wellformed_is_typed :
  forall env el t, wf env el t -> rawb t = true -> typed t.
Proof. exact wf_raw_typed. Qed.

(* non-vacuity: the demo tree is typed and its encoding (both profiles) is a byte list; and the hypothesis is needed:
   a string with a 300 in it is well-formed, is not typed, and the 300 is emitted *)
Example c06_demo_typed :
  typed c06_demo /\
  match enc Wrapping c06_demo, enc Checked c06_demo with
  | Some b, Some b' => bytes_ok b = true /\ bytes_ok b' = true /\ b <> []
  | _, _ => False
  end.
Proof. vm_compute. repeat split; discriminate. Qed.

Example c06_typed_needed :
  typedb (TStr [300]) = false /\ enc Checked (TStr [300]) = Some [0x0D; 300; 0] /\ bytes_ok [0x0D; 300; 0] = false.
Proof. vm_compute. repeat split. Qed.

Print Assumptions c06_encoder_emits_bytes.
Print Assumptions c06_encoder_pieces_emit_bytes.
Print Assumptions c06_wellformed_is_typed.
