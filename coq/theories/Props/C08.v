(* C08 -- integer constants round-trip and use the narrowest AML encoding. Statements only. *)
From Coq Require Import NArith List.
From ACPI Require Import Lib.Bytes Lib.Sx Lib.Machine Impl.AmlCore Spec.AmlCoreS Proofs.IntP.
Import ListNotations.
Open Scope N_scope.

(* every 64-bit value decodes back to itself, whatever follows it in the stream *)
Theorem c08_roundtrip :
  forall n r, n < 2 ^ 64 -> int_decode (enc_u64 n ++ r) = Some (n, r).
Proof. intros n r H. rewrite enc_u64_spec. now apply int_decode_spec_int. Qed.

(* the emission is the specification's narrowest form: ZeroOp, OneOp, else the narrowest prefix *)
Theorem c08_narrowest :
  forall n, n < 2 ^ 64 -> enc_u64 n = spec_int n /\ length (enc_u64 n) = narrowest_len n.
Proof. intros n H. split; [apply enc_u64_spec|]. rewrite enc_u64_spec. now apply spec_int_narrowest. Qed.

(* the same value yields the same bytes through every integer type able to carry it *)
Theorem c08_type_independent :
  forall n,
    (n < 2 ^ 8 -> enc_u8 n = enc_u64 n) /\
    (n < 2 ^ 16 -> enc_u16 n = enc_u64 n) /\
    (n < 2 ^ 32 -> enc_u32 n = enc_u64 n) /\
    (n < 2 ^ 64 -> enc_usize n = enc_u64 n).
Proof.
  intros n. rewrite enc_u64_spec. repeat split; intros H.
  - now apply enc_u8_spec. - now apply enc_u16_spec. - now apply enc_u32_spec. - now apply enc_usize_spec.
Qed.

Example c08_examples :
  enc_u64 0 = [0] /\ enc_u64 1 = [1] /\ enc_u64 255 = [0x0A; 255] /\ enc_u64 256 = [0x0B; 0; 1] /\
  enc_u64 65536 = [0x0C; 0; 0; 1; 0] /\ enc_u64 4294967296 = [0x0E; 0; 0; 0; 0; 1; 0; 0; 0].
Proof. vm_compute. repeat split. Qed.

Print Assumptions c08_roundtrip.
Print Assumptions c08_narrowest.
Print Assumptions c08_type_independent.
