(* Spec layer for the AML kernels, written from ACPI 6.5 ch. 20 (AML grammar) and ch. 19.3.4 / 19.6.37 / 19.6.150:
   PkgLength decoder, integer constant decoder, NameString decoder, EISA id decompression, ToUUID order.
   Nothing here refers to the Impl model. *)
From Coq Require Import NArith List Bool.
From ACPI Require Import Lib.Bytes Lib.Sx.
Import ListNotations.
Open Scope N_scope.

(* ---- PkgLength := PkgLeadByte | <PkgLeadByte ByteData> | ... ; bits 7-6 follow-byte count;
        one-byte form: bits 5-0 value; otherwise bits 5-4 reserved zero, bits 3-0 least significant nibble *)
Definition pkg_decode (l : list N) : option (N * list N) :=
  match l with
  | [] => None
  | b0 :: r =>
      let reserved_clear := (b0 / 16) mod 4 =? 0 in
      let low := b0 mod 16 in
      match b0 / 64 with
      | 0 => Some (b0 mod 64, r)
      | 1 => match r with
             | b1 :: r' => if reserved_clear then Some (low + 16 * b1, r') else None
             | _ => None
             end
      | 2 => match r with
             | b1 :: b2 :: r' => if reserved_clear then Some (low + 16 * (b1 + 256 * b2), r') else None
             | _ => None
             end
      | _ => match r with
             | b1 :: b2 :: b3 :: r' =>
                 if reserved_clear then Some (low + 16 * (b1 + 256 * (b2 + 256 * b3)), r') else None
             | _ => None
             end
      end
  end.

(* largest value a PkgLength of w bytes can carry *)
Definition pkg_cap (w : nat) : N :=
  match w with 1%nat => 63 | 2%nat => 2 ^ 12 - 1 | 3%nat => 2 ^ 20 - 1 | _ => 2 ^ 28 - 1 end.

(* ---- integer constants: ZeroOp | OneOp | BytePrefix b | WordPrefix w | DWordPrefix d | QWordPrefix q *)
Definition int_decode (l : list N) : option (N * list N) :=
  match l with
  | 0x00 :: r => Some (0, r)
  | 0x01 :: r => Some (1, r)
  | 0x0A :: r => if Nat.ltb (length r) 1 then None else Some (unle (firstn 1 r), skipn 1 r)
  | 0x0B :: r => if Nat.ltb (length r) 2 then None else Some (unle (firstn 2 r), skipn 2 r)
  | 0x0C :: r => if Nat.ltb (length r) 4 then None else Some (unle (firstn 4 r), skipn 4 r)
  | 0x0E :: r => if Nat.ltb (length r) 8 then None else Some (unle (firstn 8 r), skipn 8 r)
  | _ => None
  end.

(* Spec-layer reference encoder (ACPI 6.5 20.2.3): the narrowest of the six forms *)
Definition spec_int (n : N) : list N :=
  if n =? 0 then [0x00] else if n =? 1 then [0x01]
  else if n <? 2 ^ 8 then 0x0A :: le 1 n
  else if n <? 2 ^ 16 then 0x0B :: le 2 n
  else if n <? 2 ^ 32 then 0x0C :: le 4 n
  else 0x0E :: le 8 n.

(* the narrowest encoding the grammar offers for a value *)
Definition narrowest_len (n : N) : nat :=
  if n <=? 1 then 1 else if n <? 2 ^ 8 then 2 else if n <? 2 ^ 16 then 3 else if n <? 2 ^ 32 then 5 else 9.

(* ---- NameString := <RootChar NamePath> | NamePath ; NamePath := NameSeg | DualNamePath | MultiNamePath *)
Definition is_lead_name_char (c : N) : bool := ((65 <=? c) && (c <=? 90)) || (c =? 95).
Definition is_name_char (c : N) : bool := is_lead_name_char c || ((48 <=? c) && (c <=? 57)).
Definition is_nameseg (s : list N) : bool :=
  match s with
  | [a; b; c; d] => is_lead_name_char a && is_name_char b && is_name_char c && is_name_char d
  | _ => false
  end.

Fixpoint take_segs (k : nat) (l : list N) : option (list (list N) * list N) :=
  match k with
  | O => Some ([], l)
  | S k' =>
      match l with
      | a :: b :: c :: d :: r =>
          if is_nameseg [a; b; c; d]
          then match take_segs k' r with Some (segs, rest) => Some ([a; b; c; d] :: segs, rest) | None => None end
          else None
      | _ => None
      end
  end.

(* returns (rooted, segments, rest); NullName and parent prefixes are not produced by the crate and are rejected *)
Definition name_decode (l : list N) : option (bool * list (list N) * list N) :=
  let '(root, l1) := match l with
                     | c :: r => if c =? 0x5C then (true, r) else (false, l)
                     | [] => (false, l)
                     end in
  match l1 with
  | [] => None
  | c :: r =>
      if c =? 0x2E then
        match take_segs 2 r with Some (s, rest) => Some (root, s, rest) | None => None end
      else if c =? 0x2F then
        match r with
        | n :: r' => if n =? 0 then None else
                     match take_segs (N.to_nat n) r' with Some (s, rest) => Some (root, s, rest) | None => None end
        | [] => None
        end
      else match take_segs 1 l1 with Some (s, rest) => Some (root, s, rest) | None => None end
  end.

(* the form the specification prescribes for k segments (l = the NamePath after an optional root char) *)
Definition name_prefix_ok (k : nat) (l : list N) : bool :=
  match l with
  | [] => false
  | c :: r =>
      if Nat.eqb k 1 then is_lead_name_char c
      else if Nat.eqb k 2 then c =? 0x2E
      else (c =? 0x2F) && match r with n :: _ => n =? N.of_nat k | [] => false end
  end.

(* ---- EISA id decompression (ACPI 6.5 19.3.4 / 6.1.5): the 32-bit value byte-swapped is
        0 c1(5) c2(5) c3(5) h1(4) h2(4) h3(4) h4(4), letters stored as ASCII - 0x40, hex digits upper-case *)
Definition hex_char (d : N) : N := if d <? 10 then 48 + d else 55 + d.
Definition eisa_decompress (v : N) : list N :=
  let x := unle (rev (le 4 v)) in     (* big-endian reading of the little-endian dword *)
  [ 0x40 + (x / 2 ^ 26) mod 32; 0x40 + (x / 2 ^ 21) mod 32; 0x40 + (x / 2 ^ 16) mod 32;
    hex_char ((x / 2 ^ 12) mod 16); hex_char ((x / 2 ^ 8) mod 16); hex_char ((x / 2 ^ 4) mod 16); hex_char (x mod 16) ].

Definition is_upper (c : N) : bool := (65 <=? c) && (c <=? 90).
Definition is_hex_upper (c : N) : bool := ((48 <=? c) && (c <=? 57)) || ((65 <=? c) && (c <=? 70)).
Definition valid_eisa (s : list N) : bool :=
  match s with
  | [a; b; c; h1; h2; h3; h4] => is_upper a && is_upper b && is_upper c
                                 && is_hex_upper h1 && is_hex_upper h2 && is_hex_upper h3 && is_hex_upper h4
  | _ => false
  end.

(* ---- ToUUID (ACPI 6.5 19.6.150): aabbccdd-eeff-gghh-iijj-kkllmmnnoopp -> dd cc bb aa ff ee hh gg ii jj kk ll mm nn oo pp.
        Back-conversion to the canonical lower-case string: *)
Definition hex_char_lower (d : N) : N := if d <? 10 then 48 + d else 87 + d.
Definition byte_hex (b : N) : list N := [hex_char_lower (b / 16); hex_char_lower (b mod 16)].
Definition uuid_to_string (b : list N) : list N :=
  let g i := byte_hex (nth i b 0) in
  g 3%nat ++ g 2%nat ++ g 1%nat ++ g 0%nat ++ [45] ++ g 5%nat ++ g 4%nat ++ [45] ++ g 7%nat ++ g 6%nat ++ [45]
    ++ g 8%nat ++ g 9%nat ++ [45] ++ g 10%nat ++ g 11%nat ++ g 12%nat ++ g 13%nat ++ g 14%nat ++ g 15%nat.

Definition is_hex_any (c : N) : bool :=
  ((48 <=? c) && (c <=? 57)) || ((65 <=? c) && (c <=? 70)) || ((97 <=? c) && (c <=? 102)).
Definition to_lower (c : N) : N := if (65 <=? c) && (c <=? 90) then c + 32 else c.
Definition canonical_uuid (s : list N) : bool :=
  Nat.eqb (length s) 36 &&
  forallb (fun i => if existsb (Nat.eqb i) [8; 13; 18; 23]%nat then nth i s 0 =? 45 else is_hex_any (nth i s 0)) (seq 0 36).

(* split off exactly the bytes covered by a PkgLength that starts at the head of [l]:
   returns (object body after the PkgLength bytes, rest after the object) *)
Definition take_pkg (l : list N) : option (list N * list N) :=
  match l with
  | [] => None
  | b0 :: _ =>
      match pkg_decode l with
      | Some (plen, r1) =>
          let pl_bytes := S (N.to_nat (b0 / 64)) in
          let body_len := (N.to_nat plen - pl_bytes)%nat in
          if Nat.ltb (N.to_nat plen) pl_bytes || Nat.ltb (length r1) body_len then None
          else Some (firstn body_len r1, skipn body_len r1)
      | None => None
      end
  end.

(* ---- Buffer := BufferOp PkgLength BufferSize ByteList *)
Definition buffer_decode (l : list N) : option (N * list N * list N) :=   (* declared size, payload, rest *)
  match l with
  | 0x11 :: r =>
      match take_pkg r with
      | Some (body, rest) =>
          match int_decode body with
          | Some (size, payload) => Some (size, payload, rest)
          | None => None
          end
      | None => None
      end
  | _ => None
  end.

(* ================= oracles: judge the IMPLEMENTATION's observations for a case ================= *)

Definition opt_eqb_Nl (a : option (N * list N)) (n : N) (r : list N) : bool :=
  match a with Some (m, r') => (m =? n) && list_N_eqb r' r | None => false end.

(* can a self-inclusive PkgLength represent a body of n bytes at all? *)
Definition pkg_representable (n : N) (incl : bool) : bool :=
  if incl then (n + 1 <=? pkg_cap 1) || (n + 2 <=? pkg_cap 2) || (n + 3 <=? pkg_cap 3) || (n + 4 <=? pkg_cap 4)
  else n <=? pkg_cap 4.

Definition pkg_lead_format_ok (e : list N) : bool :=
  match e with
  | [] => false
  | [b0] => b0 <? 64
  | b0 :: rest => (b0 / 64 =? N.of_nat (length rest)) && ((b0 / 16) mod 4 =? 0) && Nat.leb (length rest) 3
  end.

Definition pkg_minimal (n : N) (e : list N) : bool :=
  forallb (fun w => if Nat.ltb w (length e) then pkg_cap w <? n + N.of_nat w else true) [1; 2; 3]%nat.

(* C07 on component 2: case (n incl) *)
Definition pkglen_oracle (c : sx) (impl : list ev) : bool :=
  match c with
  | SL [SA n; SA i] =>
      let incl := negb (i =? 0) in
      match impl with
      | [EvBytes e] =>
          bytes_ok e &&
          opt_eqb_Nl (pkg_decode (e ++ [0xAA])) (n + (if incl then N.of_nat (length e) else 0)) [0xAA]
          && pkg_lead_format_ok e && (if incl then pkg_minimal n e else true)
      | [EvPanic] => negb (pkg_representable n incl)
      | _ => false
      end
  | _ => false
  end.

(* C18 on component 2: an unrepresentable length must be refused *)
Definition pkglen_oracle18 (c : sx) (impl : list ev) : bool :=
  match c with
  | SL [SA n; SA i] =>
      let incl := negb (i =? 0) in
      if pkg_representable n incl then true
      else match impl with [EvPanic] => true | _ => false end
  | _ => false
  end.

(* C08 on component 3: case (type value) *)
Definition int_oracle (c : sx) (impl : list ev) : bool :=
  match c, impl with
  | SL [SA _; SA n], [EvBytes e] => list_N_eqb e (spec_int n) && opt_eqb_Nl (int_decode e) n []
  | _, _ => false
  end.

(* C09 on component 4: case = the path text *)
Definition spec_split (s : list N) : list (list N) :=
  fold_right (fun c acc => if c =? 0x2E then [] :: acc
                           else match acc with x :: r => (c :: x) :: r | [] => [[c]] end) [[]] s.

Definition spec_path_form (root : bool) (parts : list (list N)) : list N :=
  (if root then [0x5C] else []) ++
  (match parts with [_] => [] | [_; _] => [0x2E] | _ => [0x2F; N.of_nat (length parts)] end) ++ concat parts.

Definition path_oracle (c : sx) (impl : list ev) : bool :=
  match sx_bytes c with
  | None => false
  | Some s =>
      let root := match s with ch :: _ => ch =? 0x5C | [] => false end in
      let parts := spec_split (if root then tl s else s) in
      if negb (forallb (fun p => Nat.eqb (length p) 4) parts) then
        match impl with [EvPanic] => true | _ => false end         (* malformed: must be refused *)
      else if Nat.ltb 255 (length parts) then
        match impl with [EvPanic] => true | _ => false end         (* count does not fit: must be refused *)
      else if forallb is_nameseg parts then
        match impl with
        | [EvBytes e] =>
            list_N_eqb e (spec_path_form root parts) &&
            match name_decode (e ++ [0xAA]) with
            | Some (rt, segs, rest) =>
                Bool.eqb rt root && list_N_eqb (concat segs) (concat parts) && Nat.eqb (length segs) (length parts)
                && list_N_eqb rest [0xAA]
            | None => false
            end
        | _ => false
        end
      else true                                                     (* not over the AML name alphabet: not judged *)
  end.

(* C16 on components 5 (EISA text) and 6 (UUID text) *)
Definition eisa_oracle (c : sx) (impl : list ev) : bool :=
  match sx_bytes c with
  | None => false
  | Some s =>
      if valid_eisa s then
        match impl with
        | [EvBytes e] =>
            match int_decode e with
            | Some (v, []) => (v <? 2 ^ 32) && list_N_eqb (eisa_decompress v) s
            | _ => false
            end
        | _ => false
        end
      else if negb (Nat.eqb (length s) 7) || negb (forallb is_hex_any (skipn 3 s)) then
        match impl with [EvPanic] => true | _ => false end
      else true
  end.

Definition uuid_oracle (c : sx) (impl : list ev) : bool :=
  match sx_bytes c with
  | None => false
  | Some s =>
      if canonical_uuid s then
        match impl with
        | [EvBytes e] =>
            match buffer_decode e with
            | Some (size, b, []) => (size =? 16) && Nat.eqb (length b) 16 && list_N_eqb (uuid_to_string b) (map to_lower s)
            | _ => false
            end
        | _ => false
        end
      else match impl with [EvPanic] => true | _ => false end      (* wrong length / separator / digit *)
  end.
