(* Spec layer for the PPTT (ACPI 6.5 5.2.30), written from SPEC_NOTES.md A.2.
   Case vocabulary (shared with the harness):
     ctor  (oem6 tbl8 orev)
     ops   (1 parent uid (builders))     add_processor(ProcessorNode::new(parent, uid) + builders) -> ProcessorHandle
                 parent    ()       ProcessorNode::new(None, uid)
                           (104 k)  ProcessorNode::new(Some(&handle returned by operation k), uid)     [k must be an add_processor]
                           n        ProcessorNode::new(None, uid) followed by node.parent = n            (pub field, raw number)
                 builders  (1) physical (2) valid (3) thread (4) leaf (5) identical
                           (6 (104 k)) add_cache(&handle returned by operation k)                        [k must be an add_cache]
                           (7 v) node.flags = v   (8 v) node.parent = v, v a number or (104 k)   (9 v) node.acpi_processor_id = v
           (2 (setters))                 add_cache(CacheNodeBuilder::default() + setters, to_node()) -> CacheHandle
                 setters   (1 v) size (2 v) sets (3 v) associativity (4 e) allocation_type (5 e) cache_type (6 e) write_policy
                           (7 v) line_size (8 v) id (9 (104 k)) next_level(&handle returned by operation k) [k must be an add_cache]
                 allocation_type 0 Read 1 Write 2 Both;  cache_type 0 Data 1 Instruction 2 Unified;  write_policy 0 Writeback 1 Writethrough
     every op reports the returned handle; (104 k) counts real operations from 0 (observations are not counted).
   In the reference a handle is the offset at which the entry added by operation k starts; a setter called several times
   leaves the value of its last call (and its flag bit set). *)
From Coq Require Import NArith List Bool.
From ACPI Require Import Lib.Bytes Lib.Sx Spec.Layout Spec.MadtS Spec.HmatS.
Import ListNotations.
Open Scope N_scope.

(* union, over every invocation (k v) of builder k, of v * scale *)
Fixpoint or_args (k scale : N) (setters : list sx) : N :=
  match setters with
  | [] => 0
  | SL [SA k'; SA v] :: r => if k' =? k then N.lor (v * scale) (or_args k scale r) else or_args k scale r
  | _ :: r => or_args k scale r
  end.

(* the entries laid out so far: (type code, start offset), most recent first, and their number *)
Definition placed := (list (N * N) * N)%type.

(* the start of the entry added by operation k, provided it has the expected type *)
Definition resolve (p : placed) (ty : N) (x : sx) : option N :=
  match x with
  | SL [SA 104; SA k] =>
      if k <? snd p then
        match nth_error (fst p) (N.to_nat (snd p - 1 - k)) with
        | Some (t, off) => if t =? ty then Some off else None
        | None => None
        end
      else None
  | _ => None
  end.

Fixpoint resolve_all (p : placed) (ty : N) (l : list sx) : option (list N) :=
  match l with
  | [] => Some []
  | x :: r => match resolve p ty x, resolve_all p ty r with Some h, Some hs => Some (h :: hs) | _, _ => None end
  end.

(* a parent / pub-field value: a number is taken verbatim *)
Definition resolve_or_raw (p : placed) (ty : N) (x : sx) : option N :=
  match x with SA v => if v <? 2 ^ 32 then Some v else None | _ => resolve p ty x end.

(* processor node: fold of the builders over (flags, parent, uid, resources most recent first) *)
Definition pstate := (N * N * N * list N)%type.

Definition proc_builder (p : placed) (st : pstate) (b : sx) : option pstate :=
  match st with
  | (flags, parent, uid, rres) =>
      match b with
      | SL [SA 1] => Some (N.lor flags 1, parent, uid, rres)
      | SL [SA 2] => Some (N.lor flags 2, parent, uid, rres)
      | SL [SA 3] => Some (N.lor flags 4, parent, uid, rres)
      | SL [SA 4] => Some (N.lor flags 8, parent, uid, rres)
      | SL [SA 5] => Some (N.lor flags 16, parent, uid, rres)
      | SL [SA 6; h] => match resolve p 1 h with Some c => Some (flags, parent, uid, c :: rres) | None => None end
      | SL [SA 7; SA v] => if v <? 2 ^ 32 then Some (v, parent, uid, rres) else None
      | SL [SA 8; x] => match resolve_or_raw p 0 x with Some v => Some (flags, v, uid, rres) | None => None end
      | SL [SA 9; SA v] => if v <? 2 ^ 32 then Some (flags, parent, v, rres) else None
      | _ => None
      end
  end.

Fixpoint proc_builders (p : placed) (st : pstate) (bs : list sx) : option pstate :=
  match bs with
  | [] => Some st
  | b :: r => match proc_builder p st b with Some st' => proc_builders p st' r | None => None end
  end.

Definition is_next_level (s : sx) : bool := match s with SL [SA 9; _] => true | _ => false end.
Fixpoint last_next_level (p : placed) (st : list sx) (acc : N) : option N :=
  match st with
  | [] => Some acc
  | SL [SA 9; h] :: r => match resolve p 1 h with Some c => last_next_level p r c | None => None end
  | _ :: r => last_next_level p r acc
  end.

Definition cache_setter_ok (s : sx) : bool :=
  match s with
  | SL [SA 1; SA v] | SL [SA 2; SA v] | SL [SA 8; SA v] => v <? 2 ^ 32
  | SL [SA 3; SA v] => v <? 2 ^ 8
  | SL [SA 4; SA e] | SL [SA 5; SA e] => e <? 3
  | SL [SA 6; SA e] => e <? 2
  | SL [SA 7; SA v] => v <? 2 ^ 16
  | SL [SA 9; _] => true
  | _ => false
  end.

Definition bit (b : bool) (v : N) : N := if b then v else 0.

Definition pptt_entry_ref (p : placed) (o : sx) : option (list N) :=
  match o with
  | SL [SA 1; parent; SA uid; SL bs] =>
      (* Processor Hierarchy Node *)
      match (match parent with SL [] => Some 0 | x => resolve_or_raw p 0 x end) with
      | Some par0 =>
          if uid <? 2 ^ 32 then
            match proc_builders p (0, par0, uid, []) bs with
            | Some (flags, par, id, rres) =>
                let n := length rres in
                if Nat.leb (20 + 4 * n) 255 then
                  lay_then 20 [L 0 1 0; L 1 1 (N.of_nat (20 + 4 * n)); L 2 2 0; L 4 4 flags; L 8 4 par; L 12 4 id; L 16 4 (N.of_nat n)]
                           (arr 4 (frev rres))
                else None
            | None => None
            end
          else None
      | None => None
      end
  | SL [SA 2; SL st] =>
      (* Cache Type Structure: a flag bit is set iff the corresponding value was supplied *)
      if forallb cache_setter_ok st then
        match last_next_level p st 0 with
        | Some next =>
            let flags := bit (called 1 st) 1 + bit (called 2 st) 2 + bit (called 3 st) 4 + bit (called 4 st) 8 + bit (called 5 st) 16
                         + bit (called 6 st) 32 + bit (called 7 st) 64 + bit (called 8 st) 128 in
            (* the three attribute builders OR their sub-field value into the byte: the field is the union of the values of
               all invocations (C11), not the last one *)
            let attrs := N.lor (N.lor (or_args 4 1 st) (or_args 5 4 st)) (or_args 6 16 st) in
            lay 28 [L 0 1 1; L 1 1 28; L 2 2 0; L 4 4 flags; L 8 4 next; L 12 4 (arg0 1 st); L 16 4 (arg0 2 st); L 20 1 (arg0 3 st);
                    L 21 1 attrs; L 22 2 (arg0 7 st); L 24 4 (arg0 8 st)]
        | None => None
        end
      else None
  | _ => None
  end.

(* lay the entries out one after the other from [next] *)
Fixpoint pptt_entries_from (ops : list sx) (p : placed) (next : N) (racc : list (list N)) : option (list (list N)) :=
  match ops with
  | [] => Some (frev racc)
  | o :: r =>
      match pptt_entry_ref p o with
      | Some e => pptt_entries_from r ((nth 0 e 0, next) :: fst p, snd p + 1) (next + N.of_nat (length e)) (e :: racc)
      | None => None
      end
  end.

Definition pptt_entries_ref (ops : list sx) : option (list (list N)) := pptt_entries_from ops ([], 0) 36 [].

Definition pptt_image (ctor : sx) (ops : list sx) : option (list N) :=
  match ctor with
  | SL [o; t; r] =>
      match sx_hdr_args o t r, pptt_entries_ref ops with
      | Some h, Some es => Some (ref_table [80; 80; 84; 84] 1 h (concat es))
      | _, _ => None
      end
  | _ => None
  end.

Definition pptt_spec : tspec := {|
  ts_image := pptt_image;
  ts_walk := Some (36%nat, H_u8_u8);
  ts_entries := fun _ ops => option_map (map (fun e => (nth 0 e 0, length e))) (pptt_entries_ref ops);
  ts_counts := fun _ => [];
  ts_returns := fun _ => true
|}.
