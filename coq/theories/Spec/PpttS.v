(* STUB: Spec layer for pptt -- to be written *)
From Coq Require Import NArith List.
From ACPI Require Import Lib.Bytes Lib.Sx Spec.Layout.
Import ListNotations.
Definition pptt_spec : tspec := null_spec.
