(* Spec layer, property C03, per-entry part: is an entry found by the body walk consistent WITH ITSELF?
   Written from SPEC_NOTES.md section A.2 only (no reference to the Rust code, to the Impl model, or to the per-table
   reference images of Spec/*S.v):
     - an entry of a type to which the specification assigns a fixed size has exactly that size;
     - in an entry of variable size every field that summarises it (element counts, array offsets, string lengths)
       agrees with the entry's own length (and, for strings, with the position of the terminating NUL);
     - an entry whose type code SPEC_NOTES.md does not list is not judged (true).
   Unlike `c03_judge` this needs no reference image: it is evaluated on every image the implementation emits, also
   for histories outside the domain of the reference (where `ts_entries = None` makes `c03_judge` accept anything). *)
From Coq Require Import NArith List Bool Arith.
From ACPI Require Import Lib.Bytes Lib.Sx Spec.Layout.
Import ListNotations.
Open Scope N_scope.

Definition lenN (e : list N) : N := N.of_nat (length e).

(* fixed-size types: the size the specification assigns (None: the type code is not listed) *)
Definition fixed_ok (sz : option nat) (e : list N) : bool :=
  match sz with Some n => Nat.eqb (length e) n | None => true end.

(* MADT interrupt controller structures (A.2) *)
Definition madt_size (ty : N) : option nat :=
  match ty with
  | 0 => Some 8%nat | 1 => Some 12%nat | 0xB => Some 82%nat | 0xC => Some 24%nat | 0xD => Some 24%nat | 0xE => Some 16%nat
  | 0xF => Some 20%nat | 0x18 => Some 36%nat | 0x19 => Some 16%nat | 0x1A => Some 36%nat | 0x1B => Some 36%nat
  | _ => None
  end.

(* SRAT: 1 memory affinity, 5 generic initiator, 7 RINTC affinity *)
Definition srat_size (ty : N) : option nat :=
  match ty with 1 => Some 40%nat | 5 => Some 32%nat | 7 => Some 20%nat | _ => None end.

(* VIOT: 1 PCI range, 2 MMIO endpoint, 3 virtio-pci IOMMU, 4 virtio-mmio IOMMU *)
Definition viot_size (ty : N) : option nat :=
  match ty with 1 => Some 24%nat | 2 => Some 24%nat | 3 => Some 16%nat | 4 => Some 16%nat | _ => None end.

(* HEST error sources: 6 / 7 / 8 AER root port / endpoint / bridge, 9 GHES, 10 GHESv2 *)
Definition hest_size (ty : N) : option nat :=
  match ty with 6 => Some 48%nat | 7 => Some 44%nat | 8 => Some 56%nat | 9 => Some 64%nat | 10 => Some 92%nat | _ => None end.

(* CFMWS: encoded number of interleave ways (ENIW) 0,1,2,3,4,8,9,10 <-> 1,2,4,8,16,3,6,12 ways *)
Definition eniw_ways (eniw : N) : option N :=
  match eniw with
  | 0 => Some 1 | 1 => Some 2 | 2 => Some 4 | 3 => Some 8 | 4 => Some 16 | 8 => Some 3 | 9 => Some 6 | 10 => Some 12
  | _ => None
  end.

(* the byte at offset [off] (an N, e.g. computed from a field of the entry) *)
Definition byte_at (e : list N) (off : N) : N := field_at e (N.to_nat off) 1.

(* HMAT (header type u16, res u16, length u32) *)
Definition hmat_self (ty : N) (e : list N) : bool :=
  match ty with
  | 0 => Nat.eqb (length e) 40                                   (* memory proximity domain attributes *)
  | 1 => let i := field_at e 12 4 in let t := field_at e 16 4 in (* system locality: I initiators, T targets, I*T u16 entries *)
         lenN e =? 32 + 4 * i + 4 * t + 2 * (i * t)
  | 2 => lenN e =? 32 + 2 * field_at e 30 2                      (* memory side cache: n SMBIOS handles (u16) *)
  | _ => true
  end.

(* PPTT (type u8, length u8) *)
Definition pptt_self (ty : N) (e : list N) : bool :=
  match ty with
  | 0 => lenN e =? 20 + 4 * field_at e 16 4                      (* processor: n private resources (u32) *)
  | 1 => Nat.eqb (length e) 28                                   (* cache *)
  | _ => true
  end.

(* RHCT (type u16, length u16, revision u16) *)
Definition rhct_self (ty : N) (e : list N) : bool :=
  match ty with
  | 0 => let s := field_at e 6 2 in                              (* ISA string: s = string length including the NUL *)
         (1 <=? s) && (lenN e =? 8 + s + s mod 2)                (* 8 + s, padded to an even size *)
         && (byte_at e (7 + s) =? 0)                             (* the last counted byte is the NUL *)
  | 1 => Nat.eqb (length e) 10                                   (* CMO *)
  | 2 => Nat.eqb (length e) 8                                    (* MMU *)
  | 0xFFFF => lenN e =? 12 + 4 * field_at e 6 2                  (* hart info: k offsets (u32) *)
  | _ => true
  end.

(* RIMT (type u8, revision u8, length u16, id u16) *)
Definition rimt_self (ty : N) (e : list N) : bool :=
  match ty with
  | 0 => (lenN e =? 32 + 8 * field_at e 28 2) && (field_at e 30 2 =? 32)     (* IOMMU: w wires of 8 bytes from offset 32 *)
  | 1 => (lenN e =? 16 + 20 * field_at e 14 2) && (field_at e 12 2 =? 16)    (* PCIe RC: m mappings of 20 bytes from offset 16 *)
  | 2 => let mo := field_at e 8 2 in                                         (* platform: name from 12, NUL, mappings from mo *)
         (13 <=? mo) && (lenN e =? mo + 20 * field_at e 10 2) && (byte_at e (mo - 1) =? 0)
  | _ => true
  end.

(* CEDT (type u8, res u8, length u16) *)
Definition cedt_self (ty : N) (e : list N) : bool :=
  match ty with
  | 0 => Nat.eqb (length e) 32                                   (* CHBS *)
  | 1 => match eniw_ways (field_at e 24 1) with                  (* CFMWS: one 4-byte target per interleave way *)
         | Some niw => lenN e =? 36 + 4 * niw
         | None => false
         end
  | 2 => lenN e =? 8 + 8 * field_at e 7 1                        (* CXIMS: n xormaps (u64) *)
  | 3 => Nat.eqb (length e) 17                                   (* RDPAS, as laid out *)
  | _ => true
  end.

(* HEST: the size by type, and the notification structure embedded in a generic hardware error source (offset 32)
   carries its own length, 28, at its byte 1 *)
Definition hest_self (ty : N) (e : list N) : bool :=
  fixed_ok (hest_size ty) e
  && match ty with 9 | 10 => field_at e 33 1 =? 28 | _ => true end.

(* RQSC controller (type u8, res u8, length u16): 28 fixed bytes, then resources, each with the header (type u8, res u8,
   length u16): stepping through the rest of the controller by each resource's own length lands exactly on the controller's
   end and finds ResourceCount (26+2) resources.  (The size of a resource is not judged beyond that: the caller can hand the
   crate a vendor-specific resource id of any length under any id type code.) *)
Definition rqsc_controller_self (e : list N) : bool :=
  Nat.leb 28 (length e)
  && match walk (S (length e)) H_u8_x_u16 28 (skipn 28 e) with
     | Some found => N.of_nat (length found) =? field_at e 26 2
     | None => false
     end.

(* component ids as in Judge.v: 10 XSDT 11 MCFG 12 MADT 13 SRAT 15 HMAT 16 PPTT 17 RHCT 18 RIMT 19 VIOT 20 CEDT 21 HEST 22 RQSC *)
Definition entry_self_ok (comp ty : N) (e : list N) : bool :=
  match comp with
  | 10 => Nat.eqb (length e) 8
  | 11 => Nat.eqb (length e) 16
  | 12 => fixed_ok (madt_size ty) e
  | 13 => fixed_ok (srat_size ty) e
  | 15 => hmat_self ty e
  | 16 => pptt_self ty e
  | 17 => rhct_self ty e
  | 18 => rimt_self ty e
  | 19 => fixed_ok (viot_size ty) e
  | 20 => cedt_self ty e
  | 21 => hest_self ty e
  | 22 => match ty with 0 | 1 => rqsc_controller_self e | _ => true end
  | _ => true
  end.

(* every entry found by the walk, cut out of the body in walk order (linear in the size of the body) *)
Fixpoint self_all (comp : N) (found : list (N * nat * nat)) (rest : list N) : bool :=
  match found with
  | [] => true
  | (ty, _, len) :: r => entry_self_ok comp ty (firstn len rest) && self_all comp r (skipn len rest)
  end.

(* the walk from the table's first-entry offset succeeds (so it lands exactly on the end of the image) and every entry it
   finds is self-consistent; a table without a walker has no variable body: true *)
Definition c03_self_at (w : option (nat * ehdr)) (comp : N) (img : list N) : bool :=
  match w with
  | None => true
  | Some (first, h) =>
      Nat.leb first (length img)          (* the fixed part before the first entry is there *)
      && match walk (S (length img)) h first (skipn first img) with
         | Some found => self_all comp found (skipn first img)
         | None => false
         end
  end.
