(* STUB: Spec layer for rqsc -- to be written *)
From Coq Require Import NArith List.
From ACPI Require Import Lib.Bytes Lib.Sx Spec.Layout.
Import ListNotations.
Definition rqsc_spec : tspec := null_spec.
