(* Spec layer for the RQSC (RISC-V QoS controller table), written from SPEC_NOTES.md A.2:
     36+4 ControllerCount; controllers from 40; the table Length counts those 4 bytes.
     Controller (28 + sum of its resources): 0 Type (0 capacity, 1 bandwidth), 1 res, 2+2 Length, 4+12 RegisterInterface (GAS),
       16+4 RCIDCount, 20+4 MCIDCount, 24+2 Flags, 26+2 ResourceCount, then the resources.
     Resource (20 + extra): 0 Type (0 cache, 1 memory), 1 res, 2+2 Length, 4+2 Flags, 6 res, 7 IDType (0 cache, 1 memory
       affinity, 2 ACPI device, 3 PCI device, other vendor), 8+8 ID1, 16+4 ID2, 20 specific data (memory affinity: 8-byte raw
       bandwidth per block; vendor: the caller's bytes from offset 8 on).

   Case vocabulary of component 22 (shared with harness/src/t_rqsc.rs and Impl/Rqsc.v):
     ctor  (oem6 tbl8 orev)
     op    (1 ctype gas rcid mcid flags (resource ...))
              add_controller(QoSController::new(ctype, gas, rcid, mcid, flags) + add_resource(resource) for each, in order)
           ctype   0 ControllerType::Capacity, 1 Bandwidth          gas: see Spec/GasS.v
     resource  (rtype rflags resource-id) = ResourceStructure::new(rtype, rflags, resource-id);  rtype 0 ResourceType::Cache, 1 Memory
     resource-id  (0 cache_id)             ResourceID::Cache(CacheResource::new(cache_id))
                  (1 proximity_domain bw)  ResourceID::MemoryAffinityStructure(MemoryAffinityStructureResource::new(pd, bw))
                  (2 hid uid)              ResourceID::ACPIDevice(ACPIDeviceResource::new(hid, uid))
                  (3 bdf)                  ResourceID::PCIDevice(PCIDeviceResource::new(bdf))
                  (4 idtype bytes)         ResourceID::VendorSpecific(idtype, bytes)
   Every op emits one Num 0.
   Outside the domain (reference = None): an enum value that does not exist, a scalar that does not fit its argument type,
   a vendor-specific id whose type code is one of the four standard ones (0..3) or whose bytes do not cover ID1 and ID2
   (fewer than 12 bytes: the resource would be shorter than the 20-byte fixed part), a resource or controller whose length
   does not fit its 16-bit Length field, more than 65535 resources. *)
From Coq Require Import NArith List Bool.
From ACPI Require Import Lib.Bytes Lib.Sx Spec.Layout Spec.GasS.
Import ListNotations.
Open Scope N_scope.

(* (IDType, ID1 ++ ID2 ++ specific data) *)
Definition resid_ref (s : sx) : option (N * list N) :=
  match s with
  | SL [SA 0; SA cache_id] => if cache_id <? 2 ^ 32 then Some (0, le 8 cache_id ++ le 4 0) else None
  | SL [SA 1; SA pd; SA bw] => if (pd <? 2 ^ 32) && (bw <? 2 ^ 64) then Some (1, le 8 pd ++ le 4 0 ++ le 8 bw) else None
  | SL [SA 2; SA hid; SA uid] => if (hid <? 2 ^ 64) && (uid <? 2 ^ 32) then Some (2, le 8 hid ++ le 4 uid) else None
  | SL [SA 3; SA bdf] => if bdf <? 2 ^ 32 then Some (3, le 8 bdf ++ le 4 0) else None
  | SL [SA 4; SA ty; b] =>
      match sx_bytes b with
      | Some bs => if (4 <=? ty) && (ty <? 256) && forallb (fun x => x <? 256) bs && Nat.leb 12 (length bs)
                   then Some (ty, bs) else None
      | None => None
      end
  | _ => None
  end.

Definition resource_ref (s : sx) : option (list N) :=
  match s with
  | SL [SA rtype; SA rflags; id] =>
      match resid_ref id with
      | Some (idtype, rest) =>
          let len := (8 + length rest)%nat in
          if (rtype <? 2) && (rflags <? 65536) && (N.of_nat len <? 65536) then
            (* the fixed fields by offset; ID1, ID2 and the specific data follow as one byte string *)
            option_map (fun fixed => fixed ++ rest)
                       (lay 8 [L 0 1 rtype; L 1 1 0; L 2 2 (N.of_nat len); L 4 2 rflags; L 6 1 0; L 7 1 idtype])
          else None
      | None => None
      end
  | _ => None
  end.

Definition controller_ref (o : sx) : option (list N) :=
  match o with
  | SL [SA 1; SA ctype; g; SA rcid; SA mcid; SA flags; SL res] =>
      match gas_ref g, opt_seq (map resource_ref res) with
      | Some gb, Some rs =>
          let body := concat rs in
          let len := (28 + length body)%nat in
          if (ctype <? 2) && (rcid <? 2 ^ 32) && (mcid <? 2 ^ 32) && (flags <? 65536)
             && (N.of_nat len <? 65536) && (N.of_nat (length rs) <? 65536) then
            (* the 28 fixed bytes by offset; the resources follow *)
            option_map (fun fixed => fixed ++ body)
                       (lay 28 ([L 0 1 ctype; L 1 1 0; L 2 2 (N.of_nat len)] ++ LB 4 gb ++
                                [L 16 4 rcid; L 20 4 mcid; L 24 2 flags; L 26 2 (N.of_nat (length rs))]))
          else None
      | _, _ => None
      end
  | _ => None
  end.

Definition rqsc_entries_ref (ops : list sx) : option (list (list N)) := opt_seq (map controller_ref ops).

Definition rqsc_image (ctor : sx) (ops : list sx) : option (list N) :=
  match ctor with
  | SL [o; t; r] =>
      match sx_hdr_args o t r, rqsc_entries_ref ops with
      | Some h, Some es =>
          if N.of_nat (length es) <? 2 ^ 32
          then Some (ref_table [82; 81; 83; 67] 1 h (le 4 (N.of_nat (length es)) ++ concat es))
          else None
      | _, _ => None
      end
  | _ => None
  end.

Definition rqsc_spec : tspec := {|
  ts_image := rqsc_image;
  ts_walk := Some (40%nat, H_u8_x_u16);
  ts_entries := fun _ ops => option_map (map (fun e => (nth 0 e 0, length e))) (rqsc_entries_ref ops);
  ts_counts := fun n => [(36%nat, 4%nat, N.of_nat n)];
  ts_returns := fun _ => false
|}.
