(* Spec layer, SLIT shape (property C03 for the table without self-describing entries), from SPEC_NOTES.md A.2:
   36+8 NumberOfLocalities; then L*L one-byte entries, Entry[i][j] at 44 + i*L + j.
   The judgement on an image built with `localities` = n: it is 36 + 8 + n*n bytes long and its count field holds n
   (so the body from offset 44 is exactly n rows of n one-byte cells). *)
From Coq Require Import NArith List Bool.
From ACPI Require Import Lib.Bytes Lib.Sx Spec.Layout.
Import ListNotations.
Open Scope N_scope.

Definition slit_shape_judge (ctor : sx) (img : list N) : bool :=
  match ctor with
  | SL [_; _; _; SA n] => (N.of_nat (length img) =? 36 + 8 + n * n) && (field_at img 36 8 =? n)
  | _ => true
  end.
