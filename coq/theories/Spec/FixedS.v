(* Spec layer helpers for the fixed-size tables: layouts written with table-absolute offsets (as in SPEC_NOTES.md A.1)
   and the tspec of a table without a variable body.  Nothing here refers to the Impl model. *)
From Coq Require Import NArith List Bool Arith.
From ACPI Require Import Lib.Bytes Lib.Sx Spec.Layout.
Import ListNotations.
Open Scope N_scope.

(* checked assembly of the part of a table that starts at absolute offset [off] and is [size] bytes long *)
Definition lay_at (off size : nat) (l : layout) : option (list N) :=
  if layout_ok_from off l && Nat.eqb (layout_size l) size then Some (assemble l) else None.

Definition fixed_spec (image : sx -> list sx -> option (list N)) : tspec := {|
  ts_image := image; ts_walk := None; ts_entries := fun _ _ => None; ts_counts := fun _ => []; ts_returns := fun _ => false |}.

(* a table whose only public operation is its constructor: any operation is outside the specification's domain *)
Definition ctor_only (image : sx -> option (list N)) (ctor : sx) (ops : list sx) : option (list N) :=
  match ops with [] => image ctor | _ => None end.

(* the k-th argument of the last call of setter [k] in a history of operations ((opcode args...) ...) *)
Fixpoint last_call (k : N) (ops : list sx) (acc : option (list N)) : option (list N) :=
  match ops with
  | [] => acc
  | SL (SA k' :: args) :: r => last_call k r (if k' =? k then sx_nums args else acc)
  | _ :: r => last_call k r acc
  end.
Definition argn (k : N) (i : nat) (ops : list sx) : N :=
  match last_call k ops None with Some l => nth i l 0 | None => 0 end.
Definition was_called (k : N) (ops : list sx) : bool :=
  existsb (fun o => match o with SL (SA k' :: _) => k' =? k | _ => false end) ops.
Definition bit (b : bool) (v : N) : N := if b then v else 0.
