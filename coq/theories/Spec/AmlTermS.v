(* Spec layer for AML objects: an independent parser following the ACPI 6.5 AML grammar (ch. 20.2) driven by an
   opcode table written from the specification, reference encodings of the resource descriptors (ch. 6.4), and the
   tree the parser must recover for a given tree of crate constructors.  Nothing here refers to the Impl model.

   Case vocabulary of component 40 (one term per case; t = nested term, p = path text as bytes, (ts) = list of terms):
     (1) ZERO (2) ONE (3) ONES (4 ty n) integer carried by u8/u16/u32/u64/usize (ty 8 16 32 64 0)
     (5 bytes) &str (6 bytes) String (7 p) Path (8 bytes) Name::new_field_name (9 text) EISAName (10 text) Uuid
     (11 bytes) BufferData (12 n) Arg (13 n) Local
     (20 rw base len) Memory32Fixed
     (21 width ty cacheable rw min max (trans?)) AddressSpace<u16|u32|u64>; ty 0 memory 1 io 2 bus; cacheable 0..3
     (22 min max align len) IO  (23 consumer edge active_low shared number) Interrupt
     (24 space width offset access addr) Register(GAS::new(..))
     (30 k t) k: 0 ObjectType 1 SizeOf 2 Return 3 DeRefOf 4 BufferTerm 5 VarPackageTerm
     (31 k a b) k: 0 Equal 1 LessThan 2 GreaterThan 3 NotEqual 4 GreaterEqual 5 LessEqual (left,right);
                   6 Store(name,value) 7 Notify(object,value) 8 ToBuffer(target,a) 9 ToInteger(target,a)
     (32 k target a b) k: 0 Add 1 Concat 2 Subtract 3 Multiply 4 ShiftLeft 5 ShiftRight 6 And 7 Nand 8 Or 9 Nor 10 Xor
                   11 ConcatRes 12 Mod 13 Index 14 ToString 15 CreateDWordField 16 CreateQWordField
     (33 k a b c d) k: 0 CreateField(name,source,bit_index,bit_num) 1 Mid(source,index,length,result)
     (40 p t) Name (41 p (ts)) Device (42 p (ts)) Scope (43 p (ts)) Scope::raw (44 p args serialized (ts)) Method
     (45 p level order (ts)) PowerResource (46 p space offset length) OpRegion (47 p sync) Mutex (48 p timeout) Acquire
     (49 p) Release (50 p (ts)) MethodCall (51 p access lock update (entries)) Field; entry (0 name4 len) | (1 len)
     (60 (ts)) Package (61 (ts)) PackageBuilder (62 (ts)) ResourceTemplate (63 pred (ts)) If (64 (ts)) Else (65 pred (ts)) While *)
From Coq Require Import NArith List Bool Arith.
From ACPI Require Import Lib.Bytes Lib.Sx Spec.AmlCoreS.
Import ListNotations.
Open Scope N_scope.

(* ------------------------------------------------------------------ parsed trees *)
Inductive gt :=
| GInt (n : N)
| GStr (s : list N)
| GOnes
| GArg (n : N) | GLocal (n : N)
| GName (root : bool) (segs : list (list N))                 (* a NameString in name / reference position *)
| GCall (root : bool) (segs : list (list N)) (args : list gt) (* a NameString in term position with its arguments *)
| GBuffer (size : gt) (data : list N)
| GNum (n : N)                                               (* raw ByteData / WordData item *)
| GField (name : list N) (len : N)                           (* field list entry; name = [] for a reserved field *)
| GOp (code : N) (fixed : list gt) (kids : list gt).         (* any other operator: fixed operands, then the list *)

(* ------------------------------------------------------------------ opcode table (ACPI 6.5 20.3) *)
Inductive okind := KName | KByte | KWord | KTerm.
Inductive lmode := LNone | LTerms | LElems | LFields.
Record opinfo := { oi_framed : bool; oi_items : list okind; oi_list : lmode }.

Definition mk (f : bool) (i : list okind) (l : lmode) := {| oi_framed := f; oi_items := i; oi_list := l |}.

(* codes: one-byte opcodes as themselves; ExtOpPrefix 0x5B xx as 0x5B00 + xx; LNotOp 0x92 followed by a comparison as 0x9200 + xx *)
Definition op_table (code : N) : option opinfo :=
  match code with
  | 0x08 => Some (mk false [KName; KTerm] LNone)                    (* DefName *)
  | 0x10 => Some (mk true [KName] LTerms)                           (* DefScope *)
  | 0x12 => Some (mk true [KByte] LElems)                           (* DefPackage *)
  | 0x13 => Some (mk true [KTerm] LElems)                           (* DefVarPackage *)
  | 0x14 => Some (mk true [KName; KByte] LTerms)                    (* DefMethod *)
  | 0x5B01 => Some (mk false [KName; KByte] LNone)                  (* DefMutex *)
  | 0x5B13 => Some (mk false [KTerm; KTerm; KTerm; KTerm] LNone)    (* DefCreateField: SourceBuff BitIndex NumBits NameString *)
  | 0x5B23 => Some (mk false [KName; KWord] LNone)                  (* DefAcquire *)
  | 0x5B27 => Some (mk false [KName] LNone)                         (* DefRelease *)
  | 0x5B80 => Some (mk false [KName; KByte; KTerm; KTerm] LNone)    (* DefOpRegion *)
  | 0x5B81 => Some (mk true [KName; KByte] LFields)                 (* DefField *)
  | 0x5B82 => Some (mk true [KName] LTerms)                         (* DefDevice *)
  | 0x5B84 => Some (mk true [KName; KByte; KWord] LTerms)           (* DefPowerRes *)
  | 0x70 => Some (mk false [KTerm; KTerm] LNone)                    (* DefStore: TermArg SuperName *)
  | 0x72 | 0x73 | 0x74 | 0x77 | 0x79 | 0x7A | 0x7B | 0x7C | 0x7D | 0x7E | 0x7F | 0x84 | 0x85 | 0x88 | 0x9C | 0x8A | 0x8F =>
      Some (mk false [KTerm; KTerm; KTerm] LNone)                   (* Operand Operand Target *)
  | 0x83 | 0x87 | 0x8E | 0xA4 => Some (mk false [KTerm] LNone)      (* DerefOf SizeOf ObjectType Return *)
  | 0x86 => Some (mk false [KTerm; KTerm] LNone)                    (* DefNotify *)
  | 0x93 | 0x94 | 0x95 | 0x9293 | 0x9294 | 0x9295 => Some (mk false [KTerm; KTerm] LNone)
  | 0x96 | 0x99 => Some (mk false [KTerm; KTerm] LNone)             (* ToBuffer ToInteger: Operand Target *)
  | 0x9E => Some (mk false [KTerm; KTerm; KTerm; KTerm] LNone)      (* DefMid *)
  | 0xA0 | 0xA2 => Some (mk true [KTerm] LTerms)                    (* DefIfElse (the Else is a sibling object), DefWhile *)
  | 0xA1 => Some (mk true [] LTerms)                                (* DefElse *)
  | _ => None
  end.

Definition name_key := (bool * list (list N))%type.
Definition arity_env := name_key -> nat.

Definition is_name_lead (b : N) : bool := is_lead_name_char b || (b =? 0x5C) || (b =? 0x2E) || (b =? 0x2F).

Fixpoint take_string (l : list N) (acc : list N) : option (list N * list N) :=
  match l with
  | [] => None
  | c :: r => if c =? 0 then Some (frev acc, r) else take_string r (c :: acc)
  end.

(* The parser is written in open-recursion style: the sub-parsers take the parser for nested objects as a parameter,
   [parse_step] is one (non-recursive) layer of the grammar, and [parse] ties the knot on a fuel argument. *)
Definition pfun := bool -> list N -> option (gt * list N).   (* elems flag: package element position *)

(* exactly k TermArgs *)
Fixpoint parse_n (p : pfun) (k : nat) (l : list N) : option (list gt * list N) :=
  match k with
  | O => Some ([], l)
  | S k' => match p false l with
            | Some (t, r) => match parse_n p k' r with Some (ts, r') => Some (t :: ts, r') | None => None end
            | None => None
            end
  end.

(* a list of objects that must consume the whole of [l]; [n] bounds the number of objects (by the byte count) *)
Fixpoint parse_all (p : pfun) (n : nat) (el : bool) (l : list N) : option (list gt) :=
  match l with
  | [] => Some []
  | _ => match n with
         | O => None
         | S n' => match p el l with
                   | Some (t, r) => match parse_all p n' el r with Some ts => Some (t :: ts) | None => None end
                   | None => None
                   end
         end
  end.

(* FieldList := NamedField | ReservedField ...; lengths use the PkgLength encoding without self-inclusion *)
Fixpoint parse_fields (n : nat) (l : list N) : option (list gt) :=
  match l with
  | [] => Some []
  | b :: r =>
      match n with
      | O => None
      | S n' =>
          if b =? 0 then
            match pkg_decode r with
            | Some (len, r') => match parse_fields n' r' with Some fs => Some (GField [] len :: fs) | None => None end
            | None => None
            end
          else match l with
               | a :: b2 :: c :: d :: r4 =>
                   if is_nameseg [a; b2; c; d] then
                     match pkg_decode r4 with
                     | Some (len, r') => match parse_fields n' r' with Some fs => Some (GField [a; b2; c; d] len :: fs) | None => None end
                     | None => None
                     end
                   else None
               | _ => None
               end
      end
  end.

Fixpoint parse_items (p : pfun) (ks : list okind) (l : list N) : option (list gt * list N) :=
  match ks with
  | [] => Some ([], l)
  | KName :: ks' =>
      match name_decode l with
      | Some (rt, segs, r) => match parse_items p ks' r with Some (its, r') => Some (GName rt segs :: its, r') | None => None end
      | None => None
      end
  | KByte :: ks' =>
      match l with
      | b :: r => match parse_items p ks' r with Some (its, r') => Some (GNum b :: its, r') | None => None end
      | [] => None
      end
  | KWord :: ks' =>
      match l with
      | b0 :: b1 :: r => match parse_items p ks' r with Some (its, r') => Some (GNum (b0 + 256 * b1) :: its, r') | None => None end
      | _ => None
      end
  | KTerm :: ks' =>
      match p false l with
      | Some (t, r) => match parse_items p ks' r with Some (its, r') => Some (t :: its, r') | None => None end
      | None => None
      end
  end.

(* opcode selection: ExtOpPrefix and LNot-comparison pairs are folded into one code *)
Definition op_code (b : N) (r : list N) : N * list N :=
  match r with
  | b2 :: r2 =>
      if b =? 0x5B then (0x5B00 + b2, r2)
      else if (b =? 0x92) && ((b2 =? 0x93) || (b2 =? 0x94) || (b2 =? 0x95)) then (0x9200 + b2, r2)
      else (b, r)
  | [] => (b, r)
  end.

Definition parse_op (p : pfun) (code : N) (r0 : list N) : option (gt * list N) :=
  match op_table code with
  | None => None
  | Some oi =>
      if oi_framed oi then
        match take_pkg r0 with
        | Some (body, rest) =>
            match parse_items p (oi_items oi) body with
            | Some (its, body') =>
                match (match oi_list oi with
                       | LNone => match body' with [] => Some [] | _ => None end
                       | LTerms => parse_all p (length body') false body'
                       | LElems => parse_all p (length body') true body'
                       | LFields => parse_fields (length body') body'
                       end) with
                | Some kids => Some (GOp code its kids, rest)
                | None => None
                end
            | None => None
            end
        | None => None
        end
      else
        match parse_items p (oi_items oi) r0 with
        | Some (its, rest) => Some (GOp code its [], rest)
        | None => None
        end
  end.

(* one layer of the grammar; [p] parses nested objects *)
Definition parse_step (env : arity_env) (p : pfun) (elems : bool) (l : list N) : option (gt * list N) :=
  match l with
  | [] => None
  | b :: r =>
      if (b =? 0x00) || (b =? 0x01) || (b =? 0x0A) || (b =? 0x0B) || (b =? 0x0C) || (b =? 0x0E) then
        match int_decode l with Some (n, r') => Some (GInt n, r') | None => None end
      else if b =? 0xFF then Some (GOnes, r)
      else if b =? 0x0D then match take_string r [] with Some (s, r') => Some (GStr s, r') | None => None end
      else if (0x60 <=? b) && (b <=? 0x67) then Some (GLocal (b - 0x60), r)
      else if (0x68 <=? b) && (b <=? 0x6E) then Some (GArg (b - 0x68), r)
      else if is_name_lead b then
        match name_decode l with
        | Some (rt, segs, r') =>
            if elems then Some (GName rt segs, r')
            else match parse_n p (env (rt, segs)) r' with
                 | Some (args, r'') => Some (GCall rt segs args, r'')
                 | None => None
                 end
        | None => None
        end
      else if b =? 0x11 then                                   (* DefBuffer := BufferOp PkgLength BufferSize ByteList *)
        match take_pkg r with
        | Some (body, rest) =>
            match p false body with
            | Some (size, data) => Some (GBuffer size data, rest)
            | None => None
            end
        | None => None
        end
      else let cr := op_code b r in parse_op p (fst cr) (snd cr)
  end.

Fixpoint parse (env : arity_env) (fuel : nat) : pfun :=
  match fuel with
  | O => fun _ _ => None
  | S f => parse_step env (parse env f)
  end.

(* ------------------------------------------------------------------ reference descriptor encodings (ACPI 6.5 6.4) *)
Definition ref_small (tag : N) (payload : list N) : list N := tag :: payload.
Definition ref_large (tag : N) (payload : list N) : list N := tag :: le 2 (N.of_nat (length payload)) ++ payload.

Definition ref_desc (l : list sx) : option (list N) :=
  match l with
  | [SA 20; SA rw; SA base; SA len] => Some (ref_large 0x86 ([rw] ++ le 4 base ++ le 4 len))
  | [SA 21; SA w; SA ty; SA ca; SA rw; SA min; SA max; tr] =>
      let wd := match w with 16 => Some (0x88, 2%nat) | 32 => Some (0x87, 4%nat) | 64 => Some (0x8A, 8%nat) | _ => None end in
      match wd, (match tr with SL [] => Some 0 | SL [SA t] => Some (if ty =? 2 then 0 else t) | _ => None end) with
      | Some (tag, k), Some t =>
          if (max <? min) || negb (max - min + 1 <? 2 ^ (8 * N.of_nat k)) then None     (* range size must be representable *)
          else
            let tflags := match ty with 0 => ca * 2 + rw | 1 => 3 | _ => 0 end in
            Some (ref_large tag ([ty; 0x0C; tflags] ++ le k 0 ++ le k min ++ le k max ++ le k t ++ le k (max - min + 1)))
      | _, _ => None
      end
  | [SA 22; SA min; SA max; SA al; SA len] => Some (ref_small 0x47 ([1] ++ le 2 min ++ le 2 max ++ [al; len]))
  | [SA 23; SA c; SA e; SA a; SA s; SA n] => Some (ref_large 0x89 ([c + 2 * e + 4 * a + 8 * s; 1] ++ le 4 n))
  | [SA 24; SA sp; SA w; SA o; SA ac; SA ad] => Some (ref_large 0x82 ([sp; w; o; ac] ++ le 8 ad))
  | _ => None
  end.

(* walk a resource template payload by the items' own length fields: returns the (tag, payload) list *)
Fixpoint rd_walk (fuel : nat) (l : list N) : option (list (N * list N)) :=
  match l with
  | [] => Some []
  | tag :: r =>
      match fuel with
      | O => None
      | S f =>
          if tag <? 0x80 then                                       (* small item: 0 tttt lll *)
            let n := N.to_nat (tag mod 8) in
            if Nat.ltb (length r) n then None
            else match rd_walk f (skipn n r) with Some rest => Some ((tag, firstn n r) :: rest) | None => None end
          else                                                      (* large item: 1 ttttttt, u16 length *)
            match r with
            | a :: b :: r2 =>
                let n := N.to_nat (a + 256 * b) in
                if Nat.ltb (length r2) n then None
                else match rd_walk f (skipn n r2) with Some rest => Some ((tag, firstn n r2) :: rest) | None => None end
            | _ => None
            end
      end
  end.

(* ------------------------------------------------------------------ the tree a case must parse to *)
Definition spec_eisa_value (s : list N) : option N :=
  match s with
  | [c0; c1; c2; h3; h4; h5; h6] =>
      let hv c := if (48 <=? c) && (c <=? 57) then Some (c - 48) else if (65 <=? c) && (c <=? 70) then Some (c - 55)
                  else if (97 <=? c) && (c <=? 102) then Some (c - 87) else None in
      match hv h3, hv h4, hv h5, hv h6 with
      | Some d3, Some d4, Some d5, Some d6 =>
          if valid_eisa [c0; c1; c2; 48; 48; 48; 48] then
            let x := (c0 - 64) * 2 ^ 26 + (c1 - 64) * 2 ^ 21 + (c2 - 64) * 2 ^ 16 + d3 * 2 ^ 12 + d4 * 2 ^ 8 + d5 * 2 ^ 4 + d6 in
            Some (unle (frev (le 4 x)))
          else None
      | _, _, _, _ => None
      end
  | _ => None
  end.

Definition spec_uuid_bytes (s : list N) : option (list N) :=
  if canonical_uuid s then
    let hv c := if (48 <=? c) && (c <=? 57) then c - 48 else if (65 <=? c) && (c <=? 70) then c - 55 else c - 87 in
    let byte i := 16 * hv (nth i s 0) + hv (nth (S i) s 0) in
    Some (map byte [6; 4; 2; 0; 11; 9; 16; 14; 19; 21; 24; 26; 28; 30; 32; 34]%nat)
  else None.

(* independent splitting of a path text *)
Definition spec_path (s : list N) : option (bool * list (list N)) :=
  let root := match s with ch :: _ => ch =? 0x5C | [] => false end in
  let parts := spec_split (if root then tl s else s) in
  if forallb is_nameseg parts && Nat.leb (length parts) 255 then Some (root, parts) else None.

Fixpoint expect (elems : bool) (s : sx) {struct s} : option gt :=
  let expects := fix expects (el : bool) (l : list sx) : option (list gt) :=
                   match l with
                   | [] => Some []
                   | x :: r => match expect el x, expects el r with Some a, Some b => Some (a :: b) | _, _ => None end
                   end in
  let name_of (p : sx) : option gt :=
    match sx_bytes p with Some t => match spec_path t with Some (rt, segs) => Some (GName rt segs) | None => None end | None => None end in
  let op (code : N) (fixed : list (option gt)) (kids : option (list gt)) : option gt :=
    match opt_all fixed, kids with Some f, Some k => Some (GOp code f k) | _, _ => None end in
  match s with
  | SA _ => None
  | SL l =>
    match l with
    | [SA 1] => Some (GInt 0) | [SA 2] => Some (GInt 1) | [SA 3] => Some GOnes
    | [SA 4; SA ty; SA n] => Some (GInt n)
    | [SA 5; b] | [SA 6; b] =>
        match sx_bytes b with Some t => if forallb (fun c => (1 <=? c) && (c <=? 0x7F)) t then Some (GStr t) else None | None => None end
    | [SA 7; p] =>
        match sx_bytes p with
        | Some t => match spec_path t with
                    | Some (rt, segs) => Some (if elems then GName rt segs else GCall rt segs [])
                    | None => None end
        | None => None end
    | [SA 8; b] =>
        match sx_bytes b with
        | Some t => if is_nameseg t then Some (if elems then GName false [t] else GCall false [t] []) else None
        | None => None end
    | [SA 9; b] => match sx_bytes b with Some t => option_map GInt (spec_eisa_value t) | None => None end
    | [SA 10; b] => match sx_bytes b with Some t => option_map (GBuffer (GInt 16)) (spec_uuid_bytes t) | None => None end
    | [SA 11; b] => match sx_bytes b with Some t => Some (GBuffer (GInt (N.of_nat (length t))) t) | None => None end
    | [SA 12; SA n] => if n <=? 6 then Some (GArg n) else None
    | [SA 13; SA n] => if n <=? 7 then Some (GLocal n) else None
    | [SA 30; SA k; a] =>
        match k with
        | 0 => op 0x8E [expect false a] (Some []) | 1 => op 0x87 [expect false a] (Some [])
        | 2 => op 0xA4 [expect false a] (Some []) | 3 => op 0x83 [expect false a] (Some [])
        | 4 => match expect false a with Some sz => Some (GBuffer sz []) | None => None end
        | 5 => op 0x13 [expect false a] (Some [])
        | _ => None
        end
    | [SA 31; SA k; a; b] =>
        match k with
        | 0 => op 0x93 [expect false a; expect false b] (Some []) | 1 => op 0x95 [expect false a; expect false b] (Some [])
        | 2 => op 0x94 [expect false a; expect false b] (Some []) | 3 => op 0x9293 [expect false a; expect false b] (Some [])
        | 4 => op 0x9295 [expect false a; expect false b] (Some []) | 5 => op 0x9294 [expect false a; expect false b] (Some [])
        | 6 => op 0x70 [expect false b; expect false a] (Some [])          (* Store(name, value): value then name *)
        | 7 => op 0x86 [expect false a; expect false b] (Some [])
        | 8 => op 0x96 [expect false b; expect false a] (Some [])          (* ToBuffer(target, a): a then target *)
        | 9 => op 0x99 [expect false b; expect false a] (Some [])
        | _ => None
        end
    | [SA 32; SA k; t; a; b] =>
        match nth_error [0x72; 0x73; 0x74; 0x77; 0x79; 0x7A; 0x7B; 0x7C; 0x7D; 0x7E; 0x7F; 0x84; 0x85; 0x88; 0x9C; 0x8A; 0x8F] (N.to_nat k) with
        | Some code => op code [expect false a; expect false b; expect false t] (Some [])
        | None => None
        end
    | [SA 33; SA 0; nm; src; bi; bn] => op 0x5B13 [expect false src; expect false bi; expect false bn; expect false nm] (Some [])
    | [SA 33; SA 1; a; b; c; d] => op 0x9E [expect false a; expect false b; expect false c; expect false d] (Some [])
    | [SA 40; p; i] => op 0x08 [name_of p; expect false i] (Some [])
    | [SA 41; p; SL ks] => op 0x5B82 [name_of p] (expects false ks)
    | [SA 42; p; SL ks] | [SA 43; p; SL ks] => op 0x10 [name_of p] (expects false ks)
    | [SA 44; p; SA ar; SA sr; SL ks] =>
        if (ar <=? 7) && (sr <=? 1) then op 0x14 [name_of p; Some (GNum (ar + 8 * sr))] (expects false ks) else None
    | [SA 45; p; SA lv; SA od; SL ks] => op 0x5B84 [name_of p; Some (GNum lv); Some (GNum od)] (expects false ks)
    | [SA 46; p; SA sp; o; ln] => op 0x5B80 [name_of p; Some (GNum sp); expect false o; expect false ln] (Some [])
    | [SA 47; p; SA sy] => op 0x5B01 [name_of p; Some (GNum sy)] (Some [])
    | [SA 48; p; SA tm] => op 0x5B23 [name_of p; Some (GNum tm)] (Some [])
    | [SA 49; p] => op 0x5B27 [name_of p] (Some [])
    | [SA 50; p; SL ks] =>
        match sx_bytes p with
        | Some t => match spec_path t, expects false ks with
                    | Some (rt, segs), Some args => if elems && negb (Nat.eqb (length args) 0) then None else
                                                    Some (if elems then GName rt segs else GCall rt segs args)
                    | _, _ => None end
        | None => None end
    | [SA 51; p; SA ac; SA lk; SA up; SL es] =>
        let fe (e : sx) : option gt :=
          match e with
          | SL [SA 0; nm; SA len] => match sx_bytes nm with Some n => if is_nameseg n && (len <? 2 ^ 28) then Some (GField n len) else None | None => None end
          | SL [SA 1; SA len] => if len <? 2 ^ 28 then Some (GField [] len) else None
          | _ => None
          end in
        if (ac <=? 5) && (lk <=? 1) && (up <=? 2)
        then op 0x5B81 [name_of p; Some (GNum (ac + 16 * lk + 32 * up))] (opt_all (map fe es)) else None
    | [SA 60; SL ks] | [SA 61; SL ks] =>
        if Nat.leb (length ks) 255 then op 0x12 [Some (GNum (N.of_nat (length ks)))] (expects true ks) else None
    | [SA 62; SL ks] =>
        match opt_all (map (fun d => match d with SL dl => ref_desc dl | SA _ => None end) ks) with
        | Some ds => let payload := concat ds ++ [0x79; 0x00] in Some (GBuffer (GInt (N.of_nat (length payload))) payload)
        | None => None
        end
    | [SA 63; pr; SL ks] => op 0xA0 [expect false pr] (expects false ks)
    | [SA 64; SL ks] => op 0xA1 [] (expects false ks)
    | [SA 65; pr; SL ks] => op 0xA2 [expect false pr] (expects false ks)
    | _ => None
    end
  end.

(* ------------------------------------------------------------------ oracles *)
Fixpoint gt_eqb (a b : gt) {struct a} : bool :=
  let all2 := fix all2 (x y : list gt) : bool :=
                match x, y with
                | [], [] => true
                | p :: x', q :: y' => gt_eqb p q && all2 x' y'
                | _, _ => false
                end in
  let segs_eqb (x y : list (list N)) : bool := list_N_eqb (concat x) (concat y) && Nat.eqb (length x) (length y) in
  match a, b with
  | GInt n, GInt m => n =? m
  | GStr s, GStr t => list_N_eqb s t
  | GOnes, GOnes => true
  | GArg n, GArg m => n =? m
  | GLocal n, GLocal m => n =? m
  | GName r s, GName r' s' => Bool.eqb r r' && segs_eqb s s'
  | GCall r s x, GCall r' s' y => Bool.eqb r r' && segs_eqb s s' && all2 x y
  | GBuffer sz d, GBuffer sz' d' => gt_eqb sz sz' && list_N_eqb d d'
  | GNum n, GNum m => n =? m
  | GField nm l, GField nm' l' => list_N_eqb nm nm' && (l =? l')
  | GOp c f k, GOp c' f' k' => (c =? c') && all2 f f' && all2 k k'
  | _, _ => false
  end.

(* arities of the methods a case invokes: the only outside knowledge the parser is given *)
Fixpoint calls_of (s : sx) {struct s} : list (name_key * nat) :=
  match s with
  | SA _ => []
  | SL l =>
      let sub := (fix sub (l : list sx) : list (name_key * nat) :=
                    match l with [] => [] | x :: r => calls_of x ++ sub r end) l in
      match l with
      | [SA 50; p; SL ks] =>
          match sx_bytes p with
          | Some t => match spec_path t with Some key => (key, length ks) :: sub | None => sub end
          | None => sub
          end
      | _ => sub
      end
  end.

Definition key_eqb (a b : name_key) : bool :=
  Bool.eqb (fst a) (fst b) && list_N_eqb (concat (snd a)) (concat (snd b)) && Nat.eqb (length (snd a)) (length (snd b)).

Definition env_of (c : sx) : arity_env :=
  let tbl := calls_of c in
  fun k => match find (fun e => key_eqb (fst e) k) tbl with Some e => snd e | None => O end.

(* every name is invoked with one arity only *)
Definition env_consistent (c : sx) : bool :=
  let tbl := calls_of c in
  forallb (fun e => forallb (fun e' => negb (key_eqb (fst e) (fst e')) || Nat.eqb (snd e) (snd e')) tbl) tbl.

(* C06 on component 40: the crate's bytes parse completely to the expected tree *)
Definition c06_oracle (c : sx) (impl : list ev) : bool :=
  match expect false c with
  | None => true                                    (* outside the domain of well-formed trees: not judged here *)
  | Some g =>
      if negb (env_consistent c) then true else
      match impl with
      | [EvBytes b] =>
          match parse (env_of c) (S (length b)) false b with
          | Some (g', []) => gt_eqb g g'
          | _ => false
          end
      | _ => false                                  (* a well-formed tree was refused *)
      end
  end.

(* C10 on component 40: a descriptor alone is its reference encoding; a template is a Buffer whose declared size is its
   payload, tiled exactly by the descriptors' own length fields and closed by the end tag *)
Definition c10_oracle (c : sx) (impl : list ev) : bool :=
  match c with
  | SL (SA 62 :: [SL ks]) =>
      match opt_all (map (fun d => match d with SL dl => ref_desc dl | SA _ => None end) ks), impl with
      | Some ds, [EvBytes b] =>
          match buffer_decode b with
          | Some (size, payload, []) =>
              (size =? N.of_nat (length payload)) &&
              match rd_walk (S (length payload)) payload with
              | Some items =>
                  Nat.eqb (length items) (S (length ds)) &&
                  list_N_eqb payload (concat ds ++ [0x79; 0x00]) &&
                  match last items (0, []) with (tg, pl) => (tg =? 0x79) && list_N_eqb pl [0] end
              | None => false
              end
          | _ => false
          end
      | Some _, _ => false
      | None, _ => true
      end
  | SL l =>
      match ref_desc l, impl with
      | Some r, [EvBytes b] =>
          list_N_eqb b r &&
          match rd_walk 2 b with Some [(_, _)] => true | _ => false end      (* the length field covers exactly the payload *)
      | Some _, _ => false
      | None, _ => true
      end
  | _ => true
  end.

(* C15 on component 41: case (A B), two constructions of the same object: identical bytes *)
Definition c15_oracle (c : sx) (impl : list ev) : bool :=
  match impl with
  | [EvBytes a; EvBytes b] => list_N_eqb a b
  | [EvPanic] => match c with SL [x; _] => match expect false x with Some _ => false | None => true end | _ => false end
  | [EvBytes _; EvPanic] => false      (* one construction path emitted what the other refused: the paths disagree *)
  | _ => false
  end.

(* ------------------------------------------------------------------ C18: caller-controlled counts / sizes that do not fit *)
Definition path_too_long (p : sx) : bool :=
  match sx_bytes p with
  | Some t => let root := match t with ch :: _ => ch =? 0x5C | [] => false end in
              Nat.ltb 255 (length (spec_split (if root then tl t else t)))
  | None => false
  end.

(* does some element count, argument count, length or range size of the tree exceed what its encoded field can hold? *)
Fixpoint oversize (s : sx) {struct s} : bool :=
  match s with
  | SA _ => false
  | SL l =>
      let any := (fix any (l : list sx) : bool := match l with [] => false | x :: r => oversize x || any r end) in
      match l with
      | [SA 7; p] => path_too_long p
      | [SA 11; b] => match sx_bytes b with Some t => 2 ^ 28 <=? N.of_nat (length t) | None => false end
      | [SA 21; SA w; _; _; _; SA min; SA max; _] => (max <? min) || (2 ^ w <=? max - min + 1)
      | [SA 44; p; SA ar; _; SL ks] => path_too_long p || (7 <? ar) || any ks
      | [SA 51; p; _; _; _; SL es] =>
          path_too_long p || existsb (fun e => match e with
                                               | SL [SA 0; _; SA len] | SL [SA 1; SA len] => 2 ^ 28 <=? len
                                               | _ => false end) es
      | [SA 60; SL ks] | [SA 61; SL ks] => Nat.ltb 255 (length ks) || any ks
      | SA 40 :: p :: r | SA 41 :: p :: r | SA 42 :: p :: r | SA 43 :: p :: r | SA 45 :: p :: r | SA 46 :: p :: r
      | SA 47 :: p :: r | SA 48 :: p :: r | SA 49 :: p :: r | SA 50 :: p :: r => path_too_long p || any r
      | _ => any l
      end
  end.

(* C18 on components 40 / 4 / 2: an oversize input must be refused, in whichever build profile produced [impl] *)
Definition c18_aml_oracle (c : sx) (impl : list ev) : bool :=
  if oversize c then match impl with [EvPanic] => true | _ => false end else true.
