(* STUB: Spec layer for slit -- to be written *)
From Coq Require Import NArith List.
From ACPI Require Import Lib.Bytes Lib.Sx Spec.Layout.
Import ListNotations.
Definition slit_spec : tspec := null_spec.
