(* Spec layer for the SLIT (ACPI 6.5 5.2.17), written from SPEC_NOTES.md A.2.
   Case vocabulary (shared with the harness):
     ctor  (oem6 tbl8 orev localities)       SLIT::new(oem_id, oem_table_id, oem_revision, localities)
     ops   (1 a b v)                         set_distance(a, b, v)      (returns nothing: reports 0)
   Reference: 36+8 NumberOfLocalities, then localities^2 bytes, Entry[i][j] at 44 + i * localities + j.
   The matrix is abstract: cell (i, j) and cell (j, i) hold the last value assigned to the unordered pair {i, j}, 10 if never assigned. *)
From Coq Require Import NArith List Bool.
From ACPI Require Import Lib.Bytes Lib.Sx Spec.Layout Spec.MadtS Spec.HmatS.
Import ListNotations.
Open Scope N_scope.

(* last value assigned to the unordered pair {i, j} *)
Fixpoint last_pair (i j : N) (ops : list sx) (acc : N) : N :=
  match ops with
  | [] => acc
  | SL [SA 1; SA a; SA b; SA v] :: r =>
      last_pair i j r (if ((a =? i) && (b =? j)) || ((a =? j) && (b =? i)) then v else acc)
  | _ :: r => last_pair i j r acc
  end.

Definition slit_op_ok (n : N) (o : sx) : bool :=
  match o with
  | SL [SA 1; SA a; SA b; SA v] => (a <? n) && (b <? n) && (v <? 256)
  | _ => false
  end.

Definition slit_image (ctor : sx) (ops : list sx) : option (list N) :=
  match ctor with
  | SL [o; t; r; SA n] =>
      match sx_hdr_args o t r with
      | Some h =>
          (* the matrix must fit the 32-bit Length field *)
          if (44 + n * n <? 2 ^ 32) && forallb (slit_op_ok n) ops then
            let cells := flat_map (fun i => map (fun j => last_pair i j ops 10) (seqN n)) (seqN n) in
            Some (ref_table [83; 76; 73; 84] 1 h (le 8 n ++ cells))
          else None
      | None => None
      end
  | _ => None
  end.

Definition slit_spec : tspec := {|
  ts_image := slit_image;
  ts_walk := None;
  ts_entries := fun _ _ => None;
  ts_counts := fun _ => [];
  ts_returns := fun _ => false
|}.
