(* STUB: Spec layer for facs -- to be written *)
From Coq Require Import NArith List.
From ACPI Require Import Lib.Bytes Lib.Sx Spec.Layout.
Import ListNotations.
Definition facs_spec : tspec := null_spec.
