(* Spec layer for the FACS (ACPI 6.5 5.2.10, Table 5.12), written from SPEC_NOTES.md A.1 (64 bytes, no standard header, no
   checksum).
   Case vocabulary (shared with the harness, component 29, and Impl/Facs.v):
     ctor  ()                        FACS::new()
     ops   (10 k v)                  f.<k-th assignable public field> = (v as uN).into(); emits one Num 0; repetitions allowed,
                                     the last writer of a field wins
     The assignable public fields: every `pub` field of struct FACS except signature and length (the structure's identity: a
     caller overwriting them is outside the properties), numbered k in declaration order; the two reserved arrays are private.
        k  field                offset width        (ACPI 6.5 name)
        0  hardware_signature      8     4          Hardware Signature
        1  waking                 12     4          Firmware Waking Vector
        2  lock                   16     4          Global Lock
        3  flags                  20     4          Flags
        4  x_waking               24     8          X Firmware Waking Vector
        5  version                32     1          Version                (FACS::new() sets 1)
        6  ospm_flags             36     4          OSPM Flags
     Domain: the value fits the field (v < 2^(8 width)).
     observation `1`: the structure is serialised. *)
From Coq Require Import NArith List Bool.
From ACPI Require Import Lib.Bytes Lib.Sx Spec.Layout Spec.FixedS.
Import ListNotations.
Open Scope N_scope.

(* for every offset at which a field starts, the value last written there: association list (offset, value), newest write
   first; a field never written holds 0, except Version (offset 32), which the constructor sets to 1 (crate-chosen) *)
Definition facs_vals := list (N * N).

Definition facs_vals0 : facs_vals := [(32, 1)].

Fixpoint facs_val (v : facs_vals) (off : N) : N :=
  match v with
  | [] => 0
  | (o, x) :: r => if o =? off then x else facs_val r off
  end.

(* (offset, width) of assignable field k *)
Definition facs_scalars : list (N * nat) :=
  [(8, 4%nat) (* Hardware Signature *); (12, 4%nat) (* Firmware Waking Vector *); (16, 4%nat) (* Global Lock *);
   (20, 4%nat) (* Flags *); (24, 8%nat) (* X Firmware Waking Vector *); (32, 1%nat) (* Version *); (36, 4%nat) (* OSPM Flags *)].

Definition facs_apply (v : facs_vals) (o : sx) : option facs_vals :=
  match o with
  | SL [SA 10; SA k; SA x] =>
      match nth_error facs_scalars (N.to_nat k) with
      | Some (off, w) => if x <? 2 ^ (8 * N.of_nat w) then Some ((off, x) :: v) else None
      | None => None
      end
  | _ => None
  end.

Fixpoint facs_fold (v : facs_vals) (ops : list sx) : option facs_vals :=
  match ops with
  | [] => Some v
  | o :: r => match facs_apply v o with Some v' => facs_fold v' r | None => None end
  end.

Definition facs_layout (v : facs_vals) : layout :=
  LB 0 [70; 65; 67; 83] ++                                               (* "FACS" *)
  [L 4 4 64;                                                             (* Length *)
   L 8 4 (facs_val v 8) (* Hardware Signature *); L 12 4 (facs_val v 12) (* Firmware Waking Vector *);
   L 16 4 (facs_val v 16) (* Global Lock *); L 20 4 (facs_val v 20) (* Flags *);
   L 24 8 (facs_val v 24);                                               (* X Firmware Waking Vector *)
   L 32 1 (facs_val v 32);                                               (* Version *)
   L 33 3 0 (* reserved *); L 36 4 (facs_val v 36) (* OSPM Flags *); L 40 24 0 (* reserved *)].

Definition facs_ref_image (ctor : sx) (ops : list sx) : option (list N) :=
  match ctor with
  | SL [] =>
      match facs_fold facs_vals0 ops with
      | Some v => lay 64 (facs_layout v)
      | None => None
      end
  | _ => None
  end.

Definition facs_spec : tspec := fixed_spec facs_ref_image.
