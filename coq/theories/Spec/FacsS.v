(* Spec layer for the FACS (ACPI 6.5 5.2.10), written from SPEC_NOTES.md A.1 (64 bytes, no standard header, no checksum).
   Case vocabulary (shared with the harness, component 29):
     ctor  ()                        FACS::new()
     ops   none (observations only) *)
From Coq Require Import NArith List Bool.
From ACPI Require Import Lib.Bytes Lib.Sx Spec.Layout Spec.FixedS.
Import ListNotations.
Open Scope N_scope.

Definition facs_ref (ctor : sx) : option (list N) :=
  match ctor with
  | SL [] =>
      lay 64 (LB 0 [70; 65; 67; 83] ++                 (* "FACS" *)
              [L 4 4 64;                               (* Length *)
               L 8 4 0; L 12 4 0; L 16 4 0; L 20 4 0;  (* HardwareSignature FirmwareWakingVector GlobalLock Flags *)
               L 24 8 0;                               (* XFirmwareWakingVector *)
               L 32 1 1;                               (* Version (crate) *)
               L 33 3 0; L 36 4 0; L 40 24 0])         (* reserved, OSPMFlags, reserved *)
  | _ => None
  end.

Definition facs_spec : tspec := fixed_spec (ctor_only facs_ref).
