(* Spec layer for the CEDT (CXL Early Discovery Table, CXL 3.0 9.17.1), written from SPEC_NOTES.md A.0 / A.2
   (table revision 1 is crate-defined).
   Case vocabulary (shared with Impl/Cedt.v and harness/src/t_cedt.rs), component 20; every op reports 0:
     ctor  (oem6 tbl8 orev)
     ops   (1 uid version base)                                      add_host_bridge(CxlHostBridge::new(uid, version, base))
           (2 base size arith gran ways qtg (builder ...) (target ...))
                                                                     add_fixed_memory(CxlFixedMemory::new(base, size, arith, gran, ways, qtg)
                                                                       .builder()... ; add_target(t)...)
           (3 gran (xormap ...))                                     add_xor_interleave_math(XorInterleaveMath::new(gran); add_xormap(x)...)
           (4 segment bus device function protocol base)             add_port_association(PortAssociation::new(..))
     version  CxlVersion:            0 Cxl1_1, 1 Cxl2
     arith    InterleaveArithmetic:  0 Modulo, 1 ModuloXor
     gran     InterleaveGranularity: 0 256b, 1 512b, 2 1kb, 3 2kb, 4 4kb, 5 8kb, 6 16kb            (HBIG)
     ways     InterleaveWays, numbered by the encoded value (ENIW): 0 Ways1, 1 Ways2, 2 Ways4, 3 Ways8, 4 Ways16, 8 Ways3, 9 Ways6, 10 Ways12
     builder  (1) cxl_type_2_memory  (2) cxl_type_3_memory  (3) volatile  (4) persistent  (5) fixed_configuration
              applied in the order given, repetitions allowed
     target   4 bytes ([u8; 4]);  xormap = u64
     protocol ProtocolType:          0 CxlIo, 1 CxlMem
   Out of the domain (ts_image = None): number of targets <> number of ways, more than 255 xormaps, device >= 32, function >= 8. *)
From Coq Require Import NArith List Bool Arith.
From ACPI Require Import Lib.Bytes Lib.Sx Spec.Layout Spec.RimtS.
Import ListNotations.
Open Scope N_scope.

(* ENIW <-> number of ways: 0,1,2,3,4,8,9,10 <-> 1,2,4,8,16,3,6,12 *)
Definition cedt_ways (eniw : N) : option nat :=
  match eniw with
  | 0 => Some 1%nat | 1 => Some 2%nat | 2 => Some 4%nat | 3 => Some 8%nat | 4 => Some 16%nat
  | 8 => Some 3%nat | 9 => Some 6%nat | 10 => Some 12%nat
  | _ => None
  end.

(* was builder [k] invoked at least once? *)
Definition cedt_invoked (k : N) (builders : list sx) : bool :=
  existsb (fun b => match b with SL [SA k'] => k' =? k | _ => false end) builders.

(* 32+2 Restrictions: b0 type-2, b1 type-3, b2 volatile, b3 persistent, b4 fixed config *)
Definition cedt_restrictions (builders : list sx) : N :=
  (if cedt_invoked 1 builders then 1 else 0) + (if cedt_invoked 2 builders then 2 else 0) + (if cedt_invoked 3 builders then 4 else 0)
  + (if cedt_invoked 4 builders then 8 else 0) + (if cedt_invoked 5 builders then 16 else 0).

Definition cedt_builders_ok (builders : list sx) : bool :=
  forallb (fun b => match b with SL [SA k] => (1 <=? k) && (k <=? 5) | _ => false end) builders.

Definition cedt_target (t : sx) : option (list N) :=
  match sx_bytes t with Some b => if Nat.eqb (length b) 4 then Some b else None | None => None end.

Definition cedt_entry_ref (o : sx) : option (list N) :=
  match o with
  | SL [SA 1; SA uid; SA ver; SA base] =>
      (* 0 CHBS (32): 4+4 UID, 8+4 CXLVersion (0: 1.1, 1: 2.0), 12+4 res, 16+8 Base, 24+8 Length (0x2000 | 0x10000) *)
      match (match ver with 0 => Some 0x2000 | 1 => Some 0x10000 | _ => None end) with
      | Some len => lay 32 [L 0 1 0; L 1 1 0; L 2 2 32; L 4 4 uid; L 8 4 ver; L 12 4 0; L 16 8 base; L 24 8 len]
      | None => None
      end
  | SL [SA 2; SA base; SA size; SA arith; SA gran; SA ways; SA qtg; SL builders; SL targets] =>
      (* 1 CFMWS (36 + 4 NIW): 4+4 res, 8+8 BaseHPA, 16+8 WindowSize, 24 ENIW, 25 Arithmetic, 26+2 res, 28+4 HBIG,
         32+2 Restrictions, 34+2 QTG ID, 36 targets (4 each); the number of targets is the number of ways *)
      match cedt_ways ways, sp_all cedt_target targets [] with
      | Some niw, Some tg =>
          if Nat.eqb (length tg) niw && cedt_builders_ok builders then
            option_map (fun h => h ++ concat tg)
              (lay 36 [L 0 1 1; L 1 1 0; L 2 2 (N.of_nat (36 + 4 * niw)); L 4 4 0; L 8 8 base; L 16 8 size; L 24 1 ways; L 25 1 arith;
                       L 26 2 0; L 28 4 gran; L 32 2 (cedt_restrictions builders); L 34 2 qtg])
          else None
      | _, _ => None
      end
  | SL [SA 3; SA gran; SL maps] =>
      (* 2 CXIMS (8 + 8n): 4+2 res, 6 HBIG, 7 n, 8 xormaps u64 *)
      match sx_nums maps with
      | Some ms =>
          let n := length ms in
          if N.of_nat n <=? 255 then
            option_map (fun h => h ++ concat (map (le 8) ms))
              (lay 8 [L 0 1 2; L 1 1 0; L 2 2 (N.of_nat (8 + 8 * n)); L 4 2 0; L 6 1 gran; L 7 1 (N.of_nat n)])
          else None
      | None => None
      end
  | SL [SA 4; SA seg; SA bus; SA dev; SA fn; SA proto; SA base] =>
      (* 3 RDPAS (17 as laid out): 4+2 Segment, 6+2 BDF, 8 Protocol (0 IO, 1 mem), 9+8 Base; length field = bytes written *)
      match sp_bdf bus dev fn with
      | Some b => lay 17 [L 0 1 3; L 1 1 0; L 2 2 17; L 4 2 seg; L 6 2 b; L 8 1 proto; L 9 8 base]
      | None => None
      end
  | _ => None
  end.

Definition cedt_entries_ref (ops : list sx) : option (list (list N)) := sp_all cedt_entry_ref ops [].

(* structures from 36 *)
Definition cedt_image (ctor : sx) (ops : list sx) : option (list N) :=
  match ctor with
  | SL [o; t; r] =>
      match sx_hdr_args o t r, cedt_entries_ref ops with
      | Some h, Some es => Some (ref_table [67; 69; 68; 84] 1 h (concat es))
      | _, _ => None
      end
  | _ => None
  end.

Definition cedt_spec : tspec := {|
  ts_image := cedt_image;
  ts_walk := Some (36%nat, H_u8_x_u16);
  ts_entries := fun _ ops => option_map (map (fun e => (nth 0 e 0, length e))) (cedt_entries_ref ops);
  ts_counts := fun _ => [];
  ts_returns := fun _ => false
|}.
