(* STUB: Spec layer for cedt -- to be written *)
From Coq Require Import NArith List.
From ACPI Require Import Lib.Bytes Lib.Sx Spec.Layout.
Import ListNotations.
Definition cedt_spec : tspec := null_spec.
