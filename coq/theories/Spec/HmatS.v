(* STUB: Spec layer for hmat -- to be written *)
From Coq Require Import NArith List.
From ACPI Require Import Lib.Bytes Lib.Sx Spec.Layout.
Import ListNotations.
Definition hmat_spec : tspec := null_spec.
