(* Spec layer for the HMAT (ACPI 6.5 5.2.28), written from SPEC_NOTES.md A.2.
   Case vocabulary (shared with the harness):
     ctor  (oem6 tbl8 orev)
     ops   (1 initiator_pd memory_pd)                                       add_memory_proximity(MemoryProximityDomain::new)
           (2 loc_type data_type min_transfer base_unit ni nt (builders))   add_system_locality(SystemLocality::new + builders)
                 loc_type  0 Memory 1 FirstLevelCache 2 SecondLevelCache 3 ThirdLevelCache
                 data_type 0 AccessLatency 1 ReadLatency 2 WriteLatency 3 AccessBandwidth 4 ReadBandwidth 5 WriteBandwidth
                 min_transfer 0 SizeByteAligned 1 Size64b 2 Size128b 3 Size256b 4 Size512b 5 Size1k 6 Size2k 7 Size4k
                              8 Size8k 9 Size16k 10 Size32k 11 Size64k
                 builders  (1) non_sequential_transfers   (2) minimum_transfer_size_required
                           (3 idx v) set_initiator_value  (4 idx v) set_target_value  (5 i j v) set_entry_value
           (3 pd cache_size total_levels this_level associativity write_policy line_size (h ...))
                                                                            add_memory_side_cache(MemorySideCache::new, then add_smbios_handle calls)
                 total_levels / this_level 0 None 1 One 2 Two 3 Three;  associativity 0 None 1 DirectMapped 2 Complex;
                 write_policy 0 None 1 Writeback 2 Writethrough;  (h ...) the SMBIOS handles in the order they are added
     every op reports 0 (no handle is returned) *)
From Coq Require Import NArith List Bool.
From ACPI Require Import Lib.Bytes Lib.Sx Spec.Layout Spec.MadtS.
Import ListNotations.
Open Scope N_scope.

(* an array of equally wide little-endian elements following a fixed part laid out with [lay]
   (long arrays are appended directly: the offset bookkeeping of [lay] is quadratic in the number of fields) *)
Definition arr (w : nat) (vals : list N) : list N := concat (map (le w) vals).

Definition lay_then (size : nat) (l : layout) (rest : list N) : option (list N) :=
  match lay size l with Some fixed => Some (fixed ++ rest) | None => None end.

Definition seqN (n : N) : list N := map N.of_nat (seq 0 (N.to_nat n)).

(* last value assigned to slot [idx] by a builder (k idx v); [acc] when never assigned *)
Fixpoint last_slot (k idx : N) (bs : list sx) (acc : N) : N :=
  match bs with
  | [] => acc
  | SL [SA k'; SA i; SA v] :: r => last_slot k idx r (if (k' =? k) && (i =? idx) then v else acc)
  | _ :: r => last_slot k idx r acc
  end.

(* last value assigned to the cell (i, j) by a builder (5 i j v) *)
Fixpoint last_cell (i j : N) (bs : list sx) (acc : N) : N :=
  match bs with
  | [] => acc
  | SL [SA 5; SA i'; SA j'; SA v] :: r => last_cell i j r (if (i' =? i) && (j' =? j) then v else acc)
  | _ :: r => last_cell i j r acc
  end.

Definition sl_builder_ok (nI nT : N) (b : sx) : bool :=
  match b with
  | SL [SA 1] | SL [SA 2] => true
  | SL [SA 3; SA i; SA v] => (i <? nI) && (v <? 2 ^ 32)
  | SL [SA 4; SA j; SA v] => (j <? nT) && (v <? 2 ^ 32)
  | SL [SA 5; SA i; SA j; SA v] => (i <? nI) && (j <? nT) && (v <? 2 ^ 16)
  | _ => false
  end.

Definition is_op (k : N) (b : sx) : bool := match b with SL [SA k'] => k' =? k | _ => false end.

Definition hmat_entry_ref (o : sx) : option (list N) :=
  match o with
  | SL [SA 1; SA ipd; SA mpd] =>
      (* Memory Proximity Domain Attributes: flags bit 0 = initiator proximity domain valid *)
      lay 40 [L 0 2 0; L 2 2 0; L 4 4 40; L 8 2 1; L 10 2 0; L 12 4 ipd; L 16 4 mpd; L 20 8 0; L 28 8 0; L 36 4 0]
  | SL [SA 2; SA lt; SA dt; SA mts; SA unit; SA nI; SA nT; SL bs] =>
      (* System Locality Latency and Bandwidth Information: entry (i, j) at index i * nT + j, default 0xFFFF *)
      let len := 32 + 4 * nI + 4 * nT + 2 * (nI * nT) in
      if (lt <? 4) && (dt <? 6) && (mts <? 12) && (unit <? 2 ^ 64) && (len <? 2 ^ 32) && forallb (sl_builder_ok nI nT) bs then
        let flags := lt + (if ever (is_op 2) bs then 16 else 0) + (if ever (is_op 1) bs then 32 else 0) in
        let inits := map (fun i => last_slot 3 i bs 0) (seqN nI) in
        let targets := map (fun j => last_slot 4 j bs 0) (seqN nT) in
        let cells := flat_map (fun i => map (fun j => last_cell i j bs 0xFFFF) (seqN nT)) (seqN nI) in
        (* 32 fixed bytes, then nI initiator domains (4 each), nT target domains (4 each), nI * nT entries (2 each) *)
        lay_then 32
            [L 0 2 1; L 2 2 0; L 4 4 len; L 8 1 flags; L 9 1 dt; L 10 1 mts; L 11 1 0; L 12 4 nI; L 16 4 nT; L 20 4 0; L 24 8 unit]
            (arr 4 inits ++ arr 4 targets ++ arr 2 cells)
      else None
  | SL [SA 3; SA pd; SA size; SA total; SA level; SA assoc; SA policy; SA line; SL hs] =>
      (* Memory Side Cache Information *)
      match sx_nums hs with
      | Some handles =>
          let n := N.of_nat (length handles) in
          if (n <? 2 ^ 16) && forallb (fun h => h <? 2 ^ 16) handles && (total <? 4) && (level <? 4) && (assoc <? 3) && (policy <? 3)
             && (line <? 2 ^ 16) then
            let attrs := total + 16 * level + 256 * assoc + 4096 * policy + 65536 * line in
            lay_then 32
                [L 0 2 2; L 2 2 0; L 4 4 (32 + 2 * n); L 8 4 pd; L 12 4 0; L 16 8 size; L 24 4 attrs; L 28 2 0; L 30 2 n]
                (arr 2 handles)
          else None
      | None => None
      end
  | _ => None
  end.

Definition hmat_entries_ref (ops : list sx) : option (list (list N)) := opt_concat (map hmat_entry_ref ops).

Definition hmat_image (ctor : sx) (ops : list sx) : option (list N) :=
  match ctor with
  | SL [o; t; r] =>
      match sx_hdr_args o t r, hmat_entries_ref ops with
      | Some h, Some es => Some (ref_table [72; 77; 65; 84] 1 h (le 4 0 ++ concat es))
      | _, _ => None
      end
  | _ => None
  end.

Definition hmat_spec : tspec := {|
  ts_image := hmat_image;
  ts_walk := Some (40%nat, H_u16_u16_u32);
  ts_entries := fun _ ops => option_map (map (fun e => (unle (firstn 2 e), length e))) (hmat_entries_ref ops);
  ts_counts := fun _ => [];
  ts_returns := fun _ => false
|}.
