(* STUB: Spec layer for tpm2 -- to be written *)
From Coq Require Import NArith List.
From ACPI Require Import Lib.Bytes Lib.Sx Spec.Layout.
Import ListNotations.
Definition tpm2_spec : tspec := null_spec.
Definition tpmserver_spec : tspec := null_spec.
Definition tpmclient_spec : tspec := null_spec.
