(* Spec layer for the TCG ACPI tables (TCG ACPI Specification 1.2/1.3: TCPA client, TCPA server, TPM2),
   written from SPEC_NOTES.md A.1.
   Case vocabulary (shared with the harness):
   component 25 TpmClient1_2
     ctor  (oem6 tbl8 orev laml lasa)       TpmClient1_2::new(.., log_area_min_len: u32, log_area_start_addr: u64)
     ops   none (observations only)
   component 24 TpmServer1_2  (every op = one builder call `t = t.builder(..)`, event n0)
     ctor  (oem6 tbl8 orev)                 TpmServer1_2::new(oem_id, oem_table_id, oem_revision)
     ops   (1 laml lasa)                    log_area(u64, u64)
           (2)                              active_low()
           (3)                              edge_triggered()
           (4 gpe)                          sci_gpe(u8)
           (5 gsi)                          gsi(u32)
           (6)                              bus_is_pnp()
           (7 seg bus dev fn)               pci_sbdf(u8, u8, u8, u8)   (asserts device < 32, function < 8: beyond is outside the domain)
           (8 space width offset access addr)   base_addr(GAS::new(..))
           (9 space width offset access addr)   config_addr(GAS::new(..))
           GAS: space = the AddressSpace id itself (0..0xB, 0x7F), access = 0 undefined 1 byte 2 word 3 dword 4 qword
   component 23 Tpm2
     ctor  (oem6 tbl8 orev class base start_method)   Tpm2::new(.., PlatformClass, crb_or_fifo_base: u64, StartMethod)
           class 0 Client | 1 Server; start_method by its value: 1 LegacyUse 2 AcpiStart 6 Mmio 7 Crb 8 CrbAndAcpiStart
           11 CrbAndSmcHvc 12 I2cFifo
     ops   (1 laml lasa)                    set_log_area(min_len: u32, base_addr: u64), event n0; allowed once *)
From Coq Require Import NArith List Bool.
From ACPI Require Import Lib.Bytes Lib.Sx Spec.Layout Spec.FixedS.
Import ListNotations.
Open Scope N_scope.

Definition TCPA_SIG : list N := [84; 67; 80; 65].

(* ---- TCPA client (50) ---- *)
Definition tpmclient_ref (ctor : sx) : option (list N) :=
  match ctor with
  | SL [o; t; r; SA laml; SA lasa] =>
      match sx_hdr_args o t r, lay_at 36 14 [L 36 2 0; L 38 4 laml; L 42 8 lasa] with
      | Some h, Some body => Some (ref_table TCPA_SIG 2 h body)
      | _, _ => None
      end
  | _ => None
  end.

Definition tpmclient_spec : tspec := fixed_spec (ctor_only tpmclient_ref).

(* ---- TCPA server (100) ---- *)
Definition sbdf_in_range (o : sx) : bool :=
  match o with
  | SL [SA 7; _; _; SA dev; SA fn] => (dev <? 32) && (fn <? 8)
  | _ => true
  end.

Definition tpmserver_body (ops : list sx) : option (list N) :=
  let dflags := bit (was_called 7 ops) 1 + bit (was_called 6 ops) 2 + bit (was_called 9 ops) 4 in
  let iflags := bit (was_called 3 ops) 1 + bit (was_called 2 ops) 2 + bit (was_called 4 ops) 4 + bit (was_called 5 ops) 8 in
  lay_at 36 64
    [L 36 2 1;                                          (* PlatformClass: server *)
     L 38 2 0;
     L 40 8 (argn 1 0 ops); L 48 8 (argn 1 1 ops);      (* LAML, LASA *)
     L 56 1 1; L 57 1 2;                                (* SpecRevision (crate bytes 01 02) *)
     L 58 1 dflags; L 59 1 iflags;
     L 60 1 (argn 4 0 ops);                             (* GPE *)
     L 61 3 0;
     L 64 4 (argn 5 0 ops);                             (* GSI *)
     L 68 1 (argn 8 0 ops); L 69 1 (argn 8 1 ops); L 70 1 (argn 8 2 ops); L 71 1 (argn 8 3 ops); L 72 8 (argn 8 4 ops);
     L 80 4 0;
     L 84 1 (argn 9 0 ops); L 85 1 (argn 9 1 ops); L 86 1 (argn 9 2 ops); L 87 1 (argn 9 3 ops); L 88 8 (argn 9 4 ops);
     L 96 1 (argn 7 0 ops); L 97 1 (argn 7 1 ops); L 98 1 (argn 7 2 ops); L 99 1 (argn 7 3 ops)].

Definition tpmserver_op_ok (o : sx) : bool :=
  match o with
  | SL [SA 1; SA _; SA _] | SL [SA 2] | SL [SA 3] | SL [SA 4; SA _] | SL [SA 5; SA _] | SL [SA 6]
  | SL [SA 7; SA _; SA _; SA _; SA _]
  | SL [SA 8; SA _; SA _; SA _; SA _; SA _] | SL [SA 9; SA _; SA _; SA _; SA _; SA _] => sbdf_in_range o
  | _ => false
  end.

Definition tpmserver_ref (ctor : sx) (ops : list sx) : option (list N) :=
  match ctor with
  | SL [o; t; r] =>
      if forallb tpmserver_op_ok ops then
        match sx_hdr_args o t r, tpmserver_body ops with
        | Some h, Some body => Some (ref_table TCPA_SIG 2 h body)
        | _, _ => None
        end
      else None
  | _ => None
  end.

Definition tpmserver_spec : tspec := fixed_spec tpmserver_ref.

(* ---- TPM2 (52 | 76) ---- *)
Definition tpm2_ref (ctor : sx) (ops : list sx) : option (list N) :=
  match ctor with
  | SL [o; t; r; SA cls; SA base; SA sm] =>
      let cls_ok := cls <? 2 in
      let sm_ok := existsb (N.eqb sm) [1; 2; 6; 7; 8; 11; 12] in
      let fixed := [L 36 2 cls; L 38 2 0; L 40 8 base; L 48 4 sm] in
      let body :=
        match ops with
        | [] => lay_at 36 16 fixed
        | [SL [SA 1; SA laml; SA lasa]] => lay_at 36 40 (fixed ++ [L 52 12 0; L 64 4 laml; L 68 8 lasa])
        | _ => None                                    (* set_log_area may be called once *)
        end in
      if cls_ok && sm_ok then
        match sx_hdr_args o t r, body with
        | Some h, Some b => Some (ref_table [84; 80; 77; 50] 1 h b)      (* "TPM2", revision 1 (crate) *)
        | _, _ => None
        end
      else None
  | _ => None
  end.

Definition tpm2_spec : tspec := fixed_spec tpm2_ref.
