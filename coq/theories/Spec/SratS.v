(* Spec layer for the SRAT (ACPI 6.5 5.2.16; RINTC affinity per ACPI 6.6 / RISC-V ECR), written from SPEC_NOTES.md A.2:
   36+4 = 1, 40+8 reserved; entries from 48, header (type u8, length u8).
   Case vocabulary (shared with the harness, component 13):
     ctor  (oem6 tbl8 orev)                         SRAT::new(oem_id, oem_table_id, oem_revision)
     ops   (1 pd base length (builders))            add_memory_affinity(MemoryAffinity::new(pd: u32, base: u64, length: u64) + builders)
                builders: (1) enabled  (2) hotpluggable  (3) nonvolatile
           (2 pd handle (builders))                 add_generic_initiator(GenericInitiator::new(pd: u32, handle) + builders)
                handle:   (0 hid8 uid4)             Handle::new_acpi(hid, uid)
                          (1 seg bus dev fn)        the struct literal Handle::Pci { segment, bus, device, function } (no assertion)
                          (2 seg bus dev fn)        Handle::new_pci(segment, bus, device, function) (asserts device < 32, function < 8)
                builders: (1) enabled  (2) architectural
           (3 uid4 clock (builders))                add_rintc_affinity(RintcAffinity::new(uid: [u8; 4], clock_domain: u32) + builders)
                builders: (1) enabled  (2 pd) proximity_domain(pd: u32)
     builders are applied in list order, repetitions allowed; every op yields the event n0.
     A PCI handle with device >= 32 or function >= 8 is outside the specification's domain (5-bit device, 3-bit function). *)
From Coq Require Import NArith List Bool.
From ACPI Require Import Lib.Bytes Lib.Sx Spec.Layout Spec.MadtS.
Import ListNotations.
Open Scope N_scope.

Definition flagbit (k : N) (bs : list sx) (v : N) : N := if called k bs then v else 0.

Definition srat_handle_ref (h : sx) : option (N * list N) :=      (* (handle type, 16-byte device handle) *)
  match h with
  | SL [SA 0; hid; uid] =>
      match sx_bytes hid, sx_bytes uid with
      | Some hb, Some ub =>
          if Nat.eqb (length hb) 8 && Nat.eqb (length ub) 4
          then option_map (fun b => (0, b)) (lay 16 (LB 0 hb ++ LB 8 ub ++ [L 12 4 0]))
          else None
      | _, _ => None
      end
  | SL [SA 1; SA seg; SA bus; SA dev; SA fn] | SL [SA 2; SA seg; SA bus; SA dev; SA fn] =>
      if (dev <? 32) && (fn <? 8)
      then option_map (fun b => (1, b)) (lay 16 [L 0 2 seg; L 2 1 bus; L 3 1 (dev * 8 + fn); L 4 12 0])
      else None
  | _ => None
  end.

Definition srat_entry_ref (o : sx) : option (list N) :=
  match o with
  | SL [SA 1; SA pd; SA base; SA len; SL bs] =>       (* Memory Affinity *)
      let flags := flagbit 1 bs 1 + flagbit 2 bs 2 + flagbit 3 bs 4 in
      lay 40 [L 0 1 1; L 1 1 40; L 2 4 pd; L 6 2 0; L 8 4 (base mod 2 ^ 32); L 12 4 (base / 2 ^ 32);
              L 16 4 (len mod 2 ^ 32); L 20 4 (len / 2 ^ 32); L 24 4 0; L 28 4 flags; L 32 8 0]
  | SL [SA 2; SA pd; h; SL bs] =>                     (* Generic Initiator Affinity *)
      match srat_handle_ref h with
      | Some (ty, hb) =>
          let flags := flagbit 1 bs 1 + flagbit 2 bs 2 in
          lay 32 ([L 0 1 5; L 1 1 32; L 2 1 0; L 3 1 ty; L 4 4 pd] ++ LB 8 hb ++ [L 24 4 flags; L 28 4 0])
      | None => None
      end
  | SL [SA 3; uid; SA clock; SL bs] =>                (* RINTC Affinity *)
      match sx_bytes uid with
      | Some ub =>
          if Nat.eqb (length ub) 4
          then lay 20 ([L 0 1 7; L 1 1 20; L 2 2 0; L 4 4 (arg0 2 bs)] ++ LB 8 ub ++ [L 12 4 (flagbit 1 bs 1); L 16 4 clock])
          else None
      | None => None
      end
  | _ => None
  end.

Definition srat_entries_ref (ops : list sx) : option (list (list N)) := opt_concat (map srat_entry_ref ops).

Definition srat_image (ctor : sx) (ops : list sx) : option (list N) :=
  match ctor with
  | SL [o; t; r] =>
      match sx_hdr_args o t r, srat_entries_ref ops with
      | Some h, Some es => Some (ref_table [83; 82; 65; 84] 1 h (le 4 1 ++ le 8 0 ++ concat es))   (* "SRAT", revision 1 (crate) *)
      | _, _ => None
      end
  | _ => None
  end.

Definition srat_spec : tspec := {|
  ts_image := srat_image;
  ts_walk := Some (48%nat, H_u8_u8);
  ts_entries := fun _ ops => option_map (map (fun e => (nth 0 e 0, length e))) (srat_entries_ref ops);
  ts_counts := fun _ => [];
  ts_returns := fun _ => false
|}.
