(* STUB: Spec layer for srat -- to be written *)
From Coq Require Import NArith List.
From ACPI Require Import Lib.Bytes Lib.Sx Spec.Layout.
Import ListNotations.
Definition srat_spec : tspec := null_spec.
