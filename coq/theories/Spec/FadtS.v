(* Spec layer for the FADT (ACPI 6.5 5.2.9, revision 6 minor 5, 276 bytes), written from SPEC_NOTES.md A.1.

   Case vocabulary of component 26 (shared with harness/src/t_fadt.rs and Impl/Fadt.v):
     ctor  (oem6 tbl8 orev)                    FADTBuilder::new(oem_id, oem_table_id, oem_revision)
     ops   builder calls applied in order to the FADTBuilder value, repetitions allowed; each emits one Num 0
           (1 x) dsdt_32(x)   (2 x) dsdt_64(x)   (3 x) firmware_ctrl_32(x)   (4 x) firmware_ctrl_64(x)
           (5) acpi_enable()  (6) acpi_disable() (7 i) flag(Flags #i)        (8 gpe0_blk gpe1_blk gpe0_blk_len gpe1_blk_len gpe1_base) gpe_info
           (9 p) preferred_pm_profile(PmProfile #p)
     Flags #i = the i-th value of enum fadt::Flags in declaration order:
           0 Wbinvd 1 WbinvdFlush 2 ProcC1 3 PLvl2Up 4 PwrButton 5 SlpButton 6 FixRtc 7 RtcS4 8 TmrValExt 9 DckCap 10 ResetRegSup
           11 SealedCase 12 Headless 13 CpuSwSlp 14 PciExpWak 15 UsePlatformClock 16 S4RtcStsValid 17 RemotePowerOnCapable
           18 ForceApicClusterModel 19 ForceApicPhysicalDestinationMode 20 HwReducedAcpi 21 LowPowerS0IdleCapable
           22 PersistentCpuCachesNotReported 23 PersistentCpuCachesNotPersistent 24 PersistentCpuCachesArePersistent
     PmProfile #p: 0 Unspecified 1 Desktop 2 Mobile 3 Workstation 4 EnterpriseServer 5 SohoServer 6 AppliancePc
           7 PerformanceServer 8 Tablet
     observation `1`: a copy of the builder is finalize()d and the resulting FADT serialised. *)
From Coq Require Import NArith List Bool.
From ACPI Require Import Lib.Bytes Lib.Sx Spec.Layout Spec.GasS.
Import ListNotations.
Open Scope N_scope.

(* what the caller's builder calls determine *)
Record fadt_vals := {
  v_fw : N; v_xfw : N; v_dsdt : N; v_xdsdt : N; v_enable : N; v_disable : N; v_flags : N;
  v_gpe0 : N; v_gpe1 : N; v_gpe0_len : N; v_gpe1_len : N; v_gpe1_base : N; v_profile : N }.

Definition fadt_vals0 : fadt_vals :=
  {| v_fw := 0; v_xfw := 0; v_dsdt := 0; v_xdsdt := 0; v_enable := 0; v_disable := 0; v_flags := 0;
     v_gpe0 := 0; v_gpe1 := 0; v_gpe0_len := 0; v_gpe1_len := 0; v_gpe1_base := 0; v_profile := 0 |}.

(* Flags field: bits 0..21 one flag each; bits 23:22 persistent CPU caches: 0 not reported, 1 not persistent, 2 persistent *)
Definition flag_ref (i : N) : option N :=
  if i <=? 21 then Some (2 ^ i)
  else match i with
       | 22 => Some (0 * 2 ^ 22)
       | 23 => Some (1 * 2 ^ 22)
       | 24 => Some (2 * 2 ^ 22)
       | _ => None
       end.

Definition fadt_apply (v : fadt_vals) (o : sx) : option fadt_vals :=
  let upd fw xfw dsdt xdsdt en dis flags g0 g1 l0 l1 gb p :=
    Some {| v_fw := fw; v_xfw := xfw; v_dsdt := dsdt; v_xdsdt := xdsdt; v_enable := en; v_disable := dis; v_flags := flags;
            v_gpe0 := g0; v_gpe1 := g1; v_gpe0_len := l0; v_gpe1_len := l1; v_gpe1_base := gb; v_profile := p |} in
  match v with
  | {| v_fw := fw; v_xfw := xfw; v_dsdt := dsdt; v_xdsdt := xdsdt; v_enable := en; v_disable := dis; v_flags := flags;
       v_gpe0 := g0; v_gpe1 := g1; v_gpe0_len := l0; v_gpe1_len := l1; v_gpe1_base := gb; v_profile := p |} =>
      match o with
      | SL [SA 1; SA x] => if x <? 2 ^ 32 then upd fw xfw x 0 en dis flags g0 g1 l0 l1 gb p else None       (* DSDT = x, X_DSDT = 0 *)
      | SL [SA 2; SA x] => if x <? 2 ^ 64 then upd fw xfw 0 x en dis flags g0 g1 l0 l1 gb p else None       (* DSDT = 0, X_DSDT = x *)
      | SL [SA 3; SA x] => if x <? 2 ^ 32 then upd x 0 dsdt xdsdt en dis flags g0 g1 l0 l1 gb p else None
      | SL [SA 4; SA x] => if x <? 2 ^ 64 then upd 0 x dsdt xdsdt en dis flags g0 g1 l0 l1 gb p else None
      | SL [SA 5] => upd fw xfw dsdt xdsdt 1 0 flags g0 g1 l0 l1 gb p                                       (* ACPI_ENABLE = 1, ACPI_DISABLE = 0 *)
      | SL [SA 6] => upd fw xfw dsdt xdsdt 0 1 flags g0 g1 l0 l1 gb p
      | SL [SA 7; SA i] => match flag_ref i with
                           | Some b => upd fw xfw dsdt xdsdt en dis (N.lor flags b) g0 g1 l0 l1 gb p
                           | None => None
                           end
      | SL [SA 8; SA a; SA b; SA c; SA d; SA e] =>
          if (a <? 2 ^ 32) && (b <? 2 ^ 32) && (c <? 256) && (d <? 256) && (e <? 256)
          then upd fw xfw dsdt xdsdt en dis flags a b c d e p else None
      | SL [SA 9; SA q] => if q <=? 8 then upd fw xfw dsdt xdsdt en dis flags g0 g1 l0 l1 gb q else None
      | _ => None
      end
  end.

Fixpoint fadt_fold (v : fadt_vals) (ops : list sx) : option fadt_vals :=
  match ops with
  | [] => Some v
  | o :: r => match fadt_apply v o with Some v' => fadt_fold v' r | None => None end
  end.

(* a layout whose offsets are table offsets, starting right after the 36-byte header *)
Definition lay_from (base size : nat) (l : layout) : option (list N) :=
  if layout_ok_from base l && Nat.eqb (base + layout_size l) size then Some (assemble l) else None.

Definition gas0 (off : nat) : layout := [L off 1 0; L (off + 1) 1 0; L (off + 2) 1 0; L (off + 3) 1 0; L (off + 4) 8 0].

Definition fadt_body (v : fadt_vals) : option (list N) :=
  lay_from 36 276
    ([L 36 4 (v_fw v) (* FIRMWARE_CTRL *); L 40 4 (v_dsdt v) (* DSDT *); L 44 1 0; L 45 1 (v_profile v) (* Preferred_PM_Profile *);
      L 46 2 0 (* SCI_INT *); L 48 4 0 (* SMI_CMD *); L 52 1 (v_enable v) (* ACPI_ENABLE *); L 53 1 (v_disable v) (* ACPI_DISABLE *);
      L 54 1 0 (* S4BIOS_REQ *); L 55 1 0 (* PSTATE_CNT *);
      L 56 4 0 (* PM1a_EVT_BLK *); L 60 4 0 (* PM1b_EVT_BLK *); L 64 4 0 (* PM1a_CNT_BLK *); L 68 4 0 (* PM1b_CNT_BLK *);
      L 72 4 0 (* PM2_CNT_BLK *); L 76 4 0 (* PM_TMR_BLK *); L 80 4 (v_gpe0 v) (* GPE0_BLK *); L 84 4 (v_gpe1 v) (* GPE1_BLK *);
      L 88 1 0 (* PM1_EVT_LEN *); L 89 1 0 (* PM1_CNT_LEN *); L 90 1 0 (* PM2_CNT_LEN *); L 91 1 0 (* PM_TMR_LEN *);
      L 92 1 (v_gpe0_len v) (* GPE0_BLK_LEN *); L 93 1 (v_gpe1_len v) (* GPE1_BLK_LEN *); L 94 1 (v_gpe1_base v) (* GPE1_BASE *);
      L 95 1 0 (* CST_CNT *); L 96 2 0 (* P_LVL2_LAT *); L 98 2 0 (* P_LVL3_LAT *); L 100 2 0 (* FLUSH_SIZE *);
      L 102 2 0 (* FLUSH_STRIDE *); L 104 1 0 (* DUTY_OFFSET *); L 105 1 0 (* DUTY_WIDTH *); L 106 1 0 (* DAY_ALRM *);
      L 107 1 0 (* MON_ALRM *); L 108 1 0 (* CENTURY *); L 109 2 0 (* IAPC_BOOT_ARCH *); L 111 1 0;
      L 112 4 (v_flags v) (* Flags *)]
     ++ gas0 116 (* RESET_REG *)
     ++ [L 128 1 0 (* RESET_VALUE *); L 129 2 0 (* ARM_BOOT_ARCH *); L 131 1 5 (* FADT minor version *);
         L 132 8 (v_xfw v) (* X_FIRMWARE_CTRL *); L 140 8 (v_xdsdt v) (* X_DSDT *)]
     ++ gas0 148 (* X_PM1a_EVT_BLK *) ++ gas0 160 (* X_PM1b_EVT_BLK *) ++ gas0 172 (* X_PM1a_CNT_BLK *)
     ++ gas0 184 (* X_PM1b_CNT_BLK *) ++ gas0 196 (* X_PM2_CNT_BLK *) ++ gas0 208 (* X_PM_TMR_BLK *)
     ++ gas0 220 (* X_GPE0_BLK *) ++ gas0 232 (* X_GPE1_BLK *) ++ gas0 244 (* SLEEP_CONTROL_REG *)
     ++ gas0 256 (* SLEEP_STATUS_REG *)
     ++ [L 268 8 0 (* Hypervisor Vendor Identity *)]).

Definition fadt_ref_image (ctor : sx) (ops : list sx) : option (list N) :=
  match ctor with
  | SL [o; t; r] =>
      match sx_hdr_args o t r, fadt_fold fadt_vals0 ops with
      | Some h, Some v =>
          match fadt_body v with
          | Some body => Some (ref_table [70; 65; 67; 80] 6 h body)       (* "FACP", major revision 6 (crate) *)
          | None => None
          end
      | _, _ => None
      end
  | _ => None
  end.

Definition fadt_spec : tspec := {|
  ts_image := fadt_ref_image;
  ts_walk := None;
  ts_entries := fun _ _ => None;
  ts_counts := fun _ => [];
  ts_returns := fun _ => false
|}.
