(* Spec layer for the FADT (ACPI 6.5 5.2.9, revision 6 minor 5, 276 bytes), written from SPEC_NOTES.md A.1.

   Case vocabulary of component 26 (shared with harness/src/t_fadt.rs and Impl/Fadt.v):
     ctor  (oem6 tbl8 orev)                    FADTBuilder::new(oem_id, oem_table_id, oem_revision)
     ops   builder calls and direct assignments of the builder's public fields, applied in order to the FADTBuilder value,
           repetitions allowed, freely interleaved (the last writer of a field wins); each emits one Num 0
           (1 x) dsdt_32(x)   (2 x) dsdt_64(x)   (3 x) firmware_ctrl_32(x)   (4 x) firmware_ctrl_64(x)
           (5) acpi_enable()  (6) acpi_disable() (7 i) flag(Flags #i)        (8 gpe0_blk gpe1_blk gpe0_blk_len gpe1_blk_len gpe1_base) gpe_info
           (9 p) preferred_pm_profile(PmProfile #p)
           (10 k v)                 b.<k-th assignable public scalar field> = (v as uN).into()       (table below)
           (11 g sp bw bo ac addr)  b.<g-th GAS-typed public field> = GAS::new(AddressSpace #sp, bw, bo, AccessSize #ac, addr)
     Flags #i = the i-th value of enum fadt::Flags in declaration order:
           0 Wbinvd 1 WbinvdFlush 2 ProcC1 3 PLvl2Up 4 PwrButton 5 SlpButton 6 FixRtc 7 RtcS4 8 TmrValExt 9 DckCap 10 ResetRegSup
           11 SealedCase 12 Headless 13 CpuSwSlp 14 PciExpWak 15 UsePlatformClock 16 S4RtcStsValid 17 RemotePowerOnCapable
           18 ForceApicClusterModel 19 ForceApicPhysicalDestinationMode 20 HwReducedAcpi 21 LowPowerS0IdleCapable
           22 PersistentCpuCachesNotReported 23 PersistentCpuCachesNotPersistent 24 PersistentCpuCachesArePersistent
     PmProfile #p: 0 Unspecified 1 Desktop 2 Mobile 3 Workstation 4 EnterpriseServer 5 SohoServer 6 AppliancePc
           7 PerformanceServer 8 Tablet
     AddressSpace #sp / AccessSize #ac: the numbering of Spec/GasS.v (= the ACPI 6.5 5.2.3.2 codes: space 0..0xB and 0x7F,
           access 0..4), the one used for every GAS-valued argument (components 21, 22); component 32 uses the same space ids 0 / 1 and access codes.

     The assignable public scalar fields: every `pub` integer field of FADTBuilder after the 36-byte header, numbered k in
     declaration order.  Not assignable here: the header fields (signature, length, major_version, checksum, oem_id,
     oem_table_id, oem_revision, creator_id, creator_revision: a caller overwriting the header is outside the properties) and
     the two private fields _reserved0 (offset 44) and _reserved1 (offset 111).
        k  field                 offset width | k  field                 offset width | k  field                      offset width
        0  firmware_ctrl            36   4    | 14 pm_tmr_blk               76   4    | 28 flush_stride                 102   2
        1  dsdt                     40   4    | 15 gpe0_blk                 80   4    | 29 duty_offset                  104   1
        2  preferred_pm_profile     45   1    | 16 gpe1_blk                 84   4    | 30 duty_width                   105   1
        3  sci_int                  46   2    | 17 pm1_evt_len              88   1    | 31 day_alrm                     106   1
        4  smi_cmd                  48   4    | 18 pm1_cnt_len              89   1    | 32 mon_alrm                     107   1
        5  acpi_enable              52   1    | 19 pm2_cnt_len              90   1    | 33 century                      108   1
        6  acpi_disable             53   1    | 20 pm_tmr_len               91   1    | 34 iapc_boot_arch               109   2
        7  s4bios_req               54   1    | 21 gpe0_blk_len             92   1    | 35 flags                        112   4
        8  pstate_cnt               55   1    | 22 gpe1_blk_len             93   1    | 36 reset_value                  128   1
        9  pm1a_evt_blk             56   4    | 23 gpe1_base                94   1    | 37 arm_boot_arch                129   2
        10 pm1b_evt_blk             60   4    | 24 cst_cnt                  95   1    | 38 fadt_minor_version           131   1
        11 pm1a_cnt_blk             64   4    | 25 p_lvl2_lat               96   2    | 39 x_firmware_ctrl              132   8
        12 pm1b_cnt_blk             68   4    | 26 p_lvl3_lat               98   2    | 40 x_dsdt                       140   8
        13 pm2_cnt_blk              72   4    | 27 flush_size              100   2    | 41 hypervisor_vendor_identity   268   8
     The GAS-typed public fields, numbered g in declaration order (12 bytes each: space id at +0, bit width +1, bit offset +2,
     access size +3, address +4 (8 bytes)):
        g  field            offset | g  field            offset | g  field              offset
        0  reset_reg           116 | 4  x_pm1b_cnt_blk      184 | 8  x_gpe1_blk            232
        1  x_pm1a_evt_blk      148 | 5  x_pm2_cnt_blk       196 | 9  sleep_control_reg     244
        2  x_pm1b_evt_blk      160 | 6  x_pm_tmr_blk        208 | 10 sleep_status_reg      256
        3  x_pm1a_cnt_blk      172 | 7  x_gpe0_blk          220 |
     Domain: a value must fit the field it is given to (v < 2^(8 width); the Rust caller cannot express anything else), a GAS
     needs a known space id / access size and byte-sized width / offset, as in Spec/GasS.v.
     observation `1`: a copy of the builder is finalize()d and the resulting FADT serialised. *)
From Coq Require Import NArith List Bool.
From ACPI Require Import Lib.Bytes Lib.Sx Spec.Layout Spec.GasS.
Import ListNotations.
Open Scope N_scope.

(* what the caller's calls and assignments determine: for every table offset at which a field of the body starts, the value
   last written there.  An association list (offset, value), newest write first; a field never written holds its default:
   0, except the FADT minor version (offset 131), which the constructor sets to 5 (crate-chosen, ACPI 6.5).  (The keys are
   binary numbers so that the extracted oracle compares them quickly; the layout below names each offset twice, once as the
   position `L off ..` and once as the key `val v off`.) *)
Definition fadt_vals := list (N * N).

Definition fadt_vals0 : fadt_vals := [(131, 5)].

Fixpoint val (v : fadt_vals) (off : N) : N :=
  match v with
  | [] => 0
  | (o, x) :: r => if o =? off then x else val r off
  end.

(* Flags field: bits 0..21 one flag each; bits 23:22 persistent CPU caches: 0 not reported, 1 not persistent, 2 persistent *)
Definition flag_ref (i : N) : option N :=
  if i <=? 21 then Some (2 ^ i)
  else match i with
       | 22 => Some (0 * 2 ^ 22)
       | 23 => Some (1 * 2 ^ 22)
       | 24 => Some (2 * 2 ^ 22)
       | _ => None
       end.

(* the assignable scalar fields (offset, width), k-th entry = field k of the table above; offsets and widths from ACPI 6.5
   Table 5.9 *)
Definition fadt_scalars : list (N * nat) :=
  [(36, 4%nat) (* FIRMWARE_CTRL *); (40, 4%nat) (* DSDT *); (45, 1%nat) (* Preferred_PM_Profile *); (46, 2%nat) (* SCI_INT *);
   (48, 4%nat) (* SMI_CMD *); (52, 1%nat) (* ACPI_ENABLE *); (53, 1%nat) (* ACPI_DISABLE *); (54, 1%nat) (* S4BIOS_REQ *);
   (55, 1%nat) (* PSTATE_CNT *); (56, 4%nat) (* PM1a_EVT_BLK *); (60, 4%nat) (* PM1b_EVT_BLK *); (64, 4%nat) (* PM1a_CNT_BLK *);
   (68, 4%nat) (* PM1b_CNT_BLK *); (72, 4%nat) (* PM2_CNT_BLK *); (76, 4%nat) (* PM_TMR_BLK *); (80, 4%nat) (* GPE0_BLK *);
   (84, 4%nat) (* GPE1_BLK *); (88, 1%nat) (* PM1_EVT_LEN *); (89, 1%nat) (* PM1_CNT_LEN *); (90, 1%nat) (* PM2_CNT_LEN *);
   (91, 1%nat) (* PM_TMR_LEN *); (92, 1%nat) (* GPE0_BLK_LEN *); (93, 1%nat) (* GPE1_BLK_LEN *); (94, 1%nat) (* GPE1_BASE *);
   (95, 1%nat) (* CST_CNT *); (96, 2%nat) (* P_LVL2_LAT *); (98, 2%nat) (* P_LVL3_LAT *); (100, 2%nat) (* FLUSH_SIZE *);
   (102, 2%nat) (* FLUSH_STRIDE *); (104, 1%nat) (* DUTY_OFFSET *); (105, 1%nat) (* DUTY_WIDTH *); (106, 1%nat) (* DAY_ALRM *);
   (107, 1%nat) (* MON_ALRM *); (108, 1%nat) (* CENTURY *); (109, 2%nat) (* IAPC_BOOT_ARCH *); (112, 4%nat) (* Flags *);
   (128, 1%nat) (* RESET_VALUE *); (129, 2%nat) (* ARM_BOOT_ARCH *); (131, 1%nat) (* FADT Minor Version *);
   (132, 8%nat) (* X_FIRMWARE_CTRL *); (140, 8%nat) (* X_DSDT *); (268, 8%nat) (* Hypervisor Vendor Identity *)].

(* the GAS fields: offset of the g-th *)
Definition fadt_gas_offs : list N :=
  [116 (* RESET_REG *); 148 (* X_PM1a_EVT_BLK *); 160 (* X_PM1b_EVT_BLK *); 172 (* X_PM1a_CNT_BLK *); 184 (* X_PM1b_CNT_BLK *);
   196 (* X_PM2_CNT_BLK *); 208 (* X_PM_TMR_BLK *); 220 (* X_GPE0_BLK *); 232 (* X_GPE1_BLK *); 244 (* SLEEP_CONTROL_REG *);
   256 (* SLEEP_STATUS_REG *)].

(* (10 k x): field k takes the value x *)
Definition fadt_assign (v : fadt_vals) (k x : N) : option fadt_vals :=
  match nth_error fadt_scalars (N.to_nat k) with
  | Some (off, w) => if x <? 2 ^ (8 * N.of_nat w) then Some ((off, x) :: v) else None
  | None => None
  end.

(* (11 g sp bw bo ac addr): the five sub-fields of GAS field g take the five values *)
Definition fadt_assign_gas (v : fadt_vals) (g sp bw bo ac addr : N) : option fadt_vals :=
  match nth_error fadt_gas_offs (N.to_nat g) with
  | Some off =>
      if gas_space_ok sp && gas_access_ok ac && (bw <? 256) && (bo <? 256) && (addr <? 2 ^ 64)
      then Some ((off, sp) :: (off + 1, bw) :: (off + 2, bo) :: (off + 3, ac) :: (off + 4, addr) :: v)
      else None
  | None => None
  end.

Definition fadt_apply (v : fadt_vals) (o : sx) : option fadt_vals :=
  match o with
  | SL [SA 1; SA x] => if x <? 2 ^ 32 then Some ((40, x) :: (140, 0) :: v) else None       (* DSDT = x, X_DSDT = 0 *)
  | SL [SA 2; SA x] => if x <? 2 ^ 64 then Some ((40, 0) :: (140, x) :: v) else None       (* DSDT = 0, X_DSDT = x *)
  | SL [SA 3; SA x] => if x <? 2 ^ 32 then Some ((36, x) :: (132, 0) :: v) else None       (* FIRMWARE_CTRL = x, X_FIRMWARE_CTRL = 0 *)
  | SL [SA 4; SA x] => if x <? 2 ^ 64 then Some ((36, 0) :: (132, x) :: v) else None
  | SL [SA 5] => Some ((52, 1) :: (53, 0) :: v)                                             (* ACPI_ENABLE = 1, ACPI_DISABLE = 0 *)
  | SL [SA 6] => Some ((52, 0) :: (53, 1) :: v)
  | SL [SA 7; SA i] => match flag_ref i with
                       | Some b => Some ((112, N.lor (val v 112) b) :: v)                       (* Flags |= the flag's bits *)
                       | None => None
                       end
  | SL [SA 8; SA a; SA b; SA c; SA d; SA e] =>
      if (a <? 2 ^ 32) && (b <? 2 ^ 32) && (c <? 256) && (d <? 256) && (e <? 256)
      then Some ((80, a) :: (84, b) :: (92, c) :: (93, d) :: (94, e) :: v) else None
  | SL [SA 9; SA q] => if q <=? 8 then Some ((45, q) :: v) else None
  | SL [SA 10; SA k; SA x] => fadt_assign v k x
  | SL [SA 11; SA g; SA sp; SA bw; SA bo; SA ac; SA addr] => fadt_assign_gas v g sp bw bo ac addr
  | _ => None
  end.

Fixpoint fadt_fold (v : fadt_vals) (ops : list sx) : option fadt_vals :=
  match ops with
  | [] => Some v
  | o :: r => match fadt_apply v o with Some v' => fadt_fold v' r | None => None end
  end.

(* a layout whose offsets are table offsets, starting right after the 36-byte header *)
Definition lay_from (base size : nat) (l : layout) : option (list N) :=
  if layout_ok_from base l && Nat.eqb (base + layout_size l) size then Some (assemble l) else None.

(* a Generic Address Structure at table offset off *)
Definition gas_at (v : fadt_vals) (off : nat) : layout :=
  let o := N.of_nat off in
  [L off 1 (val v o) (* space id *); L (off + 1) 1 (val v (o + 1)) (* bit width *); L (off + 2) 1 (val v (o + 2)) (* bit offset *);
   L (off + 3) 1 (val v (o + 3)) (* access size *); L (off + 4) 8 (val v (o + 4)) (* address *)].

(* ACPI 6.5 Table 5.9 after the header: every field holds the value last written at its offset; the two reserved bytes are 0 *)
Definition fadt_layout (v : fadt_vals) : layout :=
    ([L 36 4 (val v 36) (* FIRMWARE_CTRL *); L 40 4 (val v 40) (* DSDT *); L 44 1 0 (* reserved *);
      L 45 1 (val v 45) (* Preferred_PM_Profile *);
      L 46 2 (val v 46) (* SCI_INT *); L 48 4 (val v 48) (* SMI_CMD *); L 52 1 (val v 52) (* ACPI_ENABLE *);
      L 53 1 (val v 53) (* ACPI_DISABLE *); L 54 1 (val v 54) (* S4BIOS_REQ *); L 55 1 (val v 55) (* PSTATE_CNT *);
      L 56 4 (val v 56) (* PM1a_EVT_BLK *); L 60 4 (val v 60) (* PM1b_EVT_BLK *); L 64 4 (val v 64) (* PM1a_CNT_BLK *);
      L 68 4 (val v 68) (* PM1b_CNT_BLK *); L 72 4 (val v 72) (* PM2_CNT_BLK *); L 76 4 (val v 76) (* PM_TMR_BLK *);
      L 80 4 (val v 80) (* GPE0_BLK *); L 84 4 (val v 84) (* GPE1_BLK *);
      L 88 1 (val v 88) (* PM1_EVT_LEN *); L 89 1 (val v 89) (* PM1_CNT_LEN *); L 90 1 (val v 90) (* PM2_CNT_LEN *);
      L 91 1 (val v 91) (* PM_TMR_LEN *); L 92 1 (val v 92) (* GPE0_BLK_LEN *); L 93 1 (val v 93) (* GPE1_BLK_LEN *);
      L 94 1 (val v 94) (* GPE1_BASE *); L 95 1 (val v 95) (* CST_CNT *);
      L 96 2 (val v 96) (* P_LVL2_LAT *); L 98 2 (val v 98) (* P_LVL3_LAT *); L 100 2 (val v 100) (* FLUSH_SIZE *);
      L 102 2 (val v 102) (* FLUSH_STRIDE *); L 104 1 (val v 104) (* DUTY_OFFSET *); L 105 1 (val v 105) (* DUTY_WIDTH *);
      L 106 1 (val v 106) (* DAY_ALRM *); L 107 1 (val v 107) (* MON_ALRM *); L 108 1 (val v 108) (* CENTURY *);
      L 109 2 (val v 109) (* IAPC_BOOT_ARCH *); L 111 1 0 (* reserved *);
      L 112 4 (val v 112) (* Flags *)]
     ++ gas_at v 116 (* RESET_REG *)
     ++ [L 128 1 (val v 128) (* RESET_VALUE *); L 129 2 (val v 129) (* ARM_BOOT_ARCH *); L 131 1 (val v 131) (* FADT minor version *);
         L 132 8 (val v 132) (* X_FIRMWARE_CTRL *); L 140 8 (val v 140) (* X_DSDT *)]
     ++ gas_at v 148 (* X_PM1a_EVT_BLK *) ++ gas_at v 160 (* X_PM1b_EVT_BLK *) ++ gas_at v 172 (* X_PM1a_CNT_BLK *)
     ++ gas_at v 184 (* X_PM1b_CNT_BLK *) ++ gas_at v 196 (* X_PM2_CNT_BLK *) ++ gas_at v 208 (* X_PM_TMR_BLK *)
     ++ gas_at v 220 (* X_GPE0_BLK *) ++ gas_at v 232 (* X_GPE1_BLK *) ++ gas_at v 244 (* SLEEP_CONTROL_REG *)
     ++ gas_at v 256 (* SLEEP_STATUS_REG *)
     ++ [L 268 8 (val v 268) (* Hypervisor Vendor Identity *)]).

Definition fadt_body (v : fadt_vals) : option (list N) := lay_from 36 276 (fadt_layout v).

Definition fadt_ref_image (ctor : sx) (ops : list sx) : option (list N) :=
  match ctor with
  | SL [o; t; r] =>
      match sx_hdr_args o t r, fadt_fold fadt_vals0 ops with
      | Some h, Some v =>
          match fadt_body v with
          | Some body => Some (ref_table [70; 65; 67; 80] 6 h body)       (* "FACP", major revision 6 (crate) *)
          | None => None
          end
      | _, _ => None
      end
  | _ => None
  end.

Definition fadt_spec : tspec := {|
  ts_image := fadt_ref_image;
  ts_walk := None;
  ts_entries := fun _ _ => None;
  ts_counts := fun _ => [];
  ts_returns := fun _ => false
|}.
