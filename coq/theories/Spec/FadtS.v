(* STUB: Spec layer for fadt -- to be written *)
From Coq Require Import NArith List.
From ACPI Require Import Lib.Bytes Lib.Sx Spec.Layout.
Import ListNotations.
Definition fadt_spec : tspec := null_spec.
