(* STUB: Spec layer for rimt -- to be written *)
From Coq Require Import NArith List.
From ACPI Require Import Lib.Bytes Lib.Sx Spec.Layout.
Import ListNotations.
Definition rimt_spec : tspec := null_spec.
