(* Spec layer for the RIMT (RISC-V IO Mapping Table), written from SPEC_NOTES.md A.0 / A.2 (layout pinned by the crate's golden
   tests; table revision 1 and creator id are crate-defined).
   Case vocabulary (shared with Impl/Rimt.v and harness/src/t_rimt.rs), component 18:
     ctor  (oem6 tbl8 orev)
     ops   (1 id base? pci? prox? wires?)        add_iommu(Iommu::new(id, base, pci, prox, wires)) -> IommuOffset (reported as EvNum)
           (2 id segment ats pri maps?)          add_pcie_root_complex(PcieRootComplex::new(..))    -> reports 0
           (3 id name maps?)                     add_platform(Platform::new(id, name, maps))        -> reports 0
     Option arguments:  () = None, (v) = Some v
       base?  = () | (u64)            prox? = () | (u32)
       pci?   = () | ((segment bus device function))          PciDevice::new (asserts device < 32, function < 8)
       wires? = () | ((wire ...))     wire = (number level_triggered polarity_high aplic_id), booleans 0 / 1
       maps?  = () | ((map ...))      map  = (source_base dest_base count (104 k) ats pri rciep), booleans 0 / 1;
                                      (104 k) = the IommuOffset returned by the k-th real op (must be an add_iommu)
     name = list of bytes (ASCII), without the terminating NUL
   In this Spec a handle reference (104 k) is the offset at which the k-th added device starts in the reference image;
   it is in the domain only if that device is an IOMMU (type 0). *)
From Coq Require Import NArith List Bool Arith.
From ACPI Require Import Lib.Bytes Lib.Sx Spec.Layout.
Import ListNotations.
Open Scope N_scope.

(* ---- helpers shared with Spec/ViotS.v and Spec/CedtS.v ---- *)
Definition sp_bit (v k : N) : N := if v =? 0 then 0 else k.           (* a boolean argument contributes bit value k *)

Definition sp_opt (x : sx) : option (option N) :=
  match x with SL [] => Some None | SL [SA v] => Some (Some v) | _ => None end.

Definition sp_or0 (o : option N) : N := match o with Some v => v | None => 0 end.
Definition sp_some (o : option N) : N := match o with Some _ => 1 | None => 0 end.

(* PCI BDF (A.0): bus<<8 | device<<3 | function, defined for bus < 256, device < 32, function < 8 *)
Definition sp_bdf (bus dev fn : N) : option N :=
  if (bus <? 256) && (dev <? 32) && (fn <? 8) then Some (bus * 256 + dev * 8 + fn) else None.

Fixpoint sp_all {A} (f : sx -> option A) (l : list sx) (racc : list A) : option (list A) :=
  match l with
  | [] => Some (frev racc)
  | x :: r => match f x with Some a => sp_all f r (a :: racc) | None => None end
  end.

(* the start offsets (and type codes) of the entries added so far, most recent first; [n] = their number *)
Definition sp_starts := list (N * N).

Definition sp_lookup (n : nat) (rs : sp_starts) (x : sx) : option (N * N) :=
  match x with
  | SL [SA 104; SA k] => if Nat.ltb (N.to_nat k) n then nth_error rs (n - 1 - N.to_nat k) else None
  | _ => None
  end.

(* entries in insertion order, each laid out knowing where the earlier ones start *)
Fixpoint sp_entries (entry : nat -> sp_starts -> sx -> option (list N)) (ops : list sx) (off : N) (n : nat) (rs : sp_starts)
         (racc : list (list N)) : option (list (list N)) :=
  match ops with
  | [] => Some (frev racc)
  | o :: r =>
      match entry n rs o with
      | Some e => sp_entries entry r (off + N.of_nat (length e)) (S n) ((off, nth 0 e 0) :: rs) (e :: racc)
      | None => None
      end
  end.

(* ---- RIMT ---- *)

(* interrupt wire (8): 0+4 Number, 4+2 Flags (b0 level, b1 active high), 6+2 APLIC ID *)
Definition rimt_wire_ref (w : sx) : option (list N) :=
  match w with
  | SL [SA num; SA lvl; SA pol; SA aplic] => lay 8 [L 0 4 num; L 4 2 (sp_bit lvl 1 + sp_bit pol 2); L 6 2 aplic]
  | _ => None
  end.

(* ID mapping (20): 0+4 SourceBase, 4+4 DestBase, 8+4 Count, 12+4 DestIOMMUOffset (offset of a type-0 device),
   16+4 Flags (b0 ATS, b1 PRI, b2 RCiEP) *)
Definition rimt_map_ref (n : nat) (rs : sp_starts) (m : sx) : option (list N) :=
  match m with
  | SL [SA src; SA dst; SA cnt; href; SA ats; SA pri; SA rciep] =>
      match sp_lookup n rs href with
      | Some (off, 0) => lay 20 [L 0 4 src; L 4 4 dst; L 8 4 cnt; L 12 4 off; L 16 4 (sp_bit ats 1 + sp_bit pri 2 + sp_bit rciep 4)]
      | _ => None
      end
  | _ => None
  end.

Definition rimt_opt_list (f : sx -> option (list N)) (x : sx) : option (list (list N)) :=
  match x with
  | SL [] => Some []
  | SL [SL l] => sp_all f l []
  | _ => None
  end.

Definition rimt_pci_ref (x : sx) : option (option (N * N)) :=
  match x with
  | SL [] => Some None
  | SL [SL [SA seg; SA bus; SA dev; SA fn]] => match sp_bdf bus dev fn with Some b => Some (Some (seg, b)) | None => None end
  | _ => None
  end.

(* a device whose length does not fit the 16-bit length field is outside the domain *)
Definition rimt_fits (len : nat) (img : option (list N)) : option (list N) :=
  if 65535 <? N.of_nat len then None else img.

Definition rimt_entry_ref (n : nat) (rs : sp_starts) (o : sx) : option (list N) :=
  match o with
  | SL [SA 1; SA id; base; pci; prox; wires] =>
      (* 0 IOMMU (32 + 8w): type, revision 1, length, id, 6+2 Model=0, 8+8 Base, 16+4 Flags (b0 PCI device, b1 proximity domain
         valid), 20+2 Segment, 22+2 BDF, 24+4 ProximityDomain, 28+2 w, 30+2 WireArrayOffset=32, wires *)
      match sp_opt base, rimt_pci_ref pci, sp_opt prox, rimt_opt_list rimt_wire_ref wires with
      | Some b, Some p, Some px, Some ws =>
          let w := length ws in
          let len := (32 + 8 * w)%nat in
          rimt_fits len
            (option_map (fun h => h ++ concat ws)
               (lay 32 [L 0 1 0; L 1 1 1; L 2 2 (N.of_nat len); L 4 2 id; L 6 2 0; L 8 8 (sp_or0 b);
                        L 16 4 (match p with Some _ => 1 | None => 0 end + 2 * sp_some px);
                        L 20 2 (match p with Some q => fst q | None => 0 end); L 22 2 (match p with Some q => snd q | None => 0 end);
                        L 24 4 (sp_or0 px); L 28 2 (N.of_nat w); L 30 2 32]))
      | _, _, _, _ => None
      end
  | SL [SA 2; SA id; SA seg; SA ats; SA pri; maps] =>
      (* 1 PCIe RC (16 + 20m): 6+2 Segment, 8+4 Flags (b0 ATS, b1 PRI), 12+2 MappingOffset=16, 14+2 m, mappings *)
      match rimt_opt_list (rimt_map_ref n rs) maps with
      | Some ms =>
          let m := length ms in
          let len := (16 + 20 * m)%nat in
          rimt_fits len
            (option_map (fun h => h ++ concat ms)
               (lay 16 [L 0 1 1; L 1 1 1; L 2 2 (N.of_nat len); L 4 2 id; L 6 2 seg; L 8 4 (sp_bit ats 1 + sp_bit pri 2);
                        L 12 2 16; L 14 2 (N.of_nat m)]))
      | None => None
      end
  | SL [SA 3; SA id; name; maps] =>
      (* 2 Platform (12 + n+1 + 20m): 6+2 res, 8+2 MappingOffset = 12+n+1, 10+2 m, 12 name, NUL, mappings *)
      match sx_bytes name, rimt_opt_list (rimt_map_ref n rs) maps with
      | Some nm, Some ms =>
          let m := length ms in
          let k := length nm in
          let len := (12 + k + 1 + 20 * m)%nat in
          (* the name is a byte string: its bytes follow the 12 fixed bytes one by one, then the NUL *)
          rimt_fits len
            (option_map (fun h => h ++ map (fun b => b mod 256) nm ++ [0] ++ concat ms)
               (lay 12 [L 0 1 2; L 1 1 1; L 2 2 (N.of_nat len); L 4 2 id; L 6 2 0; L 8 2 (N.of_nat (12 + k + 1));
                        L 10 2 (N.of_nat m)]))
      | _, _ => None
      end
  | _ => None
  end.

Definition rimt_entries_ref (ops : list sx) : option (list (list N)) := sp_entries rimt_entry_ref ops 48 0 [] [].

(* 36+4 DeviceCount, 40+4 DeviceArrayOffset=48, 44+4 res; devices from 48 *)
Definition rimt_image (ctor : sx) (ops : list sx) : option (list N) :=
  match ctor with
  | SL [o; t; r] =>
      match sx_hdr_args o t r, rimt_entries_ref ops with
      | Some h, Some es =>
          Some (ref_table [82; 73; 77; 84] 1 h (le 4 (N.of_nat (length es)) ++ le 4 48 ++ le 4 0 ++ concat es))
      | _, _ => None
      end
  | _ => None
  end.

Definition rimt_spec : tspec := {|
  ts_image := rimt_image;
  ts_walk := Some (48%nat, H_u8_x_u16);
  ts_entries := fun _ ops => option_map (map (fun e => (nth 0 e 0, length e))) (rimt_entries_ref ops);
  ts_counts := fun n => [(36%nat, 4%nat, N.of_nat n); (40%nat, 4%nat, 48)];
  ts_returns := fun o => match o with SL (SA 1 :: _) => true | _ => false end
|}.
