(* Spec layer for the MADT (ACPI 6.5 5.2.12; RISC-V structures per ACPI 6.5 5.2.12.24-27), written from SPEC_NOTES.md A.2.
   Case vocabulary (shared with the harness):
     ctor  (oem6 tbl8 orev lic)      lic = () for LocalInterruptController::Riscv, (addr) for Address(addr)
     ops   (1 uid apic_id enabled) (2 id addr gsi) (3 status (gicc setters)) (4 id base ver) (5 (msi setters))
           (6 base len) (7 id base) (8 status hart uid ext ibase isize) (9 ...imsic via add_structure) (10 ...imsic via add_imsic)
           (11 id hw8 idcs gsi addr size total) (12 id hw8 total maxprio size addr gsi) *)
From Coq Require Import NArith List Bool.
From ACPI Require Import Lib.Bytes Lib.Sx Spec.Layout.
Import ListNotations.
Open Scope N_scope.

(* last value given to a setter (None if never called) *)
Fixpoint last_arg (k : N) (setters : list sx) (acc : option (list N)) : option (list N) :=
  match setters with
  | [] => acc
  | SL (SA k' :: args) :: r => last_arg k r (if k' =? k then sx_nums args else acc)
  | _ :: r => last_arg k r acc
  end.
Definition arg0 (k : N) (setters : list sx) : N := match last_arg k setters None with Some (v :: _) => v | _ => 0 end.
Definition arg1 (k : N) (setters : list sx) : N := match last_arg k setters None with Some (_ :: v :: _) => v | _ => 0 end.
Definition called (k : N) (setters : list sx) : bool := match last_arg k setters None with Some _ => true | None => false end.
Definition ever (p : sx -> bool) (setters : list sx) : bool := existsb p setters.

Definition madt_entry_ref (o : sx) : option (list N) :=
  match o with
  | SL [SA 1; SA uid; SA id; SA en] =>            (* Processor Local APIC *)
      lay 8 [L 0 1 0; L 1 1 8; L 2 1 uid; L 3 1 id; L 4 4 en]
  | SL [SA 2; SA id; SA addr; SA gsi] =>          (* I/O APIC *)
      lay 12 [L 0 1 1; L 1 1 12; L 2 1 id; L 3 1 0; L 4 4 addr; L 8 4 gsi]
  | SL [SA 3; SA status; SL st] =>                (* GICC *)
      let edge k := ever (fun s => match s with SL [SA k'; _; SA 1] => k' =? k | _ => false end) st in
      let flags := (if status =? 1 then 1 else 0) + (if edge 13 then 2 else 0) + (if edge 14 then 4 else 0)
                   + (if status =? 2 then 8 else 0) in
      lay 82 [L 0 1 0xB; L 1 1 82; L 2 2 0; L 4 4 (arg0 1 st); L 8 4 (arg0 2 st); L 12 4 flags; L 16 4 (arg0 3 st);
              L 20 4 (arg0 13 st); L 24 8 (arg0 4 st); L 32 8 (arg0 5 st); L 40 8 (arg0 6 st); L 48 8 (arg0 7 st);
              L 56 4 (arg0 14 st); L 60 8 (arg0 8 st); L 68 8 (arg0 9 st); L 76 1 (arg0 10 st); L 77 1 0;
              L 78 2 (arg0 11 st); L 80 2 (arg0 12 st)]
  | SL [SA 4; SA id; SA base; SA ver] =>          (* GICD *)
      lay 24 [L 0 1 0xC; L 1 1 24; L 2 2 0; L 4 4 id; L 8 8 base; L 16 4 0; L 20 1 ver; L 21 3 0]
  | SL [SA 5; SL st] =>                           (* GIC MSI frame: flag bit 0 = SPI count/base supplied *)
      lay 24 [L 0 1 0xD; L 1 1 24; L 2 2 0; L 4 4 (arg0 1 st); L 8 8 (arg0 2 st); L 16 4 (if called 3 st then 1 else 0);
              L 20 2 (arg0 3 st); L 22 2 (arg1 3 st)]
  | SL [SA 6; SA base; SA len] => lay 16 [L 0 1 0xE; L 1 1 16; L 2 2 0; L 4 8 base; L 12 4 len]
  | SL [SA 7; SA id; SA base] => lay 20 [L 0 1 0xF; L 1 1 20; L 2 2 0; L 4 4 id; L 8 8 base; L 16 4 0]
  | SL [SA 8; SA st; SA hart; SA uid; SA ext; SA ib; SA isz] =>
      lay 36 [L 0 1 0x18; L 1 1 36; L 2 1 1; L 3 1 0; L 4 4 st; L 8 8 hart; L 16 4 uid; L 20 4 ext; L 24 8 ib; L 32 4 isz]
  | SL [SA 9; SA a; SA b; SA c; SA d; SA e; SA g] | SL [SA 10; SA a; SA b; SA c; SA d; SA e; SA g] =>
      lay 16 [L 0 1 0x19; L 1 1 16; L 2 1 1; L 3 1 0; L 4 4 0; L 8 2 a; L 10 2 b; L 12 1 c; L 13 1 d; L 14 1 e; L 15 1 g]
  | SL [SA 11; SA id; hw; SA idcs; SA gsi; SA addr; SA size; SA total] =>
      match sx_bytes hw with
      | Some hwb => if Nat.eqb (length hwb) 8 then
          lay 36 ([L 0 1 0x1A; L 1 1 36; L 2 1 1; L 3 1 id; L 4 4 0] ++ LB 8 hwb ++
                  [L 16 2 idcs; L 18 2 total; L 20 4 gsi; L 24 8 addr; L 32 4 size]) else None
      | None => None
      end
  | SL [SA 12; SA id; hw; SA total; SA maxp; SA size; SA addr; SA gsi] =>
      match sx_bytes hw with
      | Some hwb => if Nat.eqb (length hwb) 8 then
          lay 36 ([L 0 1 0x1B; L 1 1 36; L 2 1 1; L 3 1 id] ++ LB 4 hwb ++
                  [L 12 2 total; L 14 2 maxp; L 16 4 0; L 20 4 size; L 24 8 addr; L 32 4 gsi]) else None
      | None => None
      end
  | _ => None
  end.

Fixpoint opt_concat (l : list (option (list N))) : option (list (list N)) :=
  match l with
  | [] => Some []
  | Some x :: r => match opt_concat r with Some r' => Some (x :: r') | None => None end
  | None :: _ => None
  end.

Definition is_imsic_add (o : sx) : bool := match o with SL (SA 10 :: _) => true | _ => false end.

Definition madt_entries_ref (ops : list sx) : option (list (list N)) :=
  (* at most one IMSIC may be added through add_imsic *)
  if Nat.ltb 1 (length (filter is_imsic_add ops)) then None else opt_concat (map madt_entry_ref ops).

Definition madt_image (ctor : sx) (ops : list sx) : option (list N) :=
  match ctor with
  | SL [o; t; r; lic] =>
      match sx_hdr_args o t r, (match lic with SL [] => Some 0 | SL [SA a] => Some a | _ => None end), madt_entries_ref ops with
      | Some h, Some addr, Some es => Some (ref_table [65; 80; 73; 67] 1 h (le 4 addr ++ le 4 0 ++ concat es))
      | _, _, _ => None
      end
  | _ => None
  end.

Definition madt_spec : tspec := {|
  ts_image := madt_image;
  ts_walk := Some (44%nat, H_u8_u8);
  ts_entries := fun _ ops => option_map (map (fun e => (nth 0 e 0, length e))) (madt_entries_ref ops);
  ts_counts := fun _ => [];
  ts_returns := fun _ => false
|}.
