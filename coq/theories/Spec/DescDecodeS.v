(* Spec layer: a decoder of resource descriptors, written from the byte tables of ACPI 6.5 section 6.4.
   It takes an item as the walker [rd_walk] of Spec/AmlTermS.v delivers it -- the tag byte and the payload bytes that
   the item's own length field covers -- and returns the values the descriptor carries, each read with [unle] at the
   byte offset the specification's table gives for it.  Nothing here looks at the encoder of Impl/AmlTerm.v.

   Offsets are the "Byte n" column of the specification's tables, counted from the tag byte:
     small item : byte 0 tag,                      payload starts at byte 1
     large item : byte 0 tag, bytes 1-2 length,    payload starts at byte 3 *)
From Coq Require Import NArith List Bool Arith.
From ACPI Require Import Lib.Bytes.
Import ListNotations.
Open Scope N_scope.

(* the caller-visible values of one descriptor *)
Inductive dvalue :=
| VMem32 (rw base len : N)                                   (* _RW _BAS _LEN *)
| VAddr (bits : N)                                           (* 16 / 32 / 64: Word / DWord / QWord descriptor *)
        (rtype gflags tflags : N)                            (* resource type, general flags, type specific flags *)
        (gran min max trans len : N)                         (* _GRA _MIN _MAX _TRA _LEN *)
| VIO (decode16 min max align len : N)                       (* _DEC _MIN _MAX _ALN _LEN *)
| VIrq (consumer edge active_low shared wake : N)            (* bits 0..4 of the interrupt vector flags *)
       (count : N) (numbers : list N)                        (* interrupt table length, the interrupt numbers *)
| VReg (space width offset access addr : N)                  (* _ASI _RBW _RBO _ASZ _ADR *)
| VEnd (checksum : N).                                       (* the end tag closing a template *)

(* [w] bytes at payload offset [off], little endian *)
Definition rd_field (off w : nat) (p : list N) : N := unle (firstn w (skipn off p)).

(* the same, addressed by the specification's byte number *)
Definition sm (byte w : nat) (p : list N) : N := rd_field (byte - 1) w p.     (* small item *)
Definition lg (byte w : nat) (p : list N) : N := rd_field (byte - 3) w p.     (* large item *)

Definition bit (i : N) (x : N) : N := (x / 2 ^ i) mod 2.

(* 6.4.3.4  32-Bit Fixed Memory Range Descriptor: tag 0x86, length 9.
     byte 3 information (bit 0 _RW, bits 7:1 ignored), bytes 4-7 _BAS, bytes 8-11 _LEN *)
Definition dec_mem32 (p : list N) : option dvalue :=
  if Nat.eqb (length p) 9%nat then Some (VMem32 (bit 0 (lg 3 1 p)) (lg 4 4 p) (lg 8 4 p)) else None.

(* 6.4.3.5.1  QWord Address Space Descriptor: tag 0x8A, length 0x2B when no Resource Source follows.
     byte 3 resource type, byte 4 general flags, byte 5 type specific flags,
     bytes 6-13 _GRA, 14-21 _MIN, 22-29 _MAX, 30-37 _TRA, 38-45 _LEN *)
Definition dec_qword (p : list N) : option dvalue :=
  if Nat.eqb (length p) 0x2B%nat
  then Some (VAddr 64 (lg 3 1 p) (lg 4 1 p) (lg 5 1 p) (lg 6 8 p) (lg 14 8 p) (lg 22 8 p) (lg 30 8 p) (lg 38 8 p))
  else None.

(* 6.4.3.5.2  DWord Address Space Descriptor: tag 0x87, length 0x17 when no Resource Source follows.
     bytes 3, 4, 5 as above; bytes 6-9 _GRA, 10-13 _MIN, 14-17 _MAX, 18-21 _TRA, 22-25 _LEN *)
Definition dec_dword (p : list N) : option dvalue :=
  if Nat.eqb (length p) 0x17%nat
  then Some (VAddr 32 (lg 3 1 p) (lg 4 1 p) (lg 5 1 p) (lg 6 4 p) (lg 10 4 p) (lg 14 4 p) (lg 18 4 p) (lg 22 4 p))
  else None.

(* 6.4.3.5.3  Word Address Space Descriptor: tag 0x88, length 0x0D when no Resource Source follows.
     bytes 3, 4, 5 as above; bytes 6-7 _GRA, 8-9 _MIN, 10-11 _MAX, 12-13 _TRA, 14-15 _LEN *)
Definition dec_word (p : list N) : option dvalue :=
  if Nat.eqb (length p) 0x0D%nat
  then Some (VAddr 16 (lg 3 1 p) (lg 4 1 p) (lg 5 1 p) (lg 6 2 p) (lg 8 2 p) (lg 10 2 p) (lg 12 2 p) (lg 14 2 p))
  else None.

(* 6.4.2.5  I/O Port Descriptor: small item, tag byte 0x47 (name 0x8, length 7).
     byte 1 information (bit 0 _DEC, bits 7:1 reserved, must be 0), bytes 2-3 _MIN, 4-5 _MAX, byte 6 _ALN, byte 7 _LEN *)
Definition dec_io (p : list N) : option dvalue :=
  if Nat.eqb (length p) 7%nat && (sm 1 1 p <? 2)
  then Some (VIO (bit 0 (sm 1 1 p)) (sm 2 2 p) (sm 4 2 p) (sm 6 1 p) (sm 7 1 p))
  else None.

(* 6.4.3.6  Extended Interrupt Descriptor: tag 0x89, length 2 + 4 * count when no Resource Source follows.
     byte 3 interrupt vector flags (bit 0 consumer, bit 1 _HE edge, bit 2 _LL active low, bit 3 _SHR shared,
     bit 4 _WKC wake capable, bits 7:5 reserved, must be 0), byte 4 interrupt table length,
     bytes 4n+5 .. 4n+8 interrupt number n *)
Definition dec_irq (p : list N) : option dvalue :=
  let flags := lg 3 1 p in
  let count := lg 4 1 p in
  if Nat.eqb (length p) (2 + 4 * N.to_nat count) && (flags <? 32)
  then Some (VIrq (bit 0 flags) (bit 1 flags) (bit 2 flags) (bit 3 flags) (bit 4 flags) count
                  (map (fun n => lg (4 * n + 5) 4 p) (seq 0 (N.to_nat count))))
  else None.

(* 6.4.3.7  Generic Register Descriptor: tag 0x82, length 0x0C.
     byte 3 _ASI, byte 4 _RBW, byte 5 _RBO, byte 6 _ASZ, bytes 7-14 _ADR *)
Definition dec_reg (p : list N) : option dvalue :=
  if Nat.eqb (length p) 0x0C%nat then Some (VReg (lg 3 1 p) (lg 4 1 p) (lg 5 1 p) (lg 6 1 p) (lg 7 8 p)) else None.

(* 6.4.2.9  End Tag: small item, tag byte 0x79 (name 0xF, length 1).  byte 1 checksum (0: treat the data as valid) *)
Definition dec_end (p : list N) : option dvalue :=
  if Nat.eqb (length p) 1%nat then Some (VEnd (sm 1 1 p)) else None.

(* Descriptors with a Resource Source (the variable-length tails of 6.4.3.5 and 6.4.3.6) and the kinds the crate has
   no constructor for are not decoded: None. *)
Definition desc_decode (tag : N) (payload : list N) : option dvalue :=
  match tag with
  | 0x86 => dec_mem32 payload
  | 0x8A => dec_qword payload
  | 0x87 => dec_dword payload
  | 0x88 => dec_word payload
  | 0x47 => dec_io payload
  | 0x89 => dec_irq payload
  | 0x82 => dec_reg payload
  | 0x79 => dec_end payload
  | _ => None
  end.

Definition decode_item (i : N * list N) : option dvalue := desc_decode (fst i) (snd i).
