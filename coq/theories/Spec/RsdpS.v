(* STUB: Spec layer for rsdp -- to be written *)
From Coq Require Import NArith List.
From ACPI Require Import Lib.Bytes Lib.Sx Spec.Layout.
Import ListNotations.
Definition rsdp_spec : tspec := null_spec.
