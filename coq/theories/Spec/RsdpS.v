(* Spec layer for the RSDP (ACPI 6.5 5.2.5.3), written from SPEC_NOTES.md A.1 (36 bytes, no standard header):
   0+8 "RSD PTR ", 8+1 Checksum (first 20 bytes sum to 0), 9+6 OEMID, 15+1 Revision=2, 16+4 RsdtAddress=0, 20+4 Length=36,
   24+8 XsdtAddress, 32+1 ExtendedChecksum (all 36 bytes sum to 0), 33+3 reserved.  Both checksums are computed from content.
   Case vocabulary (shared with the harness, component 30):
     ctor  (oem6 xsdt_addr)          Rsdp::new(oem_id, xsdt_addr: u64)
     ops   none (observations only) *)
From Coq Require Import NArith List Bool.
From ACPI Require Import Lib.Bytes Lib.Sx Spec.Layout Spec.FixedS.
Import ListNotations.
Open Scope N_scope.

Definition rsdp_lay (oem : list N) (xsdt cks ext : N) : option (list N) :=
  lay 36 (LB 0 [82; 83; 68; 32; 80; 84; 82; 32] ++ [L 8 1 cks] ++ LB 9 oem ++
          [L 15 1 2; L 16 4 0; L 20 4 36; L 24 8 xsdt; L 32 1 ext; L 33 3 0]).

Definition neg8 (s : N) : N := (256 - s mod 256) mod 256.

Definition rsdp_ref (ctor : sx) : option (list N) :=
  match ctor with
  | SL [o; SA xsdt] =>
      match sx_bytes o with
      | Some oem =>
          if Nat.eqb (length oem) 6 then
            match rsdp_lay oem xsdt 0 0 with
            | Some i0 =>
                let cks := neg8 (sumN (firstn 20 i0)) in
                match rsdp_lay oem xsdt cks 0 with
                | Some i1 => rsdp_lay oem xsdt cks (neg8 (sumN i1))
                | None => None
                end
            | None => None
            end
          else None
      | None => None
      end
  | _ => None
  end.

Definition rsdp_spec : tspec := fixed_spec (ctor_only rsdp_ref).
