(* STUB: Spec layer for hest -- to be written *)
From Coq Require Import NArith List.
From ACPI Require Import Lib.Bytes Lib.Sx Spec.Layout.
Import ListNotations.
Definition hest_spec : tspec := null_spec.
