(* Spec layer for the HEST (ACPI 6.5 18.3.2) and the two stand-alone error structures of hest.rs (18.3.2.7.1), written
   from SPEC_NOTES.md A.2.

   Case vocabulary of component 21 (shared with harness/src/t_hest.rs and Impl/Hest.v):
     ctor  (oem6 tbl8 orev)
     ops   (1 aer-ctor (setters))           add_structure(PcieAerRootPort ...)          type 6, 48 bytes
           (2 aer-ctor (setters))           add_structure(PcieAerDevice ...)            type 7, 44 bytes
           (3 aer-ctor (setters))           add_structure(PcieAerBridge ...)            type 8, 56 bytes
           (4 source_id enabled (setters))  add_structure(GenericHardwareSource::new(source_id, enabled) ...)    type 9, 64 bytes
           (5 source_id enabled (setters))  add_structure(GenericHardwareSourceV2::new(source_id, enabled) ...)  type 10, 92 bytes
           (20 (cc uc) sev)                 GenericErrorStatus::new(cc, uc, sev), serialised alone
           (21 sev (assignments))           GenericErrorData::new(sev) followed by assignments to its pub fields, serialised alone
       aer-ctor  (0) = new_global()    (1 ff bus dev fn) = new_root_port / new_bridge(ff, PciDevice::new(bus, dev, fn)),
                 ff: 0 FirmwareFirst::Disabled, 1 Enabled
       AER setters (id value), applied in order: 1 num_records 2 max_sections 3 device_control 4 uncorrectable_error_mask
                 5 uncorrectable_error_severity 6 correctable_error_mask 7 aer_cap_ctrl;
                 root port only: 8 root_error_command;
                 bridge only: 8 secondary_uncorrectable_error_mask 9 secondary_uncorrectable_error_severity 10 secondary_aer_cap_ctrl
       enabled   0 EnabledStatus::Disabled, 1 Enabled
       GHES setters: (1 v) num_records (2 v) max_sections (3 v) max_raw_length (4 gas) error_status_address
                 (5 ntype (nsetters)) notification(NotificationStructure::new(ntype) + nsetters) (6 v) error_status_block_len;
                 V2 only: (7 gas) read_ack_register (8 v) read_ack_preserve (9 v) read_ack_write;    gas: see Spec/GasS.v
       ntype     0..15 = NotificationType in declaration order (0 Polled ... 15 RiscvHardwareErrorException)
       nsetters  (id value): 1 conf_write_en 2 poll_interval_ms 3 vector 4 polling_threshold_value
                 5 polling_threshold_window_ms 6 error_threshold_value 7 error_threshold_window_ms
       sev       ErrorSeverity: 0 Recoverable 1 Fatal 2 Correctable 3 None
       assignments (id value): 1 section_type 2 severity 3 revision 4 validation 5 flags 6 error_data_length
                 (7 bytes16) fru_id (8 bytes20) fru_text (9 bytes8) timestamp
   Observation protocol: every op emits one Num 0.  After an op 20 / 21 the observation `1` shows the bytes of that
   stand-alone structure (not the table); after any other op it shows the table.  Ops 20 / 21 do not touch the table. *)
From Coq Require Import NArith List Bool.
From ACPI Require Import Lib.Bytes Lib.Sx Spec.Layout Spec.GasS.
Import ListNotations.
Open Scope N_scope.

(* ---- PCIe AER root port (6, 48 bytes) / endpoint (7, 44) / bridge (8, 56) ---- *)
Definition aer_size (ty : N) : nat := match ty with 6 => 48%nat | 7 => 44%nat | _ => 56%nat end.
Definition aer_max_setter (ty : N) : N := match ty with 6 => 8 | 7 => 7 | _ => 10 end.

Definition aer_ref (ty : N) (c : sx) (st : list sx) : option (list N) :=
  let go (flags bus dev fn : N) :=
    if setters_ok (fun k args => one_num args && (1 <=? k) && (k <=? aer_max_setter ty)) st then
      lay (aer_size ty)
        ([L 0 2 ty; L 2 2 0 (* SourceID: no setter *); L 4 2 0; L 6 1 flags; L 7 1 0 (* Enabled: no setter *);
          L 8 4 (num_arg 1 st); L 12 4 (num_arg 2 st); L 16 4 bus; L 20 2 dev; L 22 2 fn; L 24 2 (num_arg 3 st); L 26 2 0;
          L 28 4 (num_arg 4 st); L 32 4 (num_arg 5 st); L 36 4 (num_arg 6 st); L 40 4 (num_arg 7 st)]
         ++ match ty with
            | 6 => [L 44 4 (num_arg 8 st)]
            | 8 => [L 44 4 (num_arg 8 st); L 48 4 (num_arg 9 st); L 52 4 (num_arg 10 st)]
            | _ => []
            end)
    else None in
  match c with
  | SL [SA 0] => go 2 0 0 0                                        (* global: flag bit 1 *)
  | SL [SA 1; SA ff; SA bus; SA dev; SA fn] =>                     (* firmware first: flag bit 0 *)
      if (ff <? 2) && (bus <? 256) && (dev <? 32) && (fn <? 8) then go ff bus dev fn else None
  | _ => None
  end.

(* ---- hardware error notification structure (28 bytes) ---- *)
Definition notif_ref (ty : N) (nst : list sx) : option (list N) :=
  if (ty <=? 15) && setters_ok (fun k args => one_num args && (1 <=? k) && (k <=? 7)) nst then
    lay 28 [L 0 1 ty; L 1 1 28; L 2 2 (num_arg 1 nst); L 4 4 (num_arg 2 nst); L 8 4 (num_arg 3 nst); L 12 4 (num_arg 4 nst);
            L 16 4 (num_arg 5 nst); L 20 4 (num_arg 6 nst); L 24 4 (num_arg 7 nst)]
  else None.

(* ---- generic hardware error source (9, 64 bytes) and version 2 (10, 92 bytes) ---- *)
Definition ghes_setter_ok (ty k : N) (args : list sx) : bool :=
  match k with
  | 1 | 2 | 3 | 6 => one_num args
  | 4 => match args with [g] => match gas_ref g with Some _ => true | None => false end | _ => false end
  | 5 => match args with [SA nty; SL nst] => match notif_ref nty nst with Some _ => true | None => false end | _ => false end
  | 7 => (ty =? 10) && match args with [g] => match gas_ref g with Some _ => true | None => false end | _ => false end
  | 8 | 9 => (ty =? 10) && one_num args
  | _ => false
  end.

Definition gas_arg (k : N) (st : list sx) : option (list N) :=
  match last_call k st None with
  | Some [g] => gas_ref g
  | Some _ => None
  | None => gas_ref (SL [SA 2])            (* never set: all zero *)
  end.

Definition ghes_ref (ty id en : N) (st : list sx) : option (list N) :=
  if (id <? 65536) && (en <? 2) && setters_ok (ghes_setter_ok ty) st then
    match gas_arg 4 st,
          (match last_call 5 st None with
           | Some [SA nty; SL nst] => notif_ref nty nst
           | Some _ => None
           | None => notif_ref 0 []        (* never set: type 0 (polled), length 28 *)
           end),
          gas_arg 7 st with
    | Some esa, Some nt, Some rar =>
        lay (if ty =? 10 then 92 else 64)
          ([L 0 2 ty; L 2 2 id; L 4 2 0xFFFF; L 6 1 0; L 7 1 en; L 8 4 (num_arg 1 st); L 12 4 (num_arg 2 st);
            L 16 4 (num_arg 3 st)] ++ LB 20 esa ++ LB 32 nt ++ [L 60 4 (num_arg 6 st)]
           ++ (if ty =? 10 then LB 64 rar ++ [L 76 8 (num_arg 8 st); L 84 8 (num_arg 9 st)] else []))
    | _, _, _ => None
    end
  else None.

Definition hest_entry_ref (o : sx) : option (list N) :=
  match o with
  | SL [SA 1; c; SL st] => aer_ref 6 c st
  | SL [SA 2; c; SL st] => aer_ref 7 c st
  | SL [SA 3; c; SL st] => aer_ref 8 c st
  | SL [SA 4; SA id; SA en; SL st] => ghes_ref 9 id en st
  | SL [SA 5; SA id; SA en; SL st] => ghes_ref 10 id en st
  | _ => None
  end.

(* ---- stand-alone: generic error status block (20 bytes + data; no data can be attached through the API) ----
   BlockStatus: b0 uncorrectable error valid, b1 correctable error valid, b2 multiple uncorrectable, b3 multiple correctable.
   From the counts: an error of a class exists (valid) iff its count >= 1; multiple iff its count >= 2. *)
Definition ges_status (cc uc : N) : N :=
  (if 1 <=? uc then 1 else 0) + (if 1 <=? cc then 2 else 0) + (if 2 <=? uc then 4 else 0) + (if 2 <=? cc then 8 else 0).

Definition ges_ref (cc uc sev : N) : option (list N) :=
  (* how a count of two or more maps onto the valid / multiple bits is the crate's choice, not the specification's: not judged *)
  if (cc <? 2) && (uc <? 2) && (sev <=? 3) then
    lay 20 [L 0 4 (ges_status cc uc); L 4 4 0; L 8 4 0; L 12 4 0; L 16 4 sev]
  else None.

(* ---- stand-alone: generic error data entry (ACPI 6.5 Table 18.13: 72 bytes + data) ---- *)
Definition ged_assign_ok (k : N) (args : list sx) : bool :=
  match k with
  | 1 | 3 | 4 | 5 | 6 => one_num args
  | 2 => match args with [SA v] => v <=? 3 | _ => false end
  | 7 => match args with [b] => match sx_bytes b with Some l => Nat.eqb (length l) 16 | None => false end | _ => false end
  | 8 => match args with [b] => match sx_bytes b with Some l => Nat.eqb (length l) 20 | None => false end | _ => false end
  | 9 => match args with [b] => match sx_bytes b with Some l => Nat.eqb (length l) 8 | None => false end | _ => false end
  | _ => false
  end.

Definition bytes_arg (k : N) (n : nat) (st : list sx) : list N :=
  match last_call k st None with
  | Some [b] => match sx_bytes b with Some l => map (fun x => x mod 256) l | None => repeatN 0 n end
  | _ => repeatN 0 n
  end.

Definition ged_ref (sev : N) (st : list sx) : option (list N) :=
  if (sev <=? 3) && setters_ok ged_assign_ok st then
    let severity := match last_call 2 st None with Some [SA v] => v | _ => sev end in
    lay 72 ([L 0 16 (num_arg 1 st) (* SectionType: a 16-byte GUID field *); L 16 4 severity; L 20 2 (num_arg 3 st);
             L 22 1 (num_arg 4 st); L 23 1 (num_arg 5 st); L 24 4 (num_arg 6 st)]
            ++ LB 28 (bytes_arg 7 16 st) ++ LB 44 (bytes_arg 8 20 st) ++ LB 64 (bytes_arg 9 8 st))
  else None.

Definition is_alone_op (o : sx) : bool :=
  match o with SL (SA 20 :: _) | SL (SA 21 :: _) => true | _ => false end.

Definition alone_ref (o : sx) : option (list N) :=
  match o with
  | SL [SA 20; SL [SA cc; SA uc]; SA sev] => ges_ref cc uc sev
  | SL [SA 21; SA sev; SL st] => ged_ref sev st
  | _ => None
  end.

(* ---- the table ---- *)
Definition hest_adds (ops : list sx) : list sx := filter (fun o => negb (is_alone_op o)) ops.

Definition hest_entries_ref (ops : list sx) : option (list (list N)) := opt_seq (map hest_entry_ref (hest_adds ops)).

Definition last_op (ops : list sx) : option sx := match frev ops with o :: _ => Some o | [] => None end.

Definition shows_alone (ops : list sx) : bool :=
  match last_op ops with Some o => is_alone_op o | None => false end.

Definition hest_image (ctor : sx) (ops : list sx) : option (list N) :=
  match ctor with
  | SL [o; t; r] =>
      match sx_hdr_args o t r, hest_entries_ref ops with
      | Some h, Some es =>
          if shows_alone ops then match last_op ops with Some a => alone_ref a | None => None end
          else if N.of_nat (length es) <? 2 ^ 32
               then Some (ref_table [72; 69; 83; 84] 1 h (le 4 (N.of_nat (length es)) ++ concat es))
               else None
      | _, _ => None
      end
  | _ => None
  end.

Definition hest_type_size (e : list N) : N * nat := (field_at e 0 2, length e).

Definition hest_spec : tspec := {|
  ts_image := hest_image;
  ts_walk := Some (40%nat, H_hest);
  (* an observation taken right after a stand-alone structure shows no table: nothing to walk *)
  ts_entries := fun _ ops => if shows_alone ops then None else option_map (map hest_type_size) (hest_entries_ref ops);
  ts_counts := fun n => [(36%nat, 4%nat, N.of_nat n)];
  ts_returns := fun _ => false
|}.
