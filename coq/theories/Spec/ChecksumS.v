(* Spec-side oracle for C17: a wide-integer reference run over the operations of the case,
   applied to the values the IMPLEMENTATION reported. Independent of Impl/Checksum.v. *)
From Coq Require Import NArith ZArith List Bool.
From ACPI Require Import Lib.Bytes Lib.Sx.
Import ListNotations.
Open Scope Z_scope.

Fixpoint zsumS (l : list N) : Z := match l with [] => 0 | x :: r => Z.of_N x + zsumS r end.

(* signed contribution of one operation, over Z *)
Definition ck_delta (o : sx) : option Z :=
  match o with
  | SL [SA 0; SA b] | SL [SA 4; SA b] => Some (Z.of_N b)
  | SL [SA 1; SA b] => Some (- Z.of_N b)
  | SL [SA 2; l] | SL [SA 8; l] => option_map zsumS (sx_bytes l)
  | SL [SA 3; l] => option_map (fun x => - zsumS x) (sx_bytes l)
  | SL [SA 5; SA x] => Some (zsumS (le 2 x))
  | SL [SA 6; SA x] => Some (zsumS (le 4 x))
  | SL [SA 7; SA x] => Some (zsumS (le 8 x))
  | _ => None
  end.

Fixpoint ck_oracle_go (acc : Z) (ops : list sx) (evs : list ev) : bool :=
  match ops, evs with
  | [], [] => true
  | o :: ops', EvNum raw :: EvNum val :: evs' =>
      match ck_delta o with
      | Some d => let acc' := acc + d in
                  Z.eqb (Z.of_N raw) (acc' mod 256) && Z.eqb ((Z.of_N raw + Z.of_N val) mod 256) 0
                  && (N.ltb val 256) && ck_oracle_go acc' ops' evs'
      | None => false
      end
  | _, _ => false
  end.

Definition ck_oracle (c : sx) (evs : list ev) : bool :=
  match c with SL ops => ck_oracle_go 0 ops evs | SA _ => false end.
