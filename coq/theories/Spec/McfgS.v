(* STUB: Spec layer for mcfg -- to be written *)
From Coq Require Import NArith List.
From ACPI Require Import Lib.Bytes Lib.Sx Spec.Layout.
Import ListNotations.
Definition mcfg_spec : tspec := null_spec.
