(* Spec layer for the MCFG (PCI Firmware Specification 3.x, table 4-2/4-3), written from SPEC_NOTES.md A.2:
   36+8 reserved; entries from 44, 16 bytes: 0+8 Base, 8+2 Segment, 10 StartBus, 11 EndBus, 12+4 reserved.
   Case vocabulary (shared with the harness, component 11):
     ctor  (oem6 tbl8 orev)                        MCFG::new(oem_id, oem_table_id, oem_revision)
     ops   (1 base segment start_bus end_bus)      add_ecam(base_addr: u64, segment: u16, start_bus: u8, end_bus: u8)  -> event n0 *)
From Coq Require Import NArith List Bool.
From ACPI Require Import Lib.Bytes Lib.Sx Spec.Layout Spec.MadtS.
Import ListNotations.
Open Scope N_scope.

Definition mcfg_entry_ref (o : sx) : option (list N) :=
  match o with
  | SL [SA 1; SA base; SA seg; SA sb; SA eb] => lay 16 [L 0 8 base; L 8 2 seg; L 10 1 sb; L 11 1 eb; L 12 4 0]
  | _ => None
  end.

Definition mcfg_entries_ref (ops : list sx) : option (list (list N)) := opt_concat (map mcfg_entry_ref ops).

Definition mcfg_image (ctor : sx) (ops : list sx) : option (list N) :=
  match ctor with
  | SL [o; t; r] =>
      match sx_hdr_args o t r, mcfg_entries_ref ops with
      | Some h, Some es => Some (ref_table [77; 67; 70; 71] 1 h (le 8 0 ++ concat es))      (* "MCFG", revision 1 (crate) *)
      | _, _ => None
      end
  | _ => None
  end.

Definition mcfg_spec : tspec := {|
  ts_image := mcfg_image;
  ts_walk := Some (44%nat, H_fixed 16);
  ts_entries := fun _ ops => option_map (map (fun e => (0, length e))) (mcfg_entries_ref ops);
  ts_counts := fun _ => [];
  ts_returns := fun _ => false
|}.
