(* Spec layer, generic part: offset-indexed reference layouts, the reference table builder (header, length,
   checksum derived from content), self-describing entry walkers, and the generic oracles that judge an
   implementation's observations of a table history.  Nothing here refers to the Impl model. *)
From Coq Require Import NArith List Bool Arith.
From ACPI Require Import Lib.Bytes Lib.Sx.
Import ListNotations.
Open Scope N_scope.

(* ---------- offset-indexed layouts ---------- *)
Definition layout := list (nat * nat * N).       (* (offset, width in bytes, value) *)

Definition L (off w : nat) (v : N) : nat * nat * N := (off, w, v).
Arguments L off%nat w%nat v%N.

(* a byte-array field *)
Fixpoint LB (off : nat) (bytes : list N) : layout :=
  match bytes with [] => [] | b :: r => (off, 1%nat, b) :: LB (S off) r end.

Fixpoint layout_ok_from (off : nat) (l : layout) : bool :=
  match l with
  | [] => true
  | (o, w, _) :: r => Nat.eqb o off && layout_ok_from (off + w) r
  end.

Fixpoint layout_size (l : layout) : nat := match l with [] => O | (_, w, _) :: r => (w + layout_size r)%nat end.

Definition assemble (l : layout) : list N := concat (map (fun x => le (snd (fst x)) (snd x)) l).

(* checked assembly: the field table must be contiguous from offset 0 and total [size] bytes *)
Definition lay (size : nat) (l : layout) : option (list N) :=
  if layout_ok_from 0 l && Nat.eqb (layout_size l) size then Some (assemble l) else None.

(* independent decoder: the value found at (offset, width) of an image *)
Definition field_at (img : list N) (off w : nat) : N := unle (firstn w (skipn off img)).

Definition decodes_to (img : list N) (l : layout) : bool :=
  forallb (fun x => match x with (o, w, v) => field_at img o w =? v mod 2 ^ (8 * N.of_nat w) end) l.

(* ---------- the standard header and the reference table ---------- *)
Definition CREATOR : list N := [82; 86; 65; 84; 0; 0; 0; 1].    (* crate-defined: "RVAT", revision 00 00 00 01 *)

Definition ref_header (sig : list N) (len rev cks : N) (oem tbl : list N) (orev : N) : list N :=
  sig ++ le 4 len ++ [rev mod 256] ++ [cks mod 256] ++ oem ++ tbl ++ le 4 orev ++ CREATOR.

Record hdr_args := { ha_oem : list N; ha_tbl : list N; ha_orev : N }.

Definition sx_hdr_args (o t r : sx) : option hdr_args :=
  match sx_bytes o, sx_bytes t, sx_num r with
  | Some a, Some b, Some c => if Nat.eqb (length a) 6 && Nat.eqb (length b) 8 then Some {| ha_oem := a; ha_tbl := b; ha_orev := c |} else None
  | _, _, _ => None
  end.

(* the reference image of a table: Length = total size, Checksum such that everything sums to 0 *)
Definition ref_table (sig : list N) (rev : N) (h : hdr_args) (rest : list N) : list N :=
  let len := 36 + N.of_nat (length rest) in
  let h0 := ref_header sig len rev 0 (ha_oem h) (ha_tbl h) (ha_orev h) in
  let s := (sumN h0 + sumN rest) mod 256 in
  ref_header sig len rev ((256 - s) mod 256) (ha_oem h) (ha_tbl h) (ha_orev h) ++ rest.

(* ---------- self-describing entries ---------- *)
Inductive ehdr :=
| H_u8_u8            (* type u8, length u8                       MADT SRAT PPTT *)
| H_u16_u16_u32      (* type u16, reserved u16, length u32       HMAT *)
| H_u16_u16          (* type u16, length u16                     RHCT *)
| H_u8_x_u16         (* type u8, one byte, length u16            RIMT VIOT CEDT RQSC *)
| H_fixed (n : nat)  (* no header: fixed-size entries            XSDT MCFG *)
| H_hest.            (* type u16, size fixed by type             HEST *)

Definition read_ehdr (h : ehdr) (l : list N) : option (N * nat) :=
  match h, l with
  | H_u8_u8, t :: n :: _ => Some (t, N.to_nat n)
  | H_u16_u16_u32, t0 :: t1 :: _ :: _ :: a :: b :: c :: d :: _ => Some (unle [t0; t1], N.to_nat (unle [a; b; c; d]))
  | H_u16_u16, t0 :: t1 :: a :: b :: _ => Some (unle [t0; t1], N.to_nat (unle [a; b]))
  | H_u8_x_u16, t :: _ :: a :: b :: _ => Some (t, N.to_nat (unle [a; b]))
  | H_fixed n, _ :: _ => Some (0, n)
  | H_hest, t0 :: t1 :: _ =>
      let t := unle [t0; t1] in
      match t with 6 => Some (t, 48%nat) | 7 => Some (t, 44%nat) | 8 => Some (t, 56%nat) | 9 => Some (t, 64%nat) | 10 => Some (t, 92%nat) | _ => None end
  | _, _ => None
  end.

(* step through the body by each entry's own length; None if an entry overruns, has length 0, or the header is cut *)
Fixpoint walk (fuel : nat) (h : ehdr) (off : nat) (l : list N) : option (list (N * nat * nat)) :=
  match l with
  | [] => Some []
  | _ =>
      match fuel with
      | O => None
      | S f =>
          match read_ehdr h l with
          | Some (ty, len) =>
              if Nat.eqb len 0 || negb (Nat.eqb (length (firstn len l)) len) then None   (* the entry must fit *)
              else match walk f h (len + off) (skipn len l) with      (* len + off: unary addition recurses on the small operand *)
                   | Some r => Some ((ty, off, len) :: r)
                   | None => None
                   end
          | None => None
          end
      end
  end.

(* ---------- per-table specification record and generic oracles ---------- *)

(* the reference image after a constructor and a list of operations (None: outside the domain the
   specification defines, e.g. a PCI device number >= 32 or a count that does not fit its field) *)
Record tspec := {
  ts_image : sx -> list sx -> option (list N);
  (* where the self-describing entries start, and how they describe themselves (None: no variable body) *)
  ts_walk : option (nat * ehdr);
  (* the entries the walk must find: (type code, length) per added entry, in order *)
  ts_entries : sx -> list sx -> option (list (N * nat));
  (* count / offset summary fields: (offset, width, expected value from the number of entries) *)
  ts_counts : nat -> list (nat * nat * N);
  (* does this operation return a handle (then the observations carry an EvNum for it)? *)
  ts_returns : sx -> bool
}.

Definition real_ops (ops : list sx) : list sx := filter (fun o => match o with SA _ => false | SL _ => true end) ops.

(* walk the case and the implementation's events in lock step.  Protocol: an observation marker (SA 1) yields one
   EvBytes; every successful operation yields exactly one EvNum (the returned handle, 0 if the API returns none);
   a refusal yields EvPanic and ends the observations.  [judge img prefix] is asked at every observation. *)
Fixpoint judge_history (returns : sx -> bool) (judge : list N -> list sx -> bool) (handles_ok : list N -> list (N * nat) -> bool)
         (rprefix : list sx) (ops : list sx) (evs : list ev) (pending : list (N * nat)) : bool :=
  match ops with
  | [] => match evs with [] => true | _ => false end
  | SA _ :: r =>
      match evs with
      | EvBytes img :: evs' =>
          judge img (frev rprefix) && handles_ok img pending
          && judge_history returns judge handles_ok rprefix r evs' pending
      | [EvPanic] => true          (* refusal is judged by the caller (is the prefix in the spec's domain?) *)
      | _ => false
      end
  | o :: r =>
      match evs with
      | [EvPanic] => true
      | EvNum h :: evs' =>
          judge_history returns judge handles_ok (o :: rprefix) r evs'
                        (if returns o then (h, length rprefix) :: pending else pending)
      | _ => false
      end
  end.

(* did the implementation refuse somewhere?  returns the operations applied, including the refused one *)
Fixpoint refused_at (rprefix : list sx) (ops : list sx) (evs : list ev) : option (list sx) :=
  match ops, evs with
  | SA _ :: _, [EvPanic] => Some (frev rprefix)
  | SA _ :: r, _ :: evs' => refused_at rprefix r evs'
  | o :: _, [EvPanic] => Some (frev (o :: rprefix))
  | o :: r, _ :: evs' => refused_at (o :: rprefix) r evs'
  | _, _ => None
  end.

Definition case_parts (c : sx) : option (sx * list sx) :=
  match c with SL (ctor :: ops) => Some (ctor, ops) | _ => None end.

(* C01: every observed image sums to 0 *)
Definition c01_oracle (c : sx) (evs : list ev) : bool :=
  forallb (fun e => match e with EvBytes img => sum8 img =? 0 | _ => true end) evs.

(* C02: Length field (offset 4, 32 bits LE) = number of bytes observed *)
Definition c02_oracle (c : sx) (evs : list ev) : bool :=
  forallb (fun e => match e with EvBytes img => field_at img 4 4 =? N.of_nat (length img) | _ => true end) evs.

(* C04: every observed image is the reference image; an in-domain history is not refused *)
Definition c04_oracle (ts : tspec) (c : sx) (evs : list ev) : bool :=
  match case_parts c with
  | None => false
  | Some (ctor, ops) =>
      judge_history (ts_returns ts) (fun img prefix => match ts_image ts ctor prefix with
                                       | Some r => list_N_eqb img r
                                       | None => true end)
                    (fun _ _ => true) [] ops evs []
      && match refused_at [] ops evs with
         | Some prefix => match ts_image ts ctor prefix with Some _ => false | None => true end
         | None => true
         end
  end.

(* C18 (cases from the oversize generators only, where leaving the Spec's domain means 'a count or length does not fit its
   field'): an image may only be returned for an in-domain prefix, and then it is the reference image *)
Definition c18_oracle (ts : tspec) (c : sx) (evs : list ev) : bool :=
  match case_parts c with
  | None => false
  | Some (ctor, ops) =>
      judge_history (ts_returns ts) (fun img prefix => match ts_image ts ctor prefix with
                                                       | Some r => list_N_eqb img r
                                                       | None => false end)
                    (fun _ _ => true) [] ops evs []
  end.

(* C03: the walk from the first-entry offset tiles the body exactly with the entries that were added *)
Definition c03_judge (ts : tspec) (ctor : sx) (img : list N) (prefix : list sx) : bool :=
  match ts_walk ts, ts_entries ts ctor prefix with
  | Some (first, h), Some expected =>
      match walk (S (length img)) h first (skipn first img) with
      | Some found =>
          Nat.eqb (length found) (length expected)
          && forallb (fun p => match p with ((ty, _, len), (ety, elen)) => (ty =? ety) && Nat.eqb len elen end)
                     (combine found expected)
          && forallb (fun f => match f with (o, w, v) => field_at img o w =? v end) (ts_counts ts (length expected))
      | None => false
      end
  | _, _ => true
  end.

Definition c03_oracle (ts : tspec) (c : sx) (evs : list ev) : bool :=
  match case_parts c with
  | None => false
  | Some (ctor, ops) => judge_history (ts_returns ts) (c03_judge ts ctor) (fun _ _ => true) [] ops evs []
  end.

(* C05: a handle returned by the k-th operation (k = number of operations before it) is the offset at which the k-th
   entry starts, in every later image.  The image is walked once per observation. *)
Definition c05_handles_ok (ts : tspec) (img : list N) (pending : list (N * nat)) : bool :=
  match pending with
  | [] => true
  | _ =>
    match ts_walk ts with
    | Some (first, eh) =>
        match walk (S (length img)) eh first (skipn first img) with
        | Some found =>
            forallb (fun hk => match nth_error found (snd hk) with
                               | Some (_, off, _) => N.of_nat off =? fst hk
                               | None => false end) pending
        | None => false
        end
    | None => true
    end
  end.

Definition c05_oracle (ts : tspec) (c : sx) (evs : list ev) : bool :=
  match case_parts c with
  | None => false
  | Some (ctor, ops) =>
      judge_history (ts_returns ts) (fun img prefix => match ts_image ts ctor prefix with
                                       | Some r => list_N_eqb img r
                                       | None => true end)
                    (c05_handles_ok ts) [] ops evs []
  end.

(* a specification that judges nothing (placeholder for components without a table spec) *)
Definition null_spec : tspec := {|
  ts_image := fun _ _ => None; ts_walk := None; ts_entries := fun _ _ => None;
  ts_counts := fun _ => []; ts_returns := fun _ => false |}.
