(* Spec layer for property C11: for every option-bearing structure, WHERE its flag / attribute field lives in the emitted
   entry (byte offset, width), WHICH bit (or documented field value) each option owns, and which byte ranges each builder
   call governs.  Transcribed from SPEC_NOTES.md section A (ACPI 6.5 / RISC-V / TCG tables) -- not from the Rust code and
   not from the Impl model.  The builder-call vocabulary is the one of the corresponding Spec/<Table>S.v (shared with the
   harness).  Nothing here refers to the Impl model. *)
From Coq Require Import NArith List Bool.
From ACPI Require Import Lib.Bytes Lib.Sx Spec.Layout Spec.RimtS.
Import ListNotations.
Open Scope N_scope.

Definition rng (off w : nat) : nat * nat := (off, w).
Arguments rng off%nat w%nat.

(* ===================================================================== MADT (SPEC_NOTES A.2) *)
(* EnabledStatus / HartStatus arguments: 0 Disabled, 1 Enabled, 2 (Disabled)OnlineCapable.
   Processor Local APIC: 4+4 Flags (b0 enabled, b1 online capable); RINTC: 4+4 Flags (b0 enabled, b1 online capable). *)
Definition lapic_flags_at := rng 4 4.
Definition rintc_flags_at := rng 4 4.
Definition enable_state_bits (st : N) : N := match st with 1 => 1 | 2 => 2 | _ => 0 end.
Definition enable_state_table : list N := [1; 2].                       (* enabled, online capable *)

(* GICC: 12+4 Flags (b0 enabled, b1 performance interrupt edge triggered, b2 VGIC maintenance interrupt edge triggered,
   b3 online capable).  Constructor argument status as above; calls (13 gsi trigger) performance_interrupt,
   (14 gsi trigger) maintenance_interrupt with trigger 1 = Edge, anything else = Level. *)
Definition gicc_flags_at := rng 12 4.
Definition gicc_status_bits (st : N) : N := match st with 1 => 1 | 2 => 8 | _ => 0 end.
Definition gicc_call_bit (o : sx) : N :=
  match o with
  | SL [SA 13; _; SA e] => if e =? 1 then 2 else 0
  | SL [SA 14; _; SA e] => if e =? 1 then 4 else 0
  | _ => 0
  end.
Definition gicc_option_table : list N := [1; 2; 4; 8].                  (* enabled, perf edge, VGIC edge, online capable *)
(* the value field(s) each call governs, besides the flag word *)
Definition gicc_call_ranges (o : sx) : list (nat * nat) :=
  match o with
  | SL (SA k :: _) =>
      match k with
      | 1 => [rng 4 4]        (* CPU interface number *)
      | 2 => [rng 8 4]        (* ACPI processor UID *)
      | 3 => [rng 16 4]       (* parking protocol version *)
      | 4 => [rng 24 8]       (* parked address *)
      | 5 => [rng 32 8]       (* physical base address *)
      | 6 => [rng 40 8]       (* GICV *)
      | 7 => [rng 48 8]       (* GICH *)
      | 8 => [rng 60 8]       (* GICR base *)
      | 9 => [rng 68 8]       (* MPIDR *)
      | 10 => [rng 76 1]      (* processor power efficiency class *)
      | 11 => [rng 78 2]      (* SPE overflow interrupt *)
      | 12 => [rng 80 2]      (* TRBE interrupt *)
      | 13 => [rng 20 4]      (* performance interrupt GSIV *)
      | 14 => [rng 56 4]      (* VGIC maintenance interrupt *)
      | _ => []
      end
  | _ => []
  end.

(* GIC MSI frame: 16+4 Flags, b0 = 1 <=> the SPI count / base fields (20+2, 22+2) override the hardware, i.e. set exactly
   when the values were supplied with (3 count base) spi_count_and_base. *)
Definition gicmsi_flags_at := rng 16 4.
Definition gicmsi_supplies_spi (o : sx) : bool := match o with SL [SA 3; SA _; SA _] => true | _ => false end.
Definition gicmsi_call_bit (o : sx) : N := if gicmsi_supplies_spi o then 1 else 0.
Definition gicmsi_call_ranges (o : sx) : list (nat * nat) :=
  match o with
  | SL (SA k :: _) => match k with 1 => [rng 4 4] | 2 => [rng 8 8] | 3 => [rng 20 2; rng 22 2] | _ => [] end
  | _ => []
  end.

(* ===================================================================== SRAT (SPEC_NOTES A.2) *)
(* Memory affinity: 28+4 Flags (b0 enabled, b1 hot-pluggable, b2 non-volatile); calls (1) enabled (2) hotpluggable (3) nonvolatile *)
Definition memaff_flags_at := rng 28 4.
Definition memaff_call_bit (o : sx) : N := match o with SL [SA 1] => 1 | SL [SA 2] => 2 | SL [SA 3] => 4 | _ => 0 end.
Definition memaff_option_table : list N := [1; 2; 4].
(* Generic initiator: 24+4 Flags (b0 enabled, b1 architectural transactions); calls (1) enabled (2) architectural *)
Definition geninit_flags_at := rng 24 4.
Definition geninit_call_bit (o : sx) : N := match o with SL [SA 1] => 1 | SL [SA 2] => 2 | _ => 0 end.
Definition geninit_option_table : list N := [1; 2].
(* RINTC affinity: 12+4 Flags (b0 enabled); calls (1) enabled, (2 pd) proximity_domain -> 4+4 *)
Definition rintc_aff_flags_at := rng 12 4.
Definition rintc_aff_enables (o : sx) : bool := match o with SL [SA 1] => true | _ => false end.
Definition rintc_aff_call_bit (o : sx) : N := if rintc_aff_enables o then 1 else 0.
Definition rintc_aff_call_ranges (o : sx) : list (nat * nat) := match o with SL [SA 2; SA _] => [rng 4 4] | _ => [] end.

(* ===================================================================== PPTT (SPEC_NOTES A.2) *)
(* Processor hierarchy node: 4+4 Flags (b0 physical package, b1 ACPI processor id valid, b2 processor is a thread,
   b3 node is a leaf, b4 identical implementation); calls (1) physical (2) valid (3) thread (4) leaf (5) identical.
   The other calls -- (6 h) add_cache, (7 v) node.flags = v, (8 v) node.parent = v, (9 v) node.acpi_processor_id = v -- are
   value setters; (7 v) assigns the whole flags word directly (pub field). *)
Definition pnode_flags_at := rng 4 4.
Definition pnode_call_bit (o : sx) : N :=
  match o with SL [SA 1] => 1 | SL [SA 2] => 2 | SL [SA 3] => 4 | SL [SA 4] => 8 | SL [SA 5] => 16 | _ => 0 end.
Definition pnode_is_option (o : sx) : bool :=
  match o with SL [SA k] => (1 <=? k) && (k <=? 5) | _ => false end.
Definition pnode_assigns_flags (o : sx) : bool := match o with SL [SA 7; SA _] => true | _ => false end.
Definition pnode_option_table : list N := [1; 2; 4; 8; 16].
(* the flags word after a call: the direct assignment replaces it, an option ORs its bit in, anything else leaves it *)
Definition pnode_flags_after (a : N) (o : sx) : N := match o with SL [SA 7; SA v] => v | _ => N.lor a (pnode_call_bit o) end.

(* Cache type structure: 4+4 Flags, one "valid" bit per property, set iff the property's value was supplied:
   b0 size (12+4), b1 number of sets (16+4), b2 associativity (20), b3 allocation type, b4 cache type, b5 write policy
   (all three in the attributes byte 21), b6 line size (22+2), b7 cache id (24+4); (9 h) next_level -> 8+4, no valid bit.
   Attributes byte 21: bits 1:0 allocation type (0 read, 1 write, 2 read and write), bits 3:2 cache type (0 data,
   1 instruction, 2 unified), bit 4 write policy (0 write back, 1 write through). *)
Definition cache_flags_at := rng 4 4.
Definition cache_attr_at := rng 21 1.
Definition cache_valid_bit (o : sx) : N :=
  match o with
  | SL [SA k; SA _] => match k with 1 => 1 | 2 => 2 | 3 => 4 | 4 => 8 | 5 => 16 | 6 => 32 | 7 => 64 | 8 => 128 | _ => 0 end
  | _ => 0
  end.
Definition cache_supplies (k : N) (o : sx) : bool := match o with SL [SA k'; SA _] => k' =? k | _ => false end.
Definition cache_valid_table : list N := [1; 2; 4; 8; 16; 32; 64; 128].
Definition cache_alloc_field (e : N) : N := if e <=? 2 then e else 0.
Definition cache_type_field (e : N) : N := if e <=? 2 then N.shiftl e 2 else 0.
Definition cache_policy_field (e : N) : N := if e <=? 1 then N.shiftl e 4 else 0.
Definition cache_attr_bits (o : sx) : N :=
  match o with
  | SL [SA 4; SA e] => cache_alloc_field e
  | SL [SA 5; SA e] => cache_type_field e
  | SL [SA 6; SA e] => cache_policy_field e
  | _ => 0
  end.
Definition cache_call_ranges (o : sx) : list (nat * nat) :=
  match o with
  | SL (SA k :: _) =>
      match k with
      | 1 => [rng 12 4] | 2 => [rng 16 4] | 3 => [rng 20 1] | 4 | 5 | 6 => [rng 21 1] | 7 => [rng 22 2] | 8 => [rng 24 4]
      | 9 => [rng 8 4] | _ => []
      end
  | _ => []
  end.

(* ===================================================================== TCPA server table (SPEC_NOTES A.1) *)
(* 58 DeviceFlags (b0 PCI device, b1 bus is PNP, b2 configuration address valid), 59 InterruptFlags (b0 edge triggered,
   b1 active low, b2 SCI triggered through GPE, b3 global system interrupt valid).
   Calls: (1 laml lasa) log_area -> 40+8, 48+8; (2) active_low; (3) edge_triggered; (4 gpe) sci_gpe -> 60; (5 gsi) gsi -> 64+4;
   (6) bus_is_pnp; (7 seg bus dev fn) pci_sbdf -> 96..99; (8 gas) base_addr -> 68+12; (9 gas) config_addr -> 84+12.
   The header checksum (offset 9) is recomputed by every call. *)
Definition tcpa_devflags_at := rng 58 1.
Definition tcpa_intflags_at := rng 59 1.
Definition tcpa_checksum_at := rng 9 1.
Definition tcpa_dev_bit (o : sx) : N :=
  match o with SL (SA k :: _) => match k with 7 => 1 | 6 => 2 | 9 => 4 | _ => 0 end | _ => 0 end.
Definition tcpa_int_bit (o : sx) : N :=
  match o with SL (SA k :: _) => match k with 3 => 1 | 2 => 2 | 4 => 4 | 5 => 8 | _ => 0 end | _ => 0 end.
Definition tcpa_calls (k : N) (o : sx) : bool := match o with SL (SA k' :: _) => k' =? k | _ => false end.
Definition tcpa_dev_table : list N := [1; 2; 4].
Definition tcpa_int_table : list N := [1; 2; 4; 8].
Definition tcpa_call_ranges (o : sx) : list (nat * nat) :=
  match o with
  | SL (SA k :: _) =>
      match k with
      | 1 => [rng 40 8; rng 48 8] | 4 => [rng 60 1] | 5 => [rng 64 4] | 7 => [rng 96 1; rng 97 1; rng 98 1; rng 99 1]
      | 8 => [rng 68 1; rng 69 1; rng 70 1; rng 71 1; rng 72 8] | 9 => [rng 84 1; rng 85 1; rng 86 1; rng 87 1; rng 88 8]
      | _ => []
      end
  | _ => []
  end.

(* ===================================================================== HMAT (SPEC_NOTES A.2) *)
(* System locality latency/bandwidth structure: byte 8 Flags: bits 3:0 memory hierarchy (the LocalityType constructor
   argument 0..3), b4 minimum transfer size required, b5 non-sequential transfers.
   Calls (1) non_sequential_transfers (2) minimum_transfer_size_required; (3 ..) (4 ..) (5 ..) set matrix values. *)
Definition sysloc_flags_at := rng 8 1.
Definition sysloc_call_bit (o : sx) : N := match o with SL [SA 1] => 32 | SL [SA 2] => 16 | _ => 0 end.
Definition sysloc_is_option (o : sx) : bool := match o with SL [SA 1] | SL [SA 2] => true | _ => false end.
Definition sysloc_calls (k : N) (o : sx) : bool := match o with SL [SA k'] => k' =? k | _ => false end.
Definition sysloc_option_table : list N := [16; 32].
(* Memory proximity domain attributes structure: 8+2 Flags, b0 = the initiator proximity domain field (12+4) is valid; the
   constructor always takes the initiator domain, so the bit is always set. *)
Definition memprox_flags_at := rng 8 2.

(* ===================================================================== HEST (SPEC_NOTES A.2) *)
(* PCIe AER root port (type 6) / endpoint (7) / bridge (8): byte 6 Flags (b0 firmware first, b1 global).  The options are
   constructor alternatives: (0) = new_global() sets GLOBAL; (1 ff bus dev fn) = new_root_port / new_bridge (ff, device) with
   ff the FirmwareFirst enumeration 0 Disabled / 1 Enabled.  Setter calls (k v) govern one value field each. *)
Definition aer_flags_at := rng 6 1.
Definition aer_ctor_flags (c : sx) : N :=
  match c with
  | SL [SA 0] => 2
  | SL [SA 1; SA ff; _; _; _] => ff
  | _ => 0
  end.
Definition aer_option_table : list N := [1; 2].                         (* firmware first, global *)
Definition aer_call_ranges (o : sx) : list (nat * nat) :=
  match o with
  | SL (SA k :: _) =>
      match k with
      | 1 => [rng 8 4] | 2 => [rng 12 4] | 3 => [rng 24 2] | 4 => [rng 28 4] | 5 => [rng 32 4] | 6 => [rng 36 4] | 7 => [rng 40 4]
      | 8 => [rng 44 4] | 9 => [rng 48 4] | 10 => [rng 52 4] | _ => []
      end
  | _ => []
  end.

(* ===================================================================== RIMT (SPEC_NOTES A.2) *)
(* The options are constructor arguments: booleans (0 = false, anything else = true; sp_bit of Spec/RimtS.v) and Option<..>
   arguments (() = None, (v) = Some v).
   IOMMU device: 16+4 Flags (b0 the IOMMU is a PCI device <-> segment 20+2 / BDF 22+2 supplied, b1 proximity domain 24+4 valid).
   Interrupt wire (8 bytes, from offset 32 of the IOMMU device): 4+2 Flags (b0 level triggered, b1 active high).
   PCIe root complex: 8+4 Flags (b0 ATS supported, b1 PRI supported).
   ID mapping (20 bytes): 16+4 Flags (b0 ATS required, b1 PRI required, b2 RCiEP). *)
Definition opt_given (x : sx) : bool := match x with SL [] => false | _ => true end.
Definition bbit (b : bool) (v : N) : N := if b then v else 0.
Definition iommu_flags_at := rng 16 4.
Definition iommu_pci_at : list (nat * nat) := [rng 20 2; rng 22 2].
Definition iommu_prox_at := rng 24 4.
Definition iommu_flags_ref (pci prox : sx) : N := N.lor (bbit (opt_given pci) 1) (bbit (opt_given prox) 2).
Definition wire_flags_at := rng 4 2.
Definition wire_flags_ref (lvl pol : N) : N := N.lor (sp_bit lvl 1) (sp_bit pol 2).
Definition pcierc_flags_at := rng 8 4.
Definition pcierc_flags_ref (ats pri : N) : N := N.lor (sp_bit ats 1) (sp_bit pri 2).
Definition idmap_flags_at := rng 16 4.
Definition idmap_flags_ref (ats pri rciep : N) : N := N.lor (N.lor (sp_bit ats 1) (sp_bit pri 2)) (sp_bit rciep 4).
Definition rimt_option_tables : list (list N) := [[1; 2]; [1; 2]; [1; 2]; [1; 2; 4]].   (* IOMMU, wire, PCIe RC, ID mapping *)

(* ===================================================================== structures without options *)
(* VIOT (PCI range, MMIO endpoint, virtio-pci / virtio-mmio IOMMU): no flag field and no boolean or enumerated argument.
   MADT IMSIC / APLIC / PLIC: a Flags dword that is always 0, no builder.  MADT x2APIC: not offered by the crate.
   HEST generic hardware sources: Flags byte reserved (0), the Enabled byte is a plain value field.
   None of them has a C11 obligation beyond C04 (image = reference). *)
