(* Spec layer for the Generic Address Structure (ACPI 6.5 5.2.3.2), written from SPEC_NOTES.md A.0:
     0+1 AddressSpaceID  1+1 BitWidth  2+1 BitOffset  3+1 AccessSize  4+8 Address          (12 bytes)
   Space ids 0 SystemMemory, 1 SystemIO, 2 PCIConfig, 3 EC, 4 SMBus, 5 CMOS, 6 PciBarTarget, 7 IPMI, 8 GPIO,
   9 GenericSerialBus, 0xA PCC, 0xB PRM, 0x7F FFH.  Access 0 undefined, 1 byte, 2 word, 3 dword, 4 qword.
   PCI-config address = device<<32 | function<<16 | register.

   Case vocabulary of a GAS-valued argument (shared with the harness, harness/src/t_hest.rs `gas`):
     (0 space width offset access addr)   GAS::new             space / access = the numbers above
     (1 width access device function reg) GAS::new_pci_config  (space id 2, bit offset 0)
     (2)                                  GAS::default()       (all zero)
   Outside the domain (reference = None): unknown space id or access size, a value that does not fit its
   argument type. *)
From Coq Require Import NArith List Bool.
From ACPI Require Import Lib.Bytes Lib.Sx Spec.Layout.
Import ListNotations.
Open Scope N_scope.

Definition gas_space_ok (sp : N) : bool := (sp <=? 0xB) || (sp =? 0x7F).
Definition gas_access_ok (a : N) : bool := a <=? 4.

Definition gas_layout (sp w o a addr : N) : option (list N) :=
  lay 12 [L 0 1 sp; L 1 1 w; L 2 1 o; L 3 1 a; L 4 8 addr].

Definition gas_ref (s : sx) : option (list N) :=
  match s with
  | SL [SA 0; SA sp; SA w; SA o; SA a; SA addr] =>
      if gas_space_ok sp && gas_access_ok a && (w <? 256) && (o <? 256) && (addr <? 2 ^ 64) then gas_layout sp w o a addr else None
  | SL [SA 1; SA w; SA a; SA d; SA f; SA r] =>
      if gas_access_ok a && (w <? 256) && (d <? 256) && (f <? 256) && (r <? 65536)
      then gas_layout 2 w 0 a (d * 2 ^ 32 + f * 2 ^ 16 + r) else None
  | SL [SA 2] => gas_layout 0 0 0 0 0
  | _ => None
  end.

(* ---- helpers shared by the Spec files whose setters carry structured arguments ---- *)

(* the arguments of the last call of setter k in a setter list ((k args...) ...); None if never called *)
Fixpoint last_call (k : N) (setters : list sx) (acc : option (list sx)) : option (list sx) :=
  match setters with
  | [] => acc
  | SL (SA k' :: args) :: r => last_call k r (if k' =? k then Some args else acc)
  | _ :: r => last_call k r acc
  end.

(* last numeric value given to the one-argument setter k (0 if never called) *)
Definition num_arg (k : N) (setters : list sx) : N :=
  match last_call k setters None with Some (SA v :: _) => v | _ => 0 end.

(* every item of a setter list is (id args...) with an id accepted by [ok] *)
Definition setters_ok (ok : N -> list sx -> bool) (setters : list sx) : bool :=
  forallb (fun s => match s with SL (SA k :: args) => ok k args | _ => false end) setters.

Definition one_num (args : list sx) : bool := match args with [SA _] => true | _ => false end.

Fixpoint opt_seq {A} (l : list (option A)) : option (list A) :=
  match l with
  | [] => Some []
  | Some x :: r => match opt_seq r with Some r' => Some (x :: r') | None => None end
  | None :: _ => None
  end.
