(* Spec layer for the BERT (ACPI 6.5 18.3.1), written from SPEC_NOTES.md A.1:
   header, 36+4 BootErrorRegionLength, 40+8 BootErrorRegion (48 bytes).
   Case vocabulary (shared with the harness, component 27):
     ctor  (oem6 tbl8 orev region_length region_base)    BERT::new(oem_id, oem_table_id, oem_revision, u32, u64)
     ops   none (observations only) *)
From Coq Require Import NArith List Bool.
From ACPI Require Import Lib.Bytes Lib.Sx Spec.Layout Spec.FixedS.
Import ListNotations.
Open Scope N_scope.

Definition bert_ref (ctor : sx) : option (list N) :=
  match ctor with
  | SL [o; t; r; SA rlen; SA rbase] =>
      match sx_hdr_args o t r, lay_at 36 12 [L 36 4 rlen; L 40 8 rbase] with
      | Some h, Some body => Some (ref_table [66; 69; 82; 84] 1 h body)       (* "BERT", revision 1 (crate) *)
      | _, _ => None
      end
  | _ => None
  end.

Definition bert_spec : tspec := fixed_spec (ctor_only bert_ref).
