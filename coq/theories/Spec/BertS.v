(* STUB: Spec layer for bert -- to be written *)
From Coq Require Import NArith List.
From ACPI Require Import Lib.Bytes Lib.Sx Spec.Layout.
Import ListNotations.
Definition bert_spec : tspec := null_spec.
