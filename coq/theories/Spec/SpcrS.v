(* STUB: Spec layer for spcr -- to be written *)
From Coq Require Import NArith List.
From ACPI Require Import Lib.Bytes Lib.Sx Spec.Layout.
Import ListNotations.
Definition spcr_spec : tspec := null_spec.
