(* Spec layer for the SPCR revision 4 (Microsoft Serial Port Console Redirection Table), written from SPEC_NOTES.md A.1:
   36+52 fixed fields, then the namespace string; the SBI console has no register block, interrupt or PCI device.
   Case vocabulary (shared with the harness, component 28):
     ctor  (oem6 tbl8 orev)          SPCR::sbi(oem_id, oem_table_id, oem_revision)
     ops   none (observations only) *)
From Coq Require Import NArith List Bool.
From ACPI Require Import Lib.Bytes Lib.Sx Spec.Layout Spec.FixedS.
Import ListNotations.
Open Scope N_scope.

Definition spcr_sbi_body : option (list N) :=
  lay_at 36 54
    [L 36 1 0x15;                                     (* InterfaceType: RISC-V SBI console *)
     L 37 3 0;
     L 40 1 0; L 41 1 0; L 42 1 0; L 43 1 0; L 44 8 0; (* BaseAddress (GAS): none *)
     L 52 1 0; L 53 1 0; L 54 4 0;                     (* InterruptType, IRQ, GSI *)
     L 58 1 0; L 59 1 0; L 60 1 0; L 61 1 0; L 62 1 0; L 63 1 0;   (* BaudRate Parity StopBits FlowControl TerminalType Language *)
     L 64 2 0xFFFF; L 66 2 0xFFFF;                     (* PCI DeviceID / VendorID: not a PCI device *)
     L 68 1 0; L 69 1 0; L 70 1 0; L 71 4 0; L 75 1 0; (* Bus Device Function PCIFlags Segment *)
     L 76 4 0; L 80 4 0;                               (* UartClockFrequency, PreciseBaudRate *)
     L 84 2 2;                                         (* NamespaceStringLength *)
     L 86 2 88;                                        (* NamespaceStringOffset, from the start of the table *)
     L 88 1 46; L 89 1 0].                             (* ".\0" *)

Definition spcr_ref (ctor : sx) : option (list N) :=
  match ctor with
  | SL [o; t; r] =>
      match sx_hdr_args o t r, spcr_sbi_body with
      | Some h, Some body => Some (ref_table [83; 80; 67; 82] 4 h body)       (* "SPCR", revision 4 *)
      | _, _ => None
      end
  | _ => None
  end.

Definition spcr_spec : tspec := fixed_spec (ctor_only spcr_ref).
