(* Spec layer for the RHCT (RISC-V Hart Capabilities Table), written from SPEC_NOTES.md A.2.
   Case vocabulary (shared with the harness):
     ctor  (oem6 tbl8 orev timebase_frequency)
     ops   (1 bytes)                     add_isa_string(the string with these UTF-8 bytes) -> IsaStringHandle
           (2 scheme)                    add_mmu_node(scheme)      scheme 0 Sv39 1 Sv48 2 Sv57                 (returns nothing: 0)
           (3 cbom cbop cboz)            add_cmo(CmoNode::new(cbom, cbop, cboz)) -> CmoHandle
           (4 uid (104 i) ((104 c) ...)) add_hart_info(HartInfoNode::new(uid, &isa handle of operation i)
                                                        .with_cmo(&cmo handle of operation c) ...)              (returns nothing: 0)
     (104 k) counts real operations from 0 (observations are not counted); the operation must have returned a handle of the
     expected kind.  In the reference a handle is the offset at which the node added by operation k starts. *)
From Coq Require Import NArith List Bool.
From ACPI Require Import Lib.Bytes Lib.Sx Spec.Layout Spec.MadtS Spec.HmatS Spec.PpttS.
Import ListNotations.
Open Scope N_scope.

Definition rhct_entry_ref (p : placed) (o : sx) : option (list N) :=
  match o with
  | SL [SA 1; str] =>
      (* ISA string node: string length counts the NUL; the node is padded to an even size *)
      match sx_bytes str with
      | Some b =>
          let n := length b in
          let pad := Nat.odd (8 + n + 1) in
          let total := (8 + n + 1 + (if pad then 1 else 0))%nat in
          if forallb (fun x => x <? 256) b && (N.of_nat total <=? 65535) then
            (* 8 fixed bytes, the string, its NUL, the pad byte *)
            lay_then 8 [L 0 2 0; L 2 2 (N.of_nat total); L 4 2 1; L 6 2 (N.of_nat (n + 1))] (b ++ [0] ++ (if pad then [0] else []))
          else None
      | None => None
      end
  | SL [SA 2; SA scheme] =>
      if scheme <? 3 then lay 8 [L 0 2 2; L 2 2 8; L 4 2 1; L 6 1 0; L 7 1 scheme] else None
  | SL [SA 3; SA cbom; SA cbop; SA cboz] =>
      if (cbom <? 256) && (cbop <? 256) && (cboz <? 256) then
        lay 10 [L 0 2 1; L 2 2 10; L 4 2 1; L 6 1 0; L 7 1 cbom; L 8 1 cbop; L 9 1 cboz]
      else None
  | SL [SA 4; SA uid; isa; SL cmos] =>
      (* hart info node: the first offset names an ISA string node, the others CMO nodes *)
      match resolve p 0 isa, resolve_all p 1 cmos with
      | Some i, Some cs =>
          let k := S (length cs) in
          if (uid <? 2 ^ 32) && (N.of_nat (12 + 4 * k) <=? 65535) then
            lay_then 12 [L 0 2 65535; L 2 2 (N.of_nat (12 + 4 * k)); L 4 2 1; L 6 2 (N.of_nat k); L 8 4 uid] (arr 4 (i :: cs))
          else None
      | _, _ => None
      end
  | _ => None
  end.

Fixpoint rhct_entries_from (ops : list sx) (p : placed) (next : N) (racc : list (list N)) : option (list (list N)) :=
  match ops with
  | [] => Some (frev racc)
  | o :: r =>
      match rhct_entry_ref p o with
      | Some e => rhct_entries_from r ((unle (firstn 2 e), next) :: fst p, snd p + 1) (next + N.of_nat (length e)) (e :: racc)
      | None => None
      end
  end.

Definition rhct_entries_ref (ops : list sx) : option (list (list N)) := rhct_entries_from ops ([], 0) 56 [].

Definition rhct_image (ctor : sx) (ops : list sx) : option (list N) :=
  match ctor with
  | SL [o; t; r; SA timebase] =>
      match sx_hdr_args o t r, rhct_entries_ref ops with
      | Some h, Some es =>
          let cnt := N.of_nat (length es) in
          if (timebase <? 2 ^ 64) && (cnt <? 2 ^ 32) then
            Some (ref_table [82; 72; 67; 84] 1 h (le 4 0 ++ le 8 timebase ++ le 4 cnt ++ le 4 56 ++ concat es))
          else None
      | _, _ => None
      end
  | _ => None
  end.

Definition rhct_returns (o : sx) : bool :=
  match o with SL (SA 1 :: _) | SL (SA 3 :: _) => true | _ => false end.

Definition rhct_spec : tspec := {|
  ts_image := rhct_image;
  ts_walk := Some (56%nat, H_u16_u16);
  ts_entries := fun _ ops => option_map (map (fun e => (unle (firstn 2 e), length e))) (rhct_entries_ref ops);
  ts_counts := fun n => [(48%nat, 4%nat, N.of_nat n); (52%nat, 4%nat, 56)];
  ts_returns := rhct_returns
|}.
