(* STUB: Spec layer for rhct -- to be written *)
From Coq Require Import NArith List.
From ACPI Require Import Lib.Bytes Lib.Sx Spec.Layout.
Import ListNotations.
Definition rhct_spec : tspec := null_spec.
