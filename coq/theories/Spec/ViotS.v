(* STUB: Spec layer for viot -- to be written *)
From Coq Require Import NArith List.
From ACPI Require Import Lib.Bytes Lib.Sx Spec.Layout.
Import ListNotations.
Definition viot_spec : tspec := null_spec.
