(* Spec layer for the VIOT (Virtual I/O Translation table, ACPI 6.5 5.2.31), written from SPEC_NOTES.md A.0 / A.2
   (table revision 1 and the PCI-range "endpoint start := BDF of the first device" are crate-defined).
   Case vocabulary (shared with Impl/Viot.v and harness/src/t_viot.rs), component 19; op codes = node type codes:
     ctor  (oem6 tbl8 orev)
     ops   (1 first last (104 k))        add_pci_range(PciRange::new(first, last, &handle))           -> reports 0
           (2 endpoint_id base (104 k))  add_mmio_endpoint(MmioEndpoint::new(id, base, &handle))      -> reports 0
           (3 dev)                       add_virtio_pci_iommu(VirtIoPciIommu::new(dev))  -> TranslationHandle (reported as EvNum)
           (4 base)                      add_virtio_mmio_iommu(VirtIoMmioIommu::new(base)) -> TranslationHandle (reported as EvNum)
     first, last, dev = (segment bus device function)   PciDevice::new (asserts device < 32, function < 8)
     (104 k) = the TranslationHandle returned by the k-th real op (must be an op 3 or 4)
   In this Spec a handle reference (104 k) is the offset at which the k-th added node starts in the reference image; it is in
   the domain only if that node is a translation node (type 3 or 4).  Node offsets are 16 bits wide: a history is in the domain
   only while every offset of the table, including the offset at which the next node would start (= the table size), is
   below 2^16 (the hypothesis "length < 2^16" of DESIGN.md C05 for the VIOT). *)
From Coq Require Import NArith List Bool Arith.
From ACPI Require Import Lib.Bytes Lib.Sx Spec.Layout Spec.RimtS.
Import ListNotations.
Open Scope N_scope.

Definition viot_pci_ref (x : sx) : option (N * N) :=
  match x with
  | SL [SA seg; SA bus; SA dev; SA fn] => match sp_bdf bus dev fn with Some b => Some (seg, b) | None => None end
  | _ => None
  end.

(* the output node of an endpoint must be a translation node *)
Definition viot_out_ref (n : nat) (rs : sp_starts) (href : sx) : option N :=
  match sp_lookup n rs href with
  | Some (off, 3) | Some (off, 4) => Some off
  | _ => None
  end.

Definition viot_entry_ref (n : nat) (rs : sp_starts) (o : sx) : option (list N) :=
  match o with
  | SL [SA 1; first; last; href] =>
      (* 1 PCI range (24): 4+4 EndpointStart (crate: BDF of first device), 8+2 SegmentStart, 10+2 SegmentEnd, 12+2 BDFStart,
         14+2 BDFEnd, 16+2 OutputNode, 18+6 res *)
      match viot_pci_ref first, viot_pci_ref last, viot_out_ref n rs href with
      | Some f, Some l, Some out =>
          lay 24 [L 0 1 1; L 1 1 0; L 2 2 24; L 4 4 (snd f); L 8 2 (fst f); L 10 2 (fst l); L 12 2 (snd f); L 14 2 (snd l);
                  L 16 2 out; L 18 6 0]
      | _, _, _ => None
      end
  | SL [SA 2; SA ep; SA base; href] =>
      (* 2 MMIO endpoint (24): 4+4 EndpointID, 8+8 Base, 16+2 OutputNode, 18+6 res *)
      match viot_out_ref n rs href with
      | Some out => lay 24 [L 0 1 2; L 1 1 0; L 2 2 24; L 4 4 ep; L 8 8 base; L 16 2 out; L 18 6 0]
      | None => None
      end
  | SL [SA 3; dev] =>
      (* 3 virtio-pci IOMMU (16): 4+2 Segment, 6+2 BDF, 8+8 res *)
      match viot_pci_ref dev with
      | Some d => lay 16 [L 0 1 3; L 1 1 0; L 2 2 16; L 4 2 (fst d); L 6 2 (snd d); L 8 8 0]
      | None => None
      end
  | SL [SA 4; SA base] =>
      (* 4 virtio-mmio IOMMU (16): 4+4 res, 8+8 Base *)
      lay 16 [L 0 1 4; L 1 1 0; L 2 2 16; L 4 4 0; L 8 8 base]
  | _ => None
  end.

Definition viot_entries_ref (ops : list sx) : option (list (list N)) :=
  match sp_entries viot_entry_ref ops 48 0 [] [] with
  | Some es => if 48 + N.of_nat (length (concat es)) <? 2 ^ 16 then Some es else None
  | None => None
  end.

(* 36+2 NodeCount, 38+2 NodeOffset=48, 40+8 res; nodes from 48 *)
Definition viot_image (ctor : sx) (ops : list sx) : option (list N) :=
  match ctor with
  | SL [o; t; r] =>
      match sx_hdr_args o t r, viot_entries_ref ops with
      | Some h, Some es =>
          Some (ref_table [86; 73; 79; 84] 1 h (le 2 (N.of_nat (length es)) ++ le 2 48 ++ le 8 0 ++ concat es))
      | _, _ => None
      end
  | _ => None
  end.

Definition viot_spec : tspec := {|
  ts_image := viot_image;
  ts_walk := Some (48%nat, H_u8_x_u16);
  ts_entries := fun _ ops => option_map (map (fun e => (nth 0 e 0, length e))) (viot_entries_ref ops);
  ts_counts := fun n => [(36%nat, 2%nat, N.of_nat n); (38%nat, 2%nat, 48)];
  ts_returns := fun o => match o with SL (SA 3 :: _) | SL (SA 4 :: _) => true | _ => false end
|}.
