(* STUB: Spec layer for sdt -- to be written *)
From Coq Require Import NArith List.
From ACPI Require Import Lib.Bytes Lib.Sx Spec.Layout.
Import ListNotations.
Definition sdt_spec : tspec := null_spec.
