(* Spec layer for the generic table (C13): a plain byte vector subjected to the same appends and writes, with the Length
   field (bytes 4..8) rewritten on every append and the checksum byte (9) recomputed after every operation.
   Case vocabulary: see Impl/Sdt.v (shared with the harness).  Nothing here refers to the Impl model. *)
From Coq Require Import NArith List Bool.
From ACPI Require Import Lib.Bytes Lib.Sx Spec.Layout.
Import ListNotations.
Open Scope N_scope.

(* replace the bytes at [off, off + |b|) of a vector (defined when they fit) *)
Definition vec_write (v : list N) (off : nat) (b : list N) : option (list N) :=
  if Nat.leb (off + length b) (length v) then Some (firstn off v ++ b ++ skipn (off + length b) v) else None.

(* set byte 9 so that the whole vector sums to 0 mod 256 *)
Definition with_checksum (v : list N) : list N :=
  let z := firstn 9 v ++ [0] ++ skipn 10 v in
  firstn 9 v ++ [(256 - sumN z mod 256) mod 256] ++ skipn 10 v.

Definition with_length (v : list N) : list N := firstn 4 v ++ le 4 (N.of_nat (length v)) ++ skipn 8 v.

Definition spec_width (w : N) : option nat :=
  match w with 1 => Some 1%nat | 2 => Some 2%nat | 4 => Some 4%nat | 8 => Some 8%nat | _ => None end.

(* Some (Some v') performed; Some None must be refused; None malformed *)
Definition sdt_spec_op (v : list N) (o : sx) : option (option (list N)) :=
  match o with
  | SL [SA 1; SA w; SA x] | SL [SA 5; SA w; SA x] =>
      match spec_width w with Some k => Some (Some (with_checksum (with_length (v ++ le k x)))) | None => None end
  | SL [SA 2; b] =>
      match sx_bytes b with Some bytes => Some (Some (with_checksum (with_length (v ++ bytes)))) | None => None end
  | SL [SA 6; b] =>                   (* bytes pushed through the sink are appended one at a time: none pushed, nothing happens *)
      match sx_bytes b with
      | Some [] => Some (Some v)
      | Some bytes => Some (Some (with_checksum (with_length (v ++ bytes))))
      | None => None
      end
  | SL [SA 3; SA off; b] =>
      match sx_bytes b with
      | Some bytes => if off + N.of_nat (length bytes) <=? N.of_nat (length v)
                      then Some (option_map with_checksum (vec_write v (N.to_nat off) bytes)) else Some None
      | None => None
      end
  | SL [SA 4; SA w; SA off; SA x] =>
      match spec_width w with
      | Some k => if off + N.of_nat k <=? N.of_nat (length v)
                  then Some (option_map with_checksum (vec_write v (N.to_nat off) (le k x))) else Some None
      | None => None
      end
  | SL [SA 7] => Some (Some (with_checksum v))
  | _ => None
  end.

Definition sdt_spec_new (c : sx) : option (list N) :=
  match c with
  | SL [sg; SA len; SA rev; o; t; SA orev] =>
      match sx_bytes sg, sx_bytes o, sx_bytes t with
      | Some sig, Some oem, Some tb =>
          if Nat.eqb (length sig) 4 && Nat.eqb (length oem) 6 && Nat.eqb (length tb) 8 && (36 <=? len) && (len <? 2 ^ 32)
          then Some (with_checksum (sig ++ le 4 len ++ [rev mod 256; 0] ++ oem ++ tb ++ le 4 orev ++ CREATOR
                                    ++ repeatN 0 (N.to_nat len - 36)))
          else None
      | _, _, _ => None
      end
  | _ => None
  end.

(* the reference vector after a prefix of operations; refused operations leave it unchanged *)
Fixpoint sdt_spec_run (v : list N) (ops : list sx) : option (list N) :=
  match ops with
  | [] => Some v
  | o :: r => match sdt_spec_op v o with
              | Some (Some v') => sdt_spec_run v' r
              | Some None => sdt_spec_run v r
              | None => None
              end
  end.

Definition sdt_image (ctor : sx) (ops : list sx) : option (list N) :=
  match sdt_spec_new ctor with Some v => sdt_spec_run v ops | None => None end.

Definition sdt_spec : tspec := {|
  ts_image := sdt_image; ts_walk := None; ts_entries := fun _ _ => None; ts_counts := fun _ => [];
  ts_returns := fun _ => false |}.

(* C13 needs more than the images: which operations must be refused.  Judged on the reported numbers. *)
Fixpoint sdt_refusals_ok (v : list N) (ops : list sx) (evs : list ev) : bool :=
  match ops with
  | [] => true
  | SA _ :: r => match evs with _ :: evs' => sdt_refusals_ok v r evs' | [] => true end
  | o :: r =>
      match sdt_spec_op v o, evs with
      | Some (Some v'), EvNum n :: evs' => (n =? 0) && sdt_refusals_ok v' r evs'
      | Some None, EvNum n :: evs' => (n =? 1) && sdt_refusals_ok v r evs'
      | _, _ => true
      end
  end.

Definition sdt_oracle (c : sx) (evs : list ev) : bool :=
  match c with
  | SL (ctor :: ops) => match sdt_spec_new ctor with Some v => sdt_refusals_ok v ops evs | None => true end
  | _ => false
  end.
