(* Spec layer, RQSC nested walk (property C03), written from SPEC_NOTES.md A.2 -- NOT from rqsc.rs and not from Impl/Rqsc.v:
     36+4 ControllerCount; controllers from 40.
     Controller (28 + sum of its resources): 0 Type, 1 res, 2+2 Length, 4+12 RegisterInterface, 16+4 RCIDCount, 20+4 MCIDCount,
       24+2 Flags, 26+2 ResourceCount, then ResourceCount resource structures.
     Resource (20 + extra): 0 Type, 1 res, 2+2 Length, 4+2 Flags, 6 res, 7 IDType, 8+8 ID1, 16+4 ID2, 20 specific data.
   Both levels describe themselves with `type u8, one byte, length u16` (H_u8_x_u16 of Spec/Layout.v).

   [rqsc_walk2] is the two-level walker: the controllers are stepped through by their own 16-bit Length; inside each controller
   the resources are stepped through from its offset 28 by their own 16-bit Length.  It answers [Some] only when every inner
   walk lands exactly on the end of its controller and the outer walk lands exactly on the end of the image.

   [rqsc_expected] is what the caller added, read off the case vocabulary of Spec/RqscS.v alone: per add_controller the
   controller's type code and total size, and per add_resource the resource's type code and size. *)
From Coq Require Import NArith List Bool Arith.
From ACPI Require Import Lib.Bytes Lib.Sx Spec.Layout Spec.GasS.
Import ListNotations.
Open Scope N_scope.

(* one controller as the walk found it *)
Record rq_ctrl := {
  rc_type : N;                          (* byte 0 *)
  rc_off : nat;                         (* where it starts in the image *)
  rc_len : nat;                         (* its own Length field (bytes 2..3) *)
  rc_count : N;                         (* its ResourceCount field (bytes 26..27) *)
  rc_res : list (N * nat * nat)         (* the resources the inner walk found: (type code, offset in the image, length) *)
}.

Definition RQ_CTRL_FIXED : nat := 28.   (* the fixed part of a controller; its resources follow *)
Definition RQ_FIRST : nat := 40.        (* header (36) + ControllerCount (4) *)

(* [l] = the bytes from offset [off] of the image to its end *)
Fixpoint rqsc_walk_ctrls (fuel : nat) (off : nat) (l : list N) : option (list rq_ctrl) :=
  match l with
  | [] => Some []
  | _ =>
      match fuel with
      | O => None
      | S f =>
          match read_ehdr H_u8_x_u16 l with
          | Some (ty, len) =>
              (* the controller must hold its fixed part and must fit in what is left *)
              if Nat.ltb len RQ_CTRL_FIXED || negb (Nat.eqb (length (firstn len l)) len) then None
              else
                let c := firstn len l in
                (* inner walk over exactly the controller's own bytes: Some only if it lands on the controller's end *)
                match walk (S len) H_u8_x_u16 (RQ_CTRL_FIXED + off) (skipn RQ_CTRL_FIXED c),
                      rqsc_walk_ctrls f (len + off) (skipn len l) with
                | Some rs, Some r =>
                    Some ({| rc_type := ty; rc_off := off; rc_len := len; rc_count := field_at c 26 2; rc_res := rs |} :: r)
                | _, _ => None
                end
          | None => None
          end
      end
  end.

Definition rqsc_walk2 (img : list N) : option (list rq_ctrl) :=
  rqsc_walk_ctrls (S (length img)) RQ_FIRST (skipn RQ_FIRST img).

(* ---------- exact tiling, stated on what a walk returned ---------- *)

(* the items (type, offset, length) are laid end to end from [off] and stop exactly at [fin] *)
Fixpoint items_tile (off : nat) (items : list (N * nat * nat)) (fin : nat) : Prop :=
  match items with
  | [] => off = fin
  | (_, o, len) :: r => o = off /\ (1 <= len)%nat /\ items_tile (len + off) r fin
  end.

(* the controllers are laid end to end from [off] to [fin]; inside each, its resources are laid end to end from the end of its
   fixed part to its own end *)
Fixpoint ctrls_tile (off : nat) (cs : list rq_ctrl) (fin : nat) : Prop :=
  match cs with
  | [] => off = fin
  | c :: r => rc_off c = off /\ (RQ_CTRL_FIXED <= rc_len c)%nat /\
              items_tile (RQ_CTRL_FIXED + off) (rc_res c) (rc_len c + off) /\
              ctrls_tile (rc_len c + off) r fin
  end.

(* ---------- what the caller added ---------- *)

(* bytes of ID1 ++ ID2 ++ specific data for each resource-id form *)
Definition resid_size (id : sx) : option nat :=
  match id with
  | SL [SA 0; SA _] => Some 12%nat               (* cache: ID1 8, ID2 4 *)
  | SL [SA 1; SA _; SA _] => Some 20%nat         (* memory affinity: ID1 8, ID2 4, raw bandwidth 8 *)
  | SL [SA 2; SA _; SA _] => Some 12%nat         (* ACPI device *)
  | SL [SA 3; SA _] => Some 12%nat               (* PCI device *)
  | SL [SA 4; SA _; b] => option_map (@length N) (sx_bytes b)      (* vendor: the caller's bytes from offset 8 on *)
  | _ => None
  end.

(* (resource type code, resource size): 8 bytes up to and including IDType, then the id *)
Definition resource_expect (x : sx) : option (N * nat) :=
  match x with
  | SL [SA rtype; SA _; id] => option_map (fun n => (rtype mod 256, (8 + n)%nat)) (resid_size id)
  | _ => None
  end.

(* (controller type code, controller size, its resources) *)
Definition controller_expect (o : sx) : option (N * nat * list (N * nat)) :=
  match o with
  | SL [SA 1; SA ctype; _; SA _; SA _; SA _; SL res] =>
      option_map (fun rs => (ctype mod 256, (RQ_CTRL_FIXED + list_sum (map snd rs))%nat, rs)) (opt_seq (map resource_expect res))
  | _ => None
  end.

Definition rqsc_expected (ops : list sx) : option (list (N * nat * list (N * nat))) :=
  opt_seq (map controller_expect (real_ops ops)).

(* what the walk found, in the same form *)
Definition rq_shape (cs : list rq_ctrl) : list (N * nat * list (N * nat)) :=
  map (fun c => (rc_type c, rc_len c, map (fun it => (fst (fst it), snd it)) (rc_res c))) cs.

(* ---------- the judgement on an image (boolean, executable) ---------- *)
Definition shape_eqb (a b : list (N * nat * list (N * nat))) : bool :=
  Nat.eqb (length a) (length b) &&
  forallb (fun p => match p with ((t, n, rs), (t', n', rs')) =>
             (t =? t') && Nat.eqb n n' && Nat.eqb (length rs) (length rs') &&
             forallb (fun q => match q with ((a1, a2), (b1, b2)) => (a1 =? b1) && Nat.eqb a2 b2 end) (combine rs rs')
           end) (combine a b).

Definition rqsc_nested_judge (img : list N) (ops : list sx) : bool :=
  match rqsc_expected ops with
  | Some exp =>
      match rqsc_walk2 img with
      | Some found =>
          shape_eqb (rq_shape found) exp
          && (field_at img 36 4 =? N.of_nat (length found))
          && forallb (fun c => rc_count c =? N.of_nat (length (rc_res c))) found
      | None => false
      end
  | None => true
  end.
