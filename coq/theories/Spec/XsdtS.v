(* STUB: Spec layer for xsdt -- to be written *)
From Coq Require Import NArith List.
From ACPI Require Import Lib.Bytes Lib.Sx Spec.Layout.
Import ListNotations.
Definition xsdt_spec : tspec := null_spec.
