(* Spec layer for the XSDT (ACPI 6.5 5.2.8), written from SPEC_NOTES.md A.0 / A.2: entries from offset 36, 8 bytes each (u64).
   Case vocabulary (shared with the harness, component 10):
     ctor  (oem6 tbl8 orev)          XSDT::new(oem_id, oem_table_id, oem_revision)
     ops   (1 entry)                 add_entry(entry: u64)          -> event n0 *)
From Coq Require Import NArith List Bool.
From ACPI Require Import Lib.Bytes Lib.Sx Spec.Layout Spec.MadtS.
Import ListNotations.
Open Scope N_scope.

Definition xsdt_entry_ref (o : sx) : option (list N) :=
  match o with
  | SL [SA 1; SA e] => lay 8 [L 0 8 e]
  | _ => None
  end.

Definition xsdt_entries_ref (ops : list sx) : option (list (list N)) := opt_concat (map xsdt_entry_ref ops).

Definition xsdt_image (ctor : sx) (ops : list sx) : option (list N) :=
  match ctor with
  | SL [o; t; r] =>
      match sx_hdr_args o t r, xsdt_entries_ref ops with
      | Some h, Some es => Some (ref_table [88; 83; 68; 84] 1 h (concat es))      (* "XSDT", revision 1 (crate) *)
      | _, _ => None
      end
  | _ => None
  end.

Definition xsdt_spec : tspec := {|
  ts_image := xsdt_image;
  ts_walk := Some (36%nat, H_fixed 8);
  ts_entries := fun _ ops => option_map (map (fun e => (0, length e))) (xsdt_entries_ref ops);
  ts_counts := fun _ => [];
  ts_returns := fun _ => false
|}.
