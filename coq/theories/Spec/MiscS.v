(* Spec layer for component 32 (see Impl/Misc.v for the case vocabulary), written from ACPI 6.5 section 5.2.3.2 (Generic
   Address Structure: address space id, register bit width, register bit offset, access size, 64-bit address; 12 bytes) and
   from the structure sizes of SPEC_NOTES.md A.1 (GAS 12, RSDP 36, FACS 64, TCPA server table 100).
   Domain: an access type of 1, 2, 4 or 8 bytes (access size code 1 byte, 2 word, 3 dword, 4 qword; register width = the
   type's width in bits); an I/O port address is 16 bits, a memory address 64 bits. *)
From Coq Require Import NArith List Bool.
From ACPI Require Import Lib.Bytes Lib.Sx Spec.Layout Spec.AmlCoreS Spec.RhctS.
Import ListNotations.
Open Scope N_scope.

Definition access_code (bytes : N) : option N :=
  if bytes =? 1 then Some 1 else if bytes =? 2 then Some 2 else if bytes =? 4 then Some 3 else if bytes =? 8 then Some 4 else None.

Definition gas_ref (space bytes addr : N) : option (list N) :=
  match access_code bytes with
  | Some code => lay 12 [L 0 1 space; L 1 1 (8 * bytes); L 2 1 0; L 3 1 code; L 4 8 addr]
  | None => None
  end.

Definition misc_ref (c : sx) : option (list ev) :=
  match c with
  | SL [SA 1; SA k; SA addr] => if addr <? 2 ^ 16 then option_map (fun b => [EvBytes b]) (gas_ref 1 k addr) else None
  | SL [SA 2; SA k; SA addr] => if addr <? 2 ^ 64 then option_map (fun b => [EvBytes b]) (gas_ref 0 k addr) else None
  | SL [SA 3; SA 0] => Some [EvNum 12]
  | SL [SA 3; SA 1] => Some [EvNum 36]
  | SL [SA 3; SA 2] => Some [EvNum 64]
  | SL [SA 3; SA 3] => Some [EvNum 100]
  (* a field name is a NameSeg (ACPI 6.5 20.2.2): exactly its four characters, verbatim *)
  | SL [SA 4; SL l] => match sx_nums l with
                       | Some b => if is_nameseg b then Some [EvBytes b] else None
                       | None => None end
  (* the RHCT ISA string node, as the RHCT reference lays it out (Spec/RhctS.v) *)
  | SL [SA 5; SL l] => option_map (fun e => [EvBytes e]) (rhct_entry_ref ([], 0) (SL [SA 1; SL l]))
  | _ => None
  end.

(* the implementation's observations are the reference's wherever the reference is defined *)
Definition misc_oracle (c : sx) (impl : list ev) : bool :=
  match misc_ref c with
  | Some r => evs_eqb impl r
  | None => true
  end.

(* independent decoder: reads the five fields back *)
Definition gas_decode (img : list N) : option (N * N * N * N * N) :=
  if Nat.eqb (length img) 12 then
    Some (field_at img 0 1, field_at img 1 1, field_at img 2 1, field_at img 3 1, field_at img 4 8)
  else None.
