(* Extraction of the executable model and the Spec oracles. ExtrOcamlBasic only. *)
From Coq Require Extraction.
From Coq Require Import ExtrOcamlBasic.
From ACPI Require Import Lib.Bytes Lib.Sx Judge.
Extraction Language OCaml.
Extraction "model.ml" run_case oracle judged project evs_eqb dec_step.
