(* Golden-vector anchors: the Impl model (Judge.run_case) AND the Spec layer (Judge.oracle) tied to the byte vectors
   that the crate's own unit tests contain (src/aml.rs: mostly iasl dumps; src/rimt.rs; the signature checks of
   src/hest.rs, src/rqsc.rs, src/spcr.rs).

   For a golden vector G of a Rust test that builds object X, with <case> the exchange-vocabulary S-expression of exactly
   that construction (same constructors, same arguments; vocabulary: Spec/AmlTermS.v, Spec/RimtS.v, AGENT_GUIDE.md):

     anchor_<n>          run_case Wrapping <comp> <case> = [EvBytes G]     the Impl model produces the crate's golden bytes
     anchor_<n>_checked  the same in the overflow-checking (debug) profile
     anchor_<n>_spec     judged p <comp> <case> && oracle p <comp> <case> [EvBytes G] = true
                         the case is inside the domain the property-p oracle really judges, and the Spec layer (the independent
                         AML parser / reference descriptor layouts / reference table layouts, which never look at the
                         Impl model) ACCEPTS the golden bytes as the encoding of that construction.
                         p = 6 (C06 parse-back), 7 (C07 PkgLength at the call site), 8 (integers), 9 (paths), 10 (resource
                         descriptors), 15 (alternative constructions), 16 (EISA); for table histories p = 1..5.

   Every vector is a definition gold_<n> preceded by a machine-readable marker  (* ANCHOR test=<file.rs>::<test_fn> *) .
   tools/anchors_check.py re-reads that test function from the crate's CURRENT sources, extracts its byte-array literals
   and checks that gold_<n> is one of them, element for element: the anchors are checked to be the crate's golden vectors,
   not asserted to be.  Elements are copied verbatim (hex stays hex); b'c' characters and constant expressions
   ((1 << 6) | (66 & 0xf), ...) are written as their values, the script evaluates the Rust side.
   Where a test's vector contains a smaller object that the vocabulary can also build alone (the ResourceTemplate inside
   Name (_CRS, ...), one descriptor inside the template, one of two concatenated methods), the smaller anchor is stated on a
   slice (skipn / firstn) of the SAME gold_ definition, computed by Coq.

   Every Example is closed by computation (vm_compute. reflexivity.); no proof is left open. *)
From Coq Require Import String Ascii NArith List Bool.
From ACPI Require Import Lib.Bytes Lib.Sx Impl.AmlCore Impl.AmlTerm Impl.Rimt Spec.Layout Spec.AmlTermS Spec.RimtS Judge.
Import ListNotations.
Open Scope N_scope.
Open Scope bool_scope.

(* text arguments (paths, names, EISA ids, strings) are the byte lists of their ASCII characters *)
Definition str (s : string) : sx := SL (map (fun c => SA (N_of_ascii c)) (list_ascii_of_string s)).
Arguments str s%string.

Definition slice (off len : nat) (l : list N) : list N := firstn len (skipn off l).
(* the image shown by the last observation of a history *)
Definition last_image (evs : list ev) : list N := match last evs EvPanic with EvBytes b => b | _ => [] end.
(* two objects serialised one after the other into the same vector *)
Definition cat2 (a b : list ev) : list N := match a, b with [EvBytes x], [EvBytes y] => (x ++ y)%list | _, _ => [] end.


(* ====================================================================================================
   src/aml.rs: objects (component 40 = one AML term)
   ==================================================================================================== *)

(* Device (_SB.COM1) { Name (_HID, EisaId ("PNP0501")); Name (_CRS, ResourceTemplate { Interrupt; IO }) }  -- iasl *)
(* ANCHOR test=aml.rs::test_device mode=exact *)
Definition gold_device : list N := [0x5B; 0x82; 0x30; 0x2E; 0x5F; 0x53; 0x42; 0x5F; 0x43; 0x4F; 0x4D; 0x31; 0x08;
  0x5F; 0x48; 0x49; 0x44; 0x0C; 0x41; 0xD0; 0x05; 0x01; 0x08; 0x5F; 0x43; 0x52; 0x53; 0x11; 0x16; 0x0A; 0x13; 0x89;
  0x06; 0x00; 0x03; 0x01; 0x04; 0x00; 0x00; 0x00; 0x47; 0x01; 0xF8; 0x03; 0xF8; 0x03; 0x00; 0x08; 0x79; 0x00].
(* case: (41 "_SB_.COM1" ((40 "_HID" (9 "PNP0501")) (40 "_CRS" (62 ((23 1 1 0 0 4) (22 1016 1016 0 8)))))) *)
Definition case_device : sx := SL [SA 41; str "_SB_.COM1"; SL [SL [SA 40; str "_HID"; SL [SA 9; str "PNP0501"]]; SL
  [SA 40; str "_CRS"; SL [SA 62; SL [SL [SA 23; SA 1; SA 1; SA 0; SA 0; SA 4]; SL [SA 22; SA 0x3F8; SA 0x3F8; SA 0; SA
  8]]]]]].
Example anchor_device : run_case Wrapping 40 case_device = [EvBytes gold_device]. Proof. vm_compute. reflexivity. Qed.
Example anchor_device_checked : run_case Checked 40 case_device = [EvBytes gold_device]. Proof. vm_compute. reflexivity. Qed.
Example anchor_device_spec : judged 6 40 case_device && oracle 6 40 case_device [EvBytes gold_device] = true.
Proof. vm_compute. reflexivity. Qed.
Example anchor_device_spec7 : judged 7 40 case_device && oracle 7 40 case_device [EvBytes gold_device] = true.
Proof. vm_compute. reflexivity. Qed.

(* Scope (_SB.MBRD) { Name (_CRS, ResourceTemplate { Memory32Fixed (ReadWrite, 0xE8000000, 0x10000000) }) }  -- iasl
  *)
(* ANCHOR test=aml.rs::test_scope mode=exact *)
Definition gold_scope : list N := [0x10; 0x21; 0x2E; 0x5F; 0x53; 0x42; 0x5F; 0x4D; 0x42; 0x52; 0x44; 0x08; 0x5F; 0x43;
  0x52; 0x53; 0x11; 0x11; 0x0A; 0x0E; 0x86; 0x09; 0x00; 0x01; 0x00; 0x00; 0x00; 0xE8; 0x00; 0x00; 0x00; 0x10; 0x79;
  0x00].
(* case: (42 "_SB_.MBRD" ((40 "_CRS" (62 ((20 1 3892314112 268435456)))))) *)
Definition case_scope : sx := SL [SA 42; str "_SB_.MBRD"; SL [SL [SA 40; str "_CRS"; SL [SA 62; SL [SL [SA 20; SA 1;
  SA 0xE8000000; SA 0x10000000]]]]]].
Example anchor_scope : run_case Wrapping 40 case_scope = [EvBytes gold_scope]. Proof. vm_compute. reflexivity. Qed.
Example anchor_scope_checked : run_case Checked 40 case_scope = [EvBytes gold_scope]. Proof. vm_compute. reflexivity. Qed.
Example anchor_scope_spec : judged 6 40 case_scope && oracle 6 40 case_scope [EvBytes gold_scope] = true.
Proof. vm_compute. reflexivity. Qed.
Example anchor_scope_spec7 : judged 7 40 case_scope && oracle 7 40 case_scope [EvBytes gold_scope] = true.
Proof. vm_compute. reflexivity. Qed.

(* ---- test_resource_template: six Name (_CRS, ResourceTemplate {...}) vectors (iasl).  For each: the Name object (C06), the
   template alone = the vector without its 5 leading bytes 08 "_CRS" (C10: declared size, tiling by the descriptors' own
   length fields, end tag, reference encodings), and each descriptor alone = its slice of the vector (C10: the reference
   encoding of ACPI 6.5 section 6.4 for the caller's arguments). *)

(* Memory32Fixed (ReadWrite, 0xE8000000, 0x10000000) *)
(* ANCHOR test=aml.rs::test_resource_template mode=exact *)
Definition gold_crs_mem32 : list N := [0x08; 0x5F; 0x43; 0x52; 0x53; 0x11; 0x11; 0x0A; 0x0E; 0x86; 0x09; 0x00; 0x01;
  0x00; 0x00; 0x00; 0xE8; 0x00; 0x00; 0x00; 0x10; 0x79; 0x00].
(* case: (40 "_CRS" (62 ((20 1 3892314112 268435456)))) *)
Definition case_crs_mem32 : sx := SL [SA 40; str "_CRS"; SL [SA 62; SL [SL [SA 20; SA 1; SA 0xE8000000; SA
  0x10000000]]]].
Example anchor_crs_mem32 : run_case Wrapping 40 case_crs_mem32 = [EvBytes gold_crs_mem32]. Proof. vm_compute. reflexivity. Qed.
Example anchor_crs_mem32_checked : run_case Checked 40 case_crs_mem32 = [EvBytes gold_crs_mem32].
Proof. vm_compute. reflexivity. Qed.
Example anchor_crs_mem32_spec : judged 6 40 case_crs_mem32 && oracle 6 40 case_crs_mem32 [EvBytes gold_crs_mem32] =
  true.
Proof. vm_compute. reflexivity. Qed.
(* case: (62 ((20 1 3892314112 268435456))) *)
Definition case_crs_mem32_tpl : sx := SL [SA 62; SL [SL [SA 20; SA 1; SA 0xE8000000; SA 0x10000000]]].
Example anchor_crs_mem32_tpl : run_case Wrapping 40 case_crs_mem32_tpl = [EvBytes (skipn 5 gold_crs_mem32)].
Proof. vm_compute. reflexivity. Qed.
Example anchor_crs_mem32_tpl_checked : run_case Checked 40 case_crs_mem32_tpl = [EvBytes (skipn 5 gold_crs_mem32)].
Proof. vm_compute. reflexivity. Qed.
Example anchor_crs_mem32_tpl_spec : judged 10 40 case_crs_mem32_tpl && oracle 10 40 case_crs_mem32_tpl [EvBytes (skipn
  5 gold_crs_mem32)] = true.
Proof. vm_compute. reflexivity. Qed.
Example anchor_crs_mem32_tpl_spec6 : judged 6 40 case_crs_mem32_tpl && oracle 6 40 case_crs_mem32_tpl [EvBytes (skipn
  5 gold_crs_mem32)] = true.
Proof. vm_compute. reflexivity. Qed.
Example anchor_crs_mem32_tpl_spec7 : judged 7 40 case_crs_mem32_tpl && oracle 7 40 case_crs_mem32_tpl [EvBytes (skipn
  5 gold_crs_mem32)] = true.
Proof. vm_compute. reflexivity. Qed.
(* case: (20 1 3892314112 268435456) *)
Definition case_crs_mem32_d0 : sx := SL [SA 20; SA 1; SA 0xE8000000; SA 0x10000000].
Example anchor_crs_mem32_d0 : run_case Wrapping 40 case_crs_mem32_d0 = [EvBytes (slice 9 12 gold_crs_mem32)].
Proof. vm_compute. reflexivity. Qed.
Example anchor_crs_mem32_d0_checked : run_case Checked 40 case_crs_mem32_d0 = [EvBytes (slice 9 12 gold_crs_mem32)].
Proof. vm_compute. reflexivity. Qed.
Example anchor_crs_mem32_d0_spec : judged 10 40 case_crs_mem32_d0 && oracle 10 40 case_crs_mem32_d0 [EvBytes (slice 9
  12 gold_crs_mem32)] = true.
Proof. vm_compute. reflexivity. Qed.

(* WordBusNumber 0x0000..0x00FF: AddressSpace::new_bus_number(0x0u16, 0xffu16) *)
(* ANCHOR test=aml.rs::test_resource_template mode=exact *)
Definition gold_crs_wordbus : list N := [0x08; 0x5F; 0x43; 0x52; 0x53; 0x11; 0x15; 0x0A; 0x12; 0x88; 0x0D; 0x00; 0x02;
  0x0C; 0x00; 0x00; 0x00; 0x00; 0x00; 0xFF; 0x00; 0x00; 0x00; 0x00; 0x01; 0x79; 0x00].
(* case: (40 "_CRS" (62 ((21 16 2 0 0 0 255 ())))) *)
Definition case_crs_wordbus : sx := SL [SA 40; str "_CRS"; SL [SA 62; SL [SL [SA 21; SA 16; SA 2; SA 0; SA 0; SA 0; SA
  255; SL []]]]].
Example anchor_crs_wordbus : run_case Wrapping 40 case_crs_wordbus = [EvBytes gold_crs_wordbus].
Proof. vm_compute. reflexivity. Qed.
Example anchor_crs_wordbus_checked : run_case Checked 40 case_crs_wordbus = [EvBytes gold_crs_wordbus].
Proof. vm_compute. reflexivity. Qed.
Example anchor_crs_wordbus_spec : judged 6 40 case_crs_wordbus && oracle 6 40 case_crs_wordbus [EvBytes
  gold_crs_wordbus] = true.
Proof. vm_compute. reflexivity. Qed.
(* case: (62 ((21 16 2 0 0 0 255 ()))) *)
Definition case_crs_wordbus_tpl : sx := SL [SA 62; SL [SL [SA 21; SA 16; SA 2; SA 0; SA 0; SA 0; SA 255; SL []]]].
Example anchor_crs_wordbus_tpl : run_case Wrapping 40 case_crs_wordbus_tpl = [EvBytes (skipn 5 gold_crs_wordbus)].
Proof. vm_compute. reflexivity. Qed.
Example anchor_crs_wordbus_tpl_checked : run_case Checked 40 case_crs_wordbus_tpl = [EvBytes (skipn 5
  gold_crs_wordbus)].
Proof. vm_compute. reflexivity. Qed.
Example anchor_crs_wordbus_tpl_spec : judged 10 40 case_crs_wordbus_tpl && oracle 10 40 case_crs_wordbus_tpl [EvBytes
  (skipn 5 gold_crs_wordbus)] = true.
Proof. vm_compute. reflexivity. Qed.
Example anchor_crs_wordbus_tpl_spec6 : judged 6 40 case_crs_wordbus_tpl && oracle 6 40 case_crs_wordbus_tpl [EvBytes
  (skipn 5 gold_crs_wordbus)] = true.
Proof. vm_compute. reflexivity. Qed.
Example anchor_crs_wordbus_tpl_spec7 : judged 7 40 case_crs_wordbus_tpl && oracle 7 40 case_crs_wordbus_tpl [EvBytes
  (skipn 5 gold_crs_wordbus)] = true.
Proof. vm_compute. reflexivity. Qed.
(* case: (21 16 2 0 0 0 255 ()) *)
Definition case_crs_wordbus_d0 : sx := SL [SA 21; SA 16; SA 2; SA 0; SA 0; SA 0; SA 255; SL []].
Example anchor_crs_wordbus_d0 : run_case Wrapping 40 case_crs_wordbus_d0 = [EvBytes (slice 9 16 gold_crs_wordbus)].
Proof. vm_compute. reflexivity. Qed.
Example anchor_crs_wordbus_d0_checked : run_case Checked 40 case_crs_wordbus_d0 = [EvBytes (slice 9 16
  gold_crs_wordbus)].
Proof. vm_compute. reflexivity. Qed.
Example anchor_crs_wordbus_d0_spec : judged 10 40 case_crs_wordbus_d0 && oracle 10 40 case_crs_wordbus_d0 [EvBytes
  (slice 9 16 gold_crs_wordbus)] = true.
Proof. vm_compute. reflexivity. Qed.

(* WordIO 0x0000..0x0CF7 and 0x0D00..0xFFFF: AddressSpace::new_io(.., None) twice *)
(* ANCHOR test=aml.rs::test_resource_template mode=exact *)
Definition gold_crs_wordio : list N := [0x08; 0x5F; 0x43; 0x52; 0x53; 0x11; 0x25; 0x0A; 0x22; 0x88; 0x0D; 0x00; 0x01;
  0x0C; 0x03; 0x00; 0x00; 0x00; 0x00; 0xF7; 0x0C; 0x00; 0x00; 0xF8; 0x0C; 0x88; 0x0D; 0x00; 0x01; 0x0C; 0x03; 0x00;
  0x00; 0x00; 0x0D; 0xFF; 0xFF; 0x00; 0x00; 0x00; 0xF3; 0x79; 0x00].
(* case: (40 "_CRS" (62 ((21 16 1 0 0 0 3319 ()) (21 16 1 0 0 3328 65535 ())))) *)
Definition case_crs_wordio : sx := SL [SA 40; str "_CRS"; SL [SA 62; SL [SL [SA 21; SA 16; SA 1; SA 0; SA 0; SA 0; SA
  0xCF7; SL []]; SL [SA 21; SA 16; SA 1; SA 0; SA 0; SA 0xD00; SA 0xFFFF; SL []]]]].
Example anchor_crs_wordio : run_case Wrapping 40 case_crs_wordio = [EvBytes gold_crs_wordio].
Proof. vm_compute. reflexivity. Qed.
Example anchor_crs_wordio_checked : run_case Checked 40 case_crs_wordio = [EvBytes gold_crs_wordio].
Proof. vm_compute. reflexivity. Qed.
Example anchor_crs_wordio_spec : judged 6 40 case_crs_wordio && oracle 6 40 case_crs_wordio [EvBytes gold_crs_wordio]
  = true.
Proof. vm_compute. reflexivity. Qed.
(* case: (62 ((21 16 1 0 0 0 3319 ()) (21 16 1 0 0 3328 65535 ()))) *)
Definition case_crs_wordio_tpl : sx := SL [SA 62; SL [SL [SA 21; SA 16; SA 1; SA 0; SA 0; SA 0; SA 0xCF7; SL []]; SL
  [SA 21; SA 16; SA 1; SA 0; SA 0; SA 0xD00; SA 0xFFFF; SL []]]].
Example anchor_crs_wordio_tpl : run_case Wrapping 40 case_crs_wordio_tpl = [EvBytes (skipn 5 gold_crs_wordio)].
Proof. vm_compute. reflexivity. Qed.
Example anchor_crs_wordio_tpl_checked : run_case Checked 40 case_crs_wordio_tpl = [EvBytes (skipn 5 gold_crs_wordio)].
Proof. vm_compute. reflexivity. Qed.
Example anchor_crs_wordio_tpl_spec : judged 10 40 case_crs_wordio_tpl && oracle 10 40 case_crs_wordio_tpl [EvBytes
  (skipn 5 gold_crs_wordio)] = true.
Proof. vm_compute. reflexivity. Qed.
Example anchor_crs_wordio_tpl_spec6 : judged 6 40 case_crs_wordio_tpl && oracle 6 40 case_crs_wordio_tpl [EvBytes
  (skipn 5 gold_crs_wordio)] = true.
Proof. vm_compute. reflexivity. Qed.
Example anchor_crs_wordio_tpl_spec7 : judged 7 40 case_crs_wordio_tpl && oracle 7 40 case_crs_wordio_tpl [EvBytes
  (skipn 5 gold_crs_wordio)] = true.
Proof. vm_compute. reflexivity. Qed.
(* case: (21 16 1 0 0 0 3319 ()) *)
Definition case_crs_wordio_d0 : sx := SL [SA 21; SA 16; SA 1; SA 0; SA 0; SA 0; SA 0xCF7; SL []].
Example anchor_crs_wordio_d0 : run_case Wrapping 40 case_crs_wordio_d0 = [EvBytes (slice 9 16 gold_crs_wordio)].
Proof. vm_compute. reflexivity. Qed.
Example anchor_crs_wordio_d0_checked : run_case Checked 40 case_crs_wordio_d0 = [EvBytes (slice 9 16
  gold_crs_wordio)].
Proof. vm_compute. reflexivity. Qed.
Example anchor_crs_wordio_d0_spec : judged 10 40 case_crs_wordio_d0 && oracle 10 40 case_crs_wordio_d0 [EvBytes (slice
  9 16 gold_crs_wordio)] = true.
Proof. vm_compute. reflexivity. Qed.
(* case: (21 16 1 0 0 3328 65535 ()) *)
Definition case_crs_wordio_d1 : sx := SL [SA 21; SA 16; SA 1; SA 0; SA 0; SA 0xD00; SA 0xFFFF; SL []].
Example anchor_crs_wordio_d1 : run_case Wrapping 40 case_crs_wordio_d1 = [EvBytes (slice 25 16 gold_crs_wordio)].
Proof. vm_compute. reflexivity. Qed.
Example anchor_crs_wordio_d1_checked : run_case Checked 40 case_crs_wordio_d1 = [EvBytes (slice 25 16
  gold_crs_wordio)].
Proof. vm_compute. reflexivity. Qed.
Example anchor_crs_wordio_d1_spec : judged 10 40 case_crs_wordio_d1 && oracle 10 40 case_crs_wordio_d1 [EvBytes (slice
  25 16 gold_crs_wordio)] = true.
Proof. vm_compute. reflexivity. Qed.

(* DWordMemory Cacheable ReadWrite 0xA0000..0xBFFFF and NonCacheable ReadWrite 0xC0000000..0xFEBFFFFF *)
(* ANCHOR test=aml.rs::test_resource_template mode=exact *)
Definition gold_crs_dwordmem : list N := [0x08; 0x5F; 0x43; 0x52; 0x53; 0x11; 0x39; 0x0A; 0x36; 0x87; 0x17; 0x00;
  0x00; 0x0C; 0x03; 0x00; 0x00; 0x00; 0x00; 0x00; 0x00; 0x0A; 0x00; 0xFF; 0xFF; 0x0B; 0x00; 0x00; 0x00; 0x00; 0x00;
  0x00; 0x00; 0x02; 0x00; 0x87; 0x17; 0x00; 0x00; 0x0C; 0x01; 0x00; 0x00; 0x00; 0x00; 0x00; 0x00; 0x00; 0xC0; 0xFF;
  0xFF; 0xBF; 0xFE; 0x00; 0x00; 0x00; 0x00; 0x00; 0x00; 0xC0; 0x3E; 0x79; 0x00].
(* case: (40 "_CRS" (62 ((21 32 0 1 1 655360 786431 ()) (21 32 0 0 1 3221225472 4273995775 ())))) *)
Definition case_crs_dwordmem : sx := SL [SA 40; str "_CRS"; SL [SA 62; SL [SL [SA 21; SA 32; SA 0; SA 1; SA 1; SA
  0xA0000; SA 0xBFFFF; SL []]; SL [SA 21; SA 32; SA 0; SA 0; SA 1; SA 0xC0000000; SA 0xFEBFFFFF; SL []]]]].
Example anchor_crs_dwordmem : run_case Wrapping 40 case_crs_dwordmem = [EvBytes gold_crs_dwordmem].
Proof. vm_compute. reflexivity. Qed.
Example anchor_crs_dwordmem_checked : run_case Checked 40 case_crs_dwordmem = [EvBytes gold_crs_dwordmem].
Proof. vm_compute. reflexivity. Qed.
Example anchor_crs_dwordmem_spec : judged 6 40 case_crs_dwordmem && oracle 6 40 case_crs_dwordmem [EvBytes
  gold_crs_dwordmem] = true.
Proof. vm_compute. reflexivity. Qed.
(* case: (62 ((21 32 0 1 1 655360 786431 ()) (21 32 0 0 1 3221225472 4273995775 ()))) *)
Definition case_crs_dwordmem_tpl : sx := SL [SA 62; SL [SL [SA 21; SA 32; SA 0; SA 1; SA 1; SA 0xA0000; SA 0xBFFFF; SL
  []]; SL [SA 21; SA 32; SA 0; SA 0; SA 1; SA 0xC0000000; SA 0xFEBFFFFF; SL []]]].
Example anchor_crs_dwordmem_tpl : run_case Wrapping 40 case_crs_dwordmem_tpl = [EvBytes (skipn 5 gold_crs_dwordmem)].
Proof. vm_compute. reflexivity. Qed.
Example anchor_crs_dwordmem_tpl_checked : run_case Checked 40 case_crs_dwordmem_tpl = [EvBytes (skipn 5
  gold_crs_dwordmem)].
Proof. vm_compute. reflexivity. Qed.
Example anchor_crs_dwordmem_tpl_spec : judged 10 40 case_crs_dwordmem_tpl && oracle 10 40 case_crs_dwordmem_tpl
  [EvBytes (skipn 5 gold_crs_dwordmem)] = true.
Proof. vm_compute. reflexivity. Qed.
Example anchor_crs_dwordmem_tpl_spec6 : judged 6 40 case_crs_dwordmem_tpl && oracle 6 40 case_crs_dwordmem_tpl
  [EvBytes (skipn 5 gold_crs_dwordmem)] = true.
Proof. vm_compute. reflexivity. Qed.
Example anchor_crs_dwordmem_tpl_spec7 : judged 7 40 case_crs_dwordmem_tpl && oracle 7 40 case_crs_dwordmem_tpl
  [EvBytes (skipn 5 gold_crs_dwordmem)] = true.
Proof. vm_compute. reflexivity. Qed.
(* case: (21 32 0 1 1 655360 786431 ()) *)
Definition case_crs_dwordmem_d0 : sx := SL [SA 21; SA 32; SA 0; SA 1; SA 1; SA 0xA0000; SA 0xBFFFF; SL []].
Example anchor_crs_dwordmem_d0 : run_case Wrapping 40 case_crs_dwordmem_d0 = [EvBytes (slice 9 26 gold_crs_dwordmem)].
Proof. vm_compute. reflexivity. Qed.
Example anchor_crs_dwordmem_d0_checked : run_case Checked 40 case_crs_dwordmem_d0 = [EvBytes (slice 9 26
  gold_crs_dwordmem)].
Proof. vm_compute. reflexivity. Qed.
Example anchor_crs_dwordmem_d0_spec : judged 10 40 case_crs_dwordmem_d0 && oracle 10 40 case_crs_dwordmem_d0 [EvBytes
  (slice 9 26 gold_crs_dwordmem)] = true.
Proof. vm_compute. reflexivity. Qed.
(* case: (21 32 0 0 1 3221225472 4273995775 ()) *)
Definition case_crs_dwordmem_d1 : sx := SL [SA 21; SA 32; SA 0; SA 0; SA 1; SA 0xC0000000; SA 0xFEBFFFFF; SL []].
Example anchor_crs_dwordmem_d1 : run_case Wrapping 40 case_crs_dwordmem_d1 = [EvBytes (slice 35 26
  gold_crs_dwordmem)].
Proof. vm_compute. reflexivity. Qed.
Example anchor_crs_dwordmem_d1_checked : run_case Checked 40 case_crs_dwordmem_d1 = [EvBytes (slice 35 26
  gold_crs_dwordmem)].
Proof. vm_compute. reflexivity. Qed.
Example anchor_crs_dwordmem_d1_spec : judged 10 40 case_crs_dwordmem_d1 && oracle 10 40 case_crs_dwordmem_d1 [EvBytes
  (slice 35 26 gold_crs_dwordmem)] = true.
Proof. vm_compute. reflexivity. Qed.

(* QWordMemory Cacheable ReadWrite 0x800000000..0xFFFFFFFFF *)
(* ANCHOR test=aml.rs::test_resource_template mode=exact *)
Definition gold_crs_qwordmem : list N := [0x08; 0x5F; 0x43; 0x52; 0x53; 0x11; 0x33; 0x0A; 0x30; 0x8A; 0x2B; 0x00;
  0x00; 0x0C; 0x03; 0x00; 0x00; 0x00; 0x00; 0x00; 0x00; 0x00; 0x00; 0x00; 0x00; 0x00; 0x00; 0x08; 0x00; 0x00; 0x00;
  0xFF; 0xFF; 0xFF; 0xFF; 0x0F; 0x00; 0x00; 0x00; 0x00; 0x00; 0x00; 0x00; 0x00; 0x00; 0x00; 0x00; 0x00; 0x00; 0x00;
  0x00; 0x08; 0x00; 0x00; 0x00; 0x79; 0x00].
(* case: (40 "_CRS" (62 ((21 64 0 1 1 34359738368 68719476735 ())))) *)
Definition case_crs_qwordmem : sx := SL [SA 40; str "_CRS"; SL [SA 62; SL [SL [SA 21; SA 64; SA 0; SA 1; SA 1; SA
  0x800000000; SA 0xFFFFFFFFF; SL []]]]].
Example anchor_crs_qwordmem : run_case Wrapping 40 case_crs_qwordmem = [EvBytes gold_crs_qwordmem].
Proof. vm_compute. reflexivity. Qed.
Example anchor_crs_qwordmem_checked : run_case Checked 40 case_crs_qwordmem = [EvBytes gold_crs_qwordmem].
Proof. vm_compute. reflexivity. Qed.
Example anchor_crs_qwordmem_spec : judged 6 40 case_crs_qwordmem && oracle 6 40 case_crs_qwordmem [EvBytes
  gold_crs_qwordmem] = true.
Proof. vm_compute. reflexivity. Qed.
(* case: (62 ((21 64 0 1 1 34359738368 68719476735 ()))) *)
Definition case_crs_qwordmem_tpl : sx := SL [SA 62; SL [SL [SA 21; SA 64; SA 0; SA 1; SA 1; SA 0x800000000; SA
  0xFFFFFFFFF; SL []]]].
Example anchor_crs_qwordmem_tpl : run_case Wrapping 40 case_crs_qwordmem_tpl = [EvBytes (skipn 5 gold_crs_qwordmem)].
Proof. vm_compute. reflexivity. Qed.
Example anchor_crs_qwordmem_tpl_checked : run_case Checked 40 case_crs_qwordmem_tpl = [EvBytes (skipn 5
  gold_crs_qwordmem)].
Proof. vm_compute. reflexivity. Qed.
Example anchor_crs_qwordmem_tpl_spec : judged 10 40 case_crs_qwordmem_tpl && oracle 10 40 case_crs_qwordmem_tpl
  [EvBytes (skipn 5 gold_crs_qwordmem)] = true.
Proof. vm_compute. reflexivity. Qed.
Example anchor_crs_qwordmem_tpl_spec6 : judged 6 40 case_crs_qwordmem_tpl && oracle 6 40 case_crs_qwordmem_tpl
  [EvBytes (skipn 5 gold_crs_qwordmem)] = true.
Proof. vm_compute. reflexivity. Qed.
Example anchor_crs_qwordmem_tpl_spec7 : judged 7 40 case_crs_qwordmem_tpl && oracle 7 40 case_crs_qwordmem_tpl
  [EvBytes (skipn 5 gold_crs_qwordmem)] = true.
Proof. vm_compute. reflexivity. Qed.
(* case: (21 64 0 1 1 34359738368 68719476735 ()) *)
Definition case_crs_qwordmem_d0 : sx := SL [SA 21; SA 64; SA 0; SA 1; SA 1; SA 0x800000000; SA 0xFFFFFFFFF; SL []].
Example anchor_crs_qwordmem_d0 : run_case Wrapping 40 case_crs_qwordmem_d0 = [EvBytes (slice 9 46 gold_crs_qwordmem)].
Proof. vm_compute. reflexivity. Qed.
Example anchor_crs_qwordmem_d0_checked : run_case Checked 40 case_crs_qwordmem_d0 = [EvBytes (slice 9 46
  gold_crs_qwordmem)].
Proof. vm_compute. reflexivity. Qed.
Example anchor_crs_qwordmem_d0_spec : judged 10 40 case_crs_qwordmem_d0 && oracle 10 40 case_crs_qwordmem_d0 [EvBytes
  (slice 9 46 gold_crs_qwordmem)] = true.
Proof. vm_compute. reflexivity. Qed.

(* Interrupt (ResourceConsumer, Edge, ActiveHigh, Exclusive) {4}; IO (Decode16, 0x3F8, 0x3F8, 0, 8) *)
(* ANCHOR test=aml.rs::test_resource_template mode=exact *)
Definition gold_crs_irq_io : list N := [0x08; 0x5F; 0x43; 0x52; 0x53; 0x11; 0x16; 0x0A; 0x13; 0x89; 0x06; 0x00; 0x03;
  0x01; 0x04; 0x00; 0x00; 0x00; 0x47; 0x01; 0xF8; 0x03; 0xF8; 0x03; 0x00; 0x08; 0x79; 0x00].
(* case: (40 "_CRS" (62 ((23 1 1 0 0 4) (22 1016 1016 0 8)))) *)
Definition case_crs_irq_io : sx := SL [SA 40; str "_CRS"; SL [SA 62; SL [SL [SA 23; SA 1; SA 1; SA 0; SA 0; SA 4]; SL
  [SA 22; SA 0x3F8; SA 0x3F8; SA 0; SA 8]]]].
Example anchor_crs_irq_io : run_case Wrapping 40 case_crs_irq_io = [EvBytes gold_crs_irq_io].
Proof. vm_compute. reflexivity. Qed.
Example anchor_crs_irq_io_checked : run_case Checked 40 case_crs_irq_io = [EvBytes gold_crs_irq_io].
Proof. vm_compute. reflexivity. Qed.
Example anchor_crs_irq_io_spec : judged 6 40 case_crs_irq_io && oracle 6 40 case_crs_irq_io [EvBytes gold_crs_irq_io]
  = true.
Proof. vm_compute. reflexivity. Qed.
(* case: (62 ((23 1 1 0 0 4) (22 1016 1016 0 8))) *)
Definition case_crs_irq_io_tpl : sx := SL [SA 62; SL [SL [SA 23; SA 1; SA 1; SA 0; SA 0; SA 4]; SL [SA 22; SA 0x3F8;
  SA 0x3F8; SA 0; SA 8]]].
Example anchor_crs_irq_io_tpl : run_case Wrapping 40 case_crs_irq_io_tpl = [EvBytes (skipn 5 gold_crs_irq_io)].
Proof. vm_compute. reflexivity. Qed.
Example anchor_crs_irq_io_tpl_checked : run_case Checked 40 case_crs_irq_io_tpl = [EvBytes (skipn 5 gold_crs_irq_io)].
Proof. vm_compute. reflexivity. Qed.
Example anchor_crs_irq_io_tpl_spec : judged 10 40 case_crs_irq_io_tpl && oracle 10 40 case_crs_irq_io_tpl [EvBytes
  (skipn 5 gold_crs_irq_io)] = true.
Proof. vm_compute. reflexivity. Qed.
Example anchor_crs_irq_io_tpl_spec6 : judged 6 40 case_crs_irq_io_tpl && oracle 6 40 case_crs_irq_io_tpl [EvBytes
  (skipn 5 gold_crs_irq_io)] = true.
Proof. vm_compute. reflexivity. Qed.
Example anchor_crs_irq_io_tpl_spec7 : judged 7 40 case_crs_irq_io_tpl && oracle 7 40 case_crs_irq_io_tpl [EvBytes
  (skipn 5 gold_crs_irq_io)] = true.
Proof. vm_compute. reflexivity. Qed.
(* case: (23 1 1 0 0 4) *)
Definition case_crs_irq_io_d0 : sx := SL [SA 23; SA 1; SA 1; SA 0; SA 0; SA 4].
Example anchor_crs_irq_io_d0 : run_case Wrapping 40 case_crs_irq_io_d0 = [EvBytes (slice 9 9 gold_crs_irq_io)].
Proof. vm_compute. reflexivity. Qed.
Example anchor_crs_irq_io_d0_checked : run_case Checked 40 case_crs_irq_io_d0 = [EvBytes (slice 9 9 gold_crs_irq_io)].
Proof. vm_compute. reflexivity. Qed.
Example anchor_crs_irq_io_d0_spec : judged 10 40 case_crs_irq_io_d0 && oracle 10 40 case_crs_irq_io_d0 [EvBytes (slice
  9 9 gold_crs_irq_io)] = true.
Proof. vm_compute. reflexivity. Qed.
(* case: (22 1016 1016 0 8) *)
Definition case_crs_irq_io_d1 : sx := SL [SA 22; SA 0x3F8; SA 0x3F8; SA 0; SA 8].
Example anchor_crs_irq_io_d1 : run_case Wrapping 40 case_crs_irq_io_d1 = [EvBytes (slice 18 8 gold_crs_irq_io)].
Proof. vm_compute. reflexivity. Qed.
Example anchor_crs_irq_io_d1_checked : run_case Checked 40 case_crs_irq_io_d1 = [EvBytes (slice 18 8
  gold_crs_irq_io)].
Proof. vm_compute. reflexivity. Qed.
Example anchor_crs_irq_io_d1_spec : judged 10 40 case_crs_irq_io_d1 && oracle 10 40 case_crs_irq_io_d1 [EvBytes (slice
  18 8 gold_crs_irq_io)] = true.
Proof. vm_compute. reflexivity. Qed.

(* Name (_S5, Package (0x01) { 0x05 })  -- iasl *)
(* ANCHOR test=aml.rs::test_package mode=exact *)
Definition gold_package : list N := [0x08; 0x5F; 0x53; 0x35; 0x5F; 0x12; 0x04; 0x01; 0x0A; 0x05].
(* case: (40 "_S5_" (60 ((4 8 5)))) *)
Definition case_package : sx := SL [SA 40; str "_S5_"; SL [SA 60; SL [SL [SA 4; SA 8; SA 5]]]].
Example anchor_package : run_case Wrapping 40 case_package = [EvBytes gold_package]. Proof. vm_compute. reflexivity. Qed.
Example anchor_package_checked : run_case Checked 40 case_package = [EvBytes gold_package].
Proof. vm_compute. reflexivity. Qed.
Example anchor_package_spec : judged 6 40 case_package && oracle 6 40 case_package [EvBytes gold_package] = true.
Proof. vm_compute. reflexivity. Qed.

(* Name (_HID, EisaId ("PNP0501")) *)
(* ANCHOR test=aml.rs::test_eisa_name mode=exact *)
Definition gold_eisa_name : list N := [0x08; 0x5F; 0x48; 0x49; 0x44; 0x0C; 0x41; 0xD0; 0x05; 0x01].
(* case: (40 "_HID" (9 "PNP0501")) *)
Definition case_eisa_name : sx := SL [SA 40; str "_HID"; SL [SA 9; str "PNP0501"]].
Example anchor_eisa_name : run_case Wrapping 40 case_eisa_name = [EvBytes gold_eisa_name]. Proof. vm_compute. reflexivity. Qed.
Example anchor_eisa_name_checked : run_case Checked 40 case_eisa_name = [EvBytes gold_eisa_name].
Proof. vm_compute. reflexivity. Qed.
Example anchor_eisa_name_spec : judged 6 40 case_eisa_name && oracle 6 40 case_eisa_name [EvBytes gold_eisa_name] =
  true.
Proof. vm_compute. reflexivity. Qed.
(* the EISAName alone (component 5 = EISAName::new(text).to_aml_bytes): the vector without 08 "_HID"; C16: the dword decompresses
   back to the text *)
Definition case_eisa_alone : sx := str "PNP0501".
Example anchor_eisa_alone : run_case Wrapping 5 case_eisa_alone = [EvBytes (skipn 5 gold_eisa_name)].
Proof. vm_compute. reflexivity. Qed.
Example anchor_eisa_alone_spec : judged 16 5 case_eisa_alone && oracle 16 5 case_eisa_alone [EvBytes (skipn 5
  gold_eisa_name)] = true.
Proof. vm_compute. reflexivity. Qed.

(* ---- test_name_path: component 4 = Path::new(text).to_aml_bytes (C09: reference NameString form, decodes back to the segments);
   component 40 (7 text) = the same Path as a term (C06: parses as a reference to that name) *)

(* Path "_SB_" *)
(* ANCHOR test=aml.rs::test_name_path mode=exact *)
Definition gold_path_sb : list N := [0x5F; 0x53; 0x42; 0x5F].
Definition case_path_sb : sx := str "_SB_".
Example anchor_path_sb : run_case Wrapping 4 case_path_sb = [EvBytes gold_path_sb]. Proof. vm_compute. reflexivity. Qed.
Example anchor_path_sb_spec : judged 9 4 case_path_sb && oracle 9 4 case_path_sb [EvBytes gold_path_sb] = true.
Proof. vm_compute. reflexivity. Qed.
Definition case_path_sb_term : sx := SL [SA 7; str "_SB_"].
Example anchor_path_sb_term : run_case Wrapping 40 case_path_sb_term = [EvBytes gold_path_sb].
Proof. vm_compute. reflexivity. Qed.
Example anchor_path_sb_term_checked : run_case Checked 40 case_path_sb_term = [EvBytes gold_path_sb].
Proof. vm_compute. reflexivity. Qed.
Example anchor_path_sb_term_spec : judged 6 40 case_path_sb_term && oracle 6 40 case_path_sb_term [EvBytes
  gold_path_sb] = true.
Proof. vm_compute. reflexivity. Qed.

(* Path "\_SB_" *)
(* ANCHOR test=aml.rs::test_name_path mode=exact *)
Definition gold_path_root_sb : list N := [0x5C; 0x5F; 0x53; 0x42; 0x5F].
Definition case_path_root_sb : sx := str "\_SB_".
Example anchor_path_root_sb : run_case Wrapping 4 case_path_root_sb = [EvBytes gold_path_root_sb].
Proof. vm_compute. reflexivity. Qed.
Example anchor_path_root_sb_spec : judged 9 4 case_path_root_sb && oracle 9 4 case_path_root_sb [EvBytes
  gold_path_root_sb] = true.
Proof. vm_compute. reflexivity. Qed.
Definition case_path_root_sb_term : sx := SL [SA 7; str "\_SB_"].
Example anchor_path_root_sb_term : run_case Wrapping 40 case_path_root_sb_term = [EvBytes gold_path_root_sb].
Proof. vm_compute. reflexivity. Qed.
Example anchor_path_root_sb_term_checked : run_case Checked 40 case_path_root_sb_term = [EvBytes gold_path_root_sb].
Proof. vm_compute. reflexivity. Qed.
Example anchor_path_root_sb_term_spec : judged 6 40 case_path_root_sb_term && oracle 6 40 case_path_root_sb_term
  [EvBytes gold_path_root_sb] = true.
Proof. vm_compute. reflexivity. Qed.

(* Path "_SB_.COM1" *)
(* ANCHOR test=aml.rs::test_name_path mode=exact *)
Definition gold_path_dual : list N := [0x2E; 0x5F; 0x53; 0x42; 0x5F; 0x43; 0x4F; 0x4D; 0x31].
Definition case_path_dual : sx := str "_SB_.COM1".
Example anchor_path_dual : run_case Wrapping 4 case_path_dual = [EvBytes gold_path_dual]. Proof. vm_compute. reflexivity. Qed.
Example anchor_path_dual_spec : judged 9 4 case_path_dual && oracle 9 4 case_path_dual [EvBytes gold_path_dual] =
  true.
Proof. vm_compute. reflexivity. Qed.
Definition case_path_dual_term : sx := SL [SA 7; str "_SB_.COM1"].
Example anchor_path_dual_term : run_case Wrapping 40 case_path_dual_term = [EvBytes gold_path_dual].
Proof. vm_compute. reflexivity. Qed.
Example anchor_path_dual_term_checked : run_case Checked 40 case_path_dual_term = [EvBytes gold_path_dual].
Proof. vm_compute. reflexivity. Qed.
Example anchor_path_dual_term_spec : judged 6 40 case_path_dual_term && oracle 6 40 case_path_dual_term [EvBytes
  gold_path_dual] = true.
Proof. vm_compute. reflexivity. Qed.

(* Path "_SB_.PCI0._HID" *)
(* ANCHOR test=aml.rs::test_name_path mode=exact *)
Definition gold_path_multi : list N := [0x2F; 0x03; 0x5F; 0x53; 0x42; 0x5F; 0x50; 0x43; 0x49; 0x30; 0x5F; 0x48; 0x49;
  0x44].
Definition case_path_multi : sx := str "_SB_.PCI0._HID".
Example anchor_path_multi : run_case Wrapping 4 case_path_multi = [EvBytes gold_path_multi].
Proof. vm_compute. reflexivity. Qed.
Example anchor_path_multi_spec : judged 9 4 case_path_multi && oracle 9 4 case_path_multi [EvBytes gold_path_multi] =
  true.
Proof. vm_compute. reflexivity. Qed.
Definition case_path_multi_term : sx := SL [SA 7; str "_SB_.PCI0._HID"].
Example anchor_path_multi_term : run_case Wrapping 40 case_path_multi_term = [EvBytes gold_path_multi].
Proof. vm_compute. reflexivity. Qed.
Example anchor_path_multi_term_checked : run_case Checked 40 case_path_multi_term = [EvBytes gold_path_multi].
Proof. vm_compute. reflexivity. Qed.
Example anchor_path_multi_term_spec : judged 6 40 case_path_multi_term && oracle 6 40 case_path_multi_term [EvBytes
  gold_path_multi] = true.
Proof. vm_compute. reflexivity. Qed.

(* ---- test_numbers: component 3 = (type value) -> <value as type>.to_aml_bytes, type 8 16 32 64 0(usize) (C08: narrowest encoding,
   decodes back to the value); component 40 (4 type value) = the same integer as a term (C06).  The test repeats identical
   literals for the five carrier types; one gold_ definition per distinct vector. *)

(* ANCHOR test=aml.rs::test_numbers mode=exact *)
Definition gold_num_0a80 : list N := [0x0a; 0x80].
Example anchor_num_0a80_u8 : run_case Wrapping 3 (SL [SA 8; SA 128]) = [EvBytes gold_num_0a80].
Proof. vm_compute. reflexivity. Qed.
Example anchor_num_0a80_u8_spec : judged 8 3 (SL [SA 8; SA 128]) && oracle 8 3 (SL [SA 8; SA 128]) [EvBytes
  gold_num_0a80] = true.
Proof. vm_compute. reflexivity. Qed.
Example anchor_num_0a80_u8_term : run_case Wrapping 40 (SL [SA 4; SA 8; SA 128]) = [EvBytes gold_num_0a80].
Proof. vm_compute. reflexivity. Qed.
Example anchor_num_0a80_u8_term_spec : judged 6 40 (SL [SA 4; SA 8; SA 128]) && oracle 6 40 (SL [SA 4; SA 8; SA 128])
  [EvBytes gold_num_0a80] = true.
Proof. vm_compute. reflexivity. Qed.

(* ANCHOR test=aml.rs::test_numbers mode=exact *)
Definition gold_num_0b0004 : list N := [0x0b; 0x0; 0x04].
Example anchor_num_0b0004_u16 : run_case Wrapping 3 (SL [SA 16; SA 0x400]) = [EvBytes gold_num_0b0004].
Proof. vm_compute. reflexivity. Qed.
Example anchor_num_0b0004_u16_spec : judged 8 3 (SL [SA 16; SA 0x400]) && oracle 8 3 (SL [SA 16; SA 0x400]) [EvBytes
  gold_num_0b0004] = true.
Proof. vm_compute. reflexivity. Qed.
Example anchor_num_0b0004_u16_term : run_case Wrapping 40 (SL [SA 4; SA 16; SA 0x400]) = [EvBytes gold_num_0b0004].
Proof. vm_compute. reflexivity. Qed.
Example anchor_num_0b0004_u16_term_spec : judged 6 40 (SL [SA 4; SA 16; SA 0x400]) && oracle 6 40 (SL [SA 4; SA 16; SA
  0x400]) [EvBytes gold_num_0b0004] = true.
Proof. vm_compute. reflexivity. Qed.

(* ANCHOR test=aml.rs::test_numbers mode=exact *)
Definition gold_num_0c00000001 : list N := [0x0c; 0x00; 0x00; 0x0; 0x01].
Example anchor_num_0c00000001_u32 : run_case Wrapping 3 (SL [SA 32; SA 0x1000000]) = [EvBytes gold_num_0c00000001].
Proof. vm_compute. reflexivity. Qed.
Example anchor_num_0c00000001_u32_spec : judged 8 3 (SL [SA 32; SA 0x1000000]) && oracle 8 3 (SL [SA 32; SA
  0x1000000]) [EvBytes gold_num_0c00000001] = true.
Proof. vm_compute. reflexivity. Qed.
Example anchor_num_0c00000001_u32_term : run_case Wrapping 40 (SL [SA 4; SA 32; SA 0x1000000]) = [EvBytes
  gold_num_0c00000001].
Proof. vm_compute. reflexivity. Qed.
Example anchor_num_0c00000001_u32_term_spec : judged 6 40 (SL [SA 4; SA 32; SA 0x1000000]) && oracle 6 40 (SL [SA 4;
  SA 32; SA 0x1000000]) [EvBytes gold_num_0c00000001] = true.
Proof. vm_compute. reflexivity. Qed.

(* ANCHOR test=aml.rs::test_numbers mode=exact *)
Definition gold_num_decafbad : list N := [0x0e; 0xad; 0xfb; 0xca; 0xde; 0xad; 0xfb; 0xca; 0xde].
Example anchor_num_decafbad_u64 : run_case Wrapping 3 (SL [SA 64; SA 0xDECAFBADDECAFBAD]) = [EvBytes
  gold_num_decafbad].
Proof. vm_compute. reflexivity. Qed.
Example anchor_num_decafbad_u64_spec : judged 8 3 (SL [SA 64; SA 0xDECAFBADDECAFBAD]) && oracle 8 3 (SL [SA 64; SA
  0xDECAFBADDECAFBAD]) [EvBytes gold_num_decafbad] = true.
Proof. vm_compute. reflexivity. Qed.
Example anchor_num_decafbad_u64_term : run_case Wrapping 40 (SL [SA 4; SA 64; SA 0xDECAFBADDECAFBAD]) = [EvBytes
  gold_num_decafbad].
Proof. vm_compute. reflexivity. Qed.
Example anchor_num_decafbad_u64_term_spec : judged 6 40 (SL [SA 4; SA 64; SA 0xDECAFBADDECAFBAD]) && oracle 6 40 (SL
  [SA 4; SA 64; SA 0xDECAFBADDECAFBAD]) [EvBytes gold_num_decafbad] = true.
Proof. vm_compute. reflexivity. Qed.

(* ANCHOR test=aml.rs::test_numbers mode=exact *)
Definition gold_num_zero : list N := [0x00].
Example anchor_num_zero_u8 : run_case Wrapping 3 (SL [SA 8; SA 0]) = [EvBytes gold_num_zero].
Proof. vm_compute. reflexivity. Qed.
Example anchor_num_zero_u8_spec : judged 8 3 (SL [SA 8; SA 0]) && oracle 8 3 (SL [SA 8; SA 0]) [EvBytes gold_num_zero]
  = true.
Proof. vm_compute. reflexivity. Qed.
Example anchor_num_zero_u8_term : run_case Wrapping 40 (SL [SA 4; SA 8; SA 0]) = [EvBytes gold_num_zero].
Proof. vm_compute. reflexivity. Qed.
Example anchor_num_zero_u8_term_spec : judged 6 40 (SL [SA 4; SA 8; SA 0]) && oracle 6 40 (SL [SA 4; SA 8; SA 0])
  [EvBytes gold_num_zero] = true.
Proof. vm_compute. reflexivity. Qed.
Example anchor_num_zero_u16 : run_case Wrapping 3 (SL [SA 16; SA 0]) = [EvBytes gold_num_zero].
Proof. vm_compute. reflexivity. Qed.
Example anchor_num_zero_u16_spec : judged 8 3 (SL [SA 16; SA 0]) && oracle 8 3 (SL [SA 16; SA 0]) [EvBytes
  gold_num_zero] = true.
Proof. vm_compute. reflexivity. Qed.
Example anchor_num_zero_u16_term : run_case Wrapping 40 (SL [SA 4; SA 16; SA 0]) = [EvBytes gold_num_zero].
Proof. vm_compute. reflexivity. Qed.
Example anchor_num_zero_u16_term_spec : judged 6 40 (SL [SA 4; SA 16; SA 0]) && oracle 6 40 (SL [SA 4; SA 16; SA 0])
  [EvBytes gold_num_zero] = true.
Proof. vm_compute. reflexivity. Qed.
Example anchor_num_zero_u32 : run_case Wrapping 3 (SL [SA 32; SA 0]) = [EvBytes gold_num_zero].
Proof. vm_compute. reflexivity. Qed.
Example anchor_num_zero_u32_spec : judged 8 3 (SL [SA 32; SA 0]) && oracle 8 3 (SL [SA 32; SA 0]) [EvBytes
  gold_num_zero] = true.
Proof. vm_compute. reflexivity. Qed.
Example anchor_num_zero_u32_term : run_case Wrapping 40 (SL [SA 4; SA 32; SA 0]) = [EvBytes gold_num_zero].
Proof. vm_compute. reflexivity. Qed.
Example anchor_num_zero_u32_term_spec : judged 6 40 (SL [SA 4; SA 32; SA 0]) && oracle 6 40 (SL [SA 4; SA 32; SA 0])
  [EvBytes gold_num_zero] = true.
Proof. vm_compute. reflexivity. Qed.
Example anchor_num_zero_u64 : run_case Wrapping 3 (SL [SA 64; SA 0]) = [EvBytes gold_num_zero].
Proof. vm_compute. reflexivity. Qed.
Example anchor_num_zero_u64_spec : judged 8 3 (SL [SA 64; SA 0]) && oracle 8 3 (SL [SA 64; SA 0]) [EvBytes
  gold_num_zero] = true.
Proof. vm_compute. reflexivity. Qed.
Example anchor_num_zero_u64_term : run_case Wrapping 40 (SL [SA 4; SA 64; SA 0]) = [EvBytes gold_num_zero].
Proof. vm_compute. reflexivity. Qed.
Example anchor_num_zero_u64_term_spec : judged 6 40 (SL [SA 4; SA 64; SA 0]) && oracle 6 40 (SL [SA 4; SA 64; SA 0])
  [EvBytes gold_num_zero] = true.
Proof. vm_compute. reflexivity. Qed.
Example anchor_num_zero_usize : run_case Wrapping 3 (SL [SA 0; SA 0]) = [EvBytes gold_num_zero].
Proof. vm_compute. reflexivity. Qed.
Example anchor_num_zero_usize_spec : judged 8 3 (SL [SA 0; SA 0]) && oracle 8 3 (SL [SA 0; SA 0]) [EvBytes
  gold_num_zero] = true.
Proof. vm_compute. reflexivity. Qed.
Example anchor_num_zero_usize_term : run_case Wrapping 40 (SL [SA 4; SA 0; SA 0]) = [EvBytes gold_num_zero].
Proof. vm_compute. reflexivity. Qed.
Example anchor_num_zero_usize_term_spec : judged 6 40 (SL [SA 4; SA 0; SA 0]) && oracle 6 40 (SL [SA 4; SA 0; SA 0])
  [EvBytes gold_num_zero] = true.
Proof. vm_compute. reflexivity. Qed.

(* ANCHOR test=aml.rs::test_numbers mode=exact *)
Definition gold_num_one : list N := [0x01].
Example anchor_num_one_u8 : run_case Wrapping 3 (SL [SA 8; SA 1]) = [EvBytes gold_num_one].
Proof. vm_compute. reflexivity. Qed.
Example anchor_num_one_u8_spec : judged 8 3 (SL [SA 8; SA 1]) && oracle 8 3 (SL [SA 8; SA 1]) [EvBytes gold_num_one] =
  true.
Proof. vm_compute. reflexivity. Qed.
Example anchor_num_one_u8_term : run_case Wrapping 40 (SL [SA 4; SA 8; SA 1]) = [EvBytes gold_num_one].
Proof. vm_compute. reflexivity. Qed.
Example anchor_num_one_u8_term_spec : judged 6 40 (SL [SA 4; SA 8; SA 1]) && oracle 6 40 (SL [SA 4; SA 8; SA 1])
  [EvBytes gold_num_one] = true.
Proof. vm_compute. reflexivity. Qed.
Example anchor_num_one_u16 : run_case Wrapping 3 (SL [SA 16; SA 1]) = [EvBytes gold_num_one].
Proof. vm_compute. reflexivity. Qed.
Example anchor_num_one_u16_spec : judged 8 3 (SL [SA 16; SA 1]) && oracle 8 3 (SL [SA 16; SA 1]) [EvBytes
  gold_num_one] = true.
Proof. vm_compute. reflexivity. Qed.
Example anchor_num_one_u16_term : run_case Wrapping 40 (SL [SA 4; SA 16; SA 1]) = [EvBytes gold_num_one].
Proof. vm_compute. reflexivity. Qed.
Example anchor_num_one_u16_term_spec : judged 6 40 (SL [SA 4; SA 16; SA 1]) && oracle 6 40 (SL [SA 4; SA 16; SA 1])
  [EvBytes gold_num_one] = true.
Proof. vm_compute. reflexivity. Qed.
Example anchor_num_one_u32 : run_case Wrapping 3 (SL [SA 32; SA 1]) = [EvBytes gold_num_one].
Proof. vm_compute. reflexivity. Qed.
Example anchor_num_one_u32_spec : judged 8 3 (SL [SA 32; SA 1]) && oracle 8 3 (SL [SA 32; SA 1]) [EvBytes
  gold_num_one] = true.
Proof. vm_compute. reflexivity. Qed.
Example anchor_num_one_u32_term : run_case Wrapping 40 (SL [SA 4; SA 32; SA 1]) = [EvBytes gold_num_one].
Proof. vm_compute. reflexivity. Qed.
Example anchor_num_one_u32_term_spec : judged 6 40 (SL [SA 4; SA 32; SA 1]) && oracle 6 40 (SL [SA 4; SA 32; SA 1])
  [EvBytes gold_num_one] = true.
Proof. vm_compute. reflexivity. Qed.
Example anchor_num_one_u64 : run_case Wrapping 3 (SL [SA 64; SA 1]) = [EvBytes gold_num_one].
Proof. vm_compute. reflexivity. Qed.
Example anchor_num_one_u64_spec : judged 8 3 (SL [SA 64; SA 1]) && oracle 8 3 (SL [SA 64; SA 1]) [EvBytes
  gold_num_one] = true.
Proof. vm_compute. reflexivity. Qed.
Example anchor_num_one_u64_term : run_case Wrapping 40 (SL [SA 4; SA 64; SA 1]) = [EvBytes gold_num_one].
Proof. vm_compute. reflexivity. Qed.
Example anchor_num_one_u64_term_spec : judged 6 40 (SL [SA 4; SA 64; SA 1]) && oracle 6 40 (SL [SA 4; SA 64; SA 1])
  [EvBytes gold_num_one] = true.
Proof. vm_compute. reflexivity. Qed.
Example anchor_num_one_usize : run_case Wrapping 3 (SL [SA 0; SA 1]) = [EvBytes gold_num_one].
Proof. vm_compute. reflexivity. Qed.
Example anchor_num_one_usize_spec : judged 8 3 (SL [SA 0; SA 1]) && oracle 8 3 (SL [SA 0; SA 1]) [EvBytes
  gold_num_one] = true.
Proof. vm_compute. reflexivity. Qed.
Example anchor_num_one_usize_term : run_case Wrapping 40 (SL [SA 4; SA 0; SA 1]) = [EvBytes gold_num_one].
Proof. vm_compute. reflexivity. Qed.
Example anchor_num_one_usize_term_spec : judged 6 40 (SL [SA 4; SA 0; SA 1]) && oracle 6 40 (SL [SA 4; SA 0; SA 1])
  [EvBytes gold_num_one] = true.
Proof. vm_compute. reflexivity. Qed.

(* ANCHOR test=aml.rs::test_numbers mode=exact *)
Definition gold_num_0a86 : list N := [0x0a; 0x86].
Example anchor_num_0a86_u8 : run_case Wrapping 3 (SL [SA 8; SA 134]) = [EvBytes gold_num_0a86].
Proof. vm_compute. reflexivity. Qed.
Example anchor_num_0a86_u8_spec : judged 8 3 (SL [SA 8; SA 134]) && oracle 8 3 (SL [SA 8; SA 134]) [EvBytes
  gold_num_0a86] = true.
Proof. vm_compute. reflexivity. Qed.
Example anchor_num_0a86_u8_term : run_case Wrapping 40 (SL [SA 4; SA 8; SA 134]) = [EvBytes gold_num_0a86].
Proof. vm_compute. reflexivity. Qed.
Example anchor_num_0a86_u8_term_spec : judged 6 40 (SL [SA 4; SA 8; SA 134]) && oracle 6 40 (SL [SA 4; SA 8; SA 134])
  [EvBytes gold_num_0a86] = true.
Proof. vm_compute. reflexivity. Qed.
Example anchor_num_0a86_u16 : run_case Wrapping 3 (SL [SA 16; SA 134]) = [EvBytes gold_num_0a86].
Proof. vm_compute. reflexivity. Qed.
Example anchor_num_0a86_u16_spec : judged 8 3 (SL [SA 16; SA 134]) && oracle 8 3 (SL [SA 16; SA 134]) [EvBytes
  gold_num_0a86] = true.
Proof. vm_compute. reflexivity. Qed.
Example anchor_num_0a86_u16_term : run_case Wrapping 40 (SL [SA 4; SA 16; SA 134]) = [EvBytes gold_num_0a86].
Proof. vm_compute. reflexivity. Qed.
Example anchor_num_0a86_u16_term_spec : judged 6 40 (SL [SA 4; SA 16; SA 134]) && oracle 6 40 (SL [SA 4; SA 16; SA
  134]) [EvBytes gold_num_0a86] = true.
Proof. vm_compute. reflexivity. Qed.
Example anchor_num_0a86_u32 : run_case Wrapping 3 (SL [SA 32; SA 134]) = [EvBytes gold_num_0a86].
Proof. vm_compute. reflexivity. Qed.
Example anchor_num_0a86_u32_spec : judged 8 3 (SL [SA 32; SA 134]) && oracle 8 3 (SL [SA 32; SA 134]) [EvBytes
  gold_num_0a86] = true.
Proof. vm_compute. reflexivity. Qed.
Example anchor_num_0a86_u32_term : run_case Wrapping 40 (SL [SA 4; SA 32; SA 134]) = [EvBytes gold_num_0a86].
Proof. vm_compute. reflexivity. Qed.
Example anchor_num_0a86_u32_term_spec : judged 6 40 (SL [SA 4; SA 32; SA 134]) && oracle 6 40 (SL [SA 4; SA 32; SA
  134]) [EvBytes gold_num_0a86] = true.
Proof. vm_compute. reflexivity. Qed.
Example anchor_num_0a86_u64 : run_case Wrapping 3 (SL [SA 64; SA 134]) = [EvBytes gold_num_0a86].
Proof. vm_compute. reflexivity. Qed.
Example anchor_num_0a86_u64_spec : judged 8 3 (SL [SA 64; SA 134]) && oracle 8 3 (SL [SA 64; SA 134]) [EvBytes
  gold_num_0a86] = true.
Proof. vm_compute. reflexivity. Qed.
Example anchor_num_0a86_u64_term : run_case Wrapping 40 (SL [SA 4; SA 64; SA 134]) = [EvBytes gold_num_0a86].
Proof. vm_compute. reflexivity. Qed.
Example anchor_num_0a86_u64_term_spec : judged 6 40 (SL [SA 4; SA 64; SA 134]) && oracle 6 40 (SL [SA 4; SA 64; SA
  134]) [EvBytes gold_num_0a86] = true.
Proof. vm_compute. reflexivity. Qed.
Example anchor_num_0a86_usize : run_case Wrapping 3 (SL [SA 0; SA 134]) = [EvBytes gold_num_0a86].
Proof. vm_compute. reflexivity. Qed.
Example anchor_num_0a86_usize_spec : judged 8 3 (SL [SA 0; SA 134]) && oracle 8 3 (SL [SA 0; SA 134]) [EvBytes
  gold_num_0a86] = true.
Proof. vm_compute. reflexivity. Qed.
Example anchor_num_0a86_usize_term : run_case Wrapping 40 (SL [SA 4; SA 0; SA 134]) = [EvBytes gold_num_0a86].
Proof. vm_compute. reflexivity. Qed.
Example anchor_num_0a86_usize_term_spec : judged 6 40 (SL [SA 4; SA 0; SA 134]) && oracle 6 40 (SL [SA 4; SA 0; SA
  134]) [EvBytes gold_num_0a86] = true.
Proof. vm_compute. reflexivity. Qed.

(* ANCHOR test=aml.rs::test_numbers mode=exact *)
Definition gold_num_f00d : list N := [0x0b; 0x0d; 0xf0].
Example anchor_num_f00d_u16 : run_case Wrapping 3 (SL [SA 16; SA 0xF00D]) = [EvBytes gold_num_f00d].
Proof. vm_compute. reflexivity. Qed.
Example anchor_num_f00d_u16_spec : judged 8 3 (SL [SA 16; SA 0xF00D]) && oracle 8 3 (SL [SA 16; SA 0xF00D]) [EvBytes
  gold_num_f00d] = true.
Proof. vm_compute. reflexivity. Qed.
Example anchor_num_f00d_u16_term : run_case Wrapping 40 (SL [SA 4; SA 16; SA 0xF00D]) = [EvBytes gold_num_f00d].
Proof. vm_compute. reflexivity. Qed.
Example anchor_num_f00d_u16_term_spec : judged 6 40 (SL [SA 4; SA 16; SA 0xF00D]) && oracle 6 40 (SL [SA 4; SA 16; SA
  0xF00D]) [EvBytes gold_num_f00d] = true.
Proof. vm_compute. reflexivity. Qed.
Example anchor_num_f00d_u32 : run_case Wrapping 3 (SL [SA 32; SA 0xF00D]) = [EvBytes gold_num_f00d].
Proof. vm_compute. reflexivity. Qed.
Example anchor_num_f00d_u32_spec : judged 8 3 (SL [SA 32; SA 0xF00D]) && oracle 8 3 (SL [SA 32; SA 0xF00D]) [EvBytes
  gold_num_f00d] = true.
Proof. vm_compute. reflexivity. Qed.
Example anchor_num_f00d_u32_term : run_case Wrapping 40 (SL [SA 4; SA 32; SA 0xF00D]) = [EvBytes gold_num_f00d].
Proof. vm_compute. reflexivity. Qed.
Example anchor_num_f00d_u32_term_spec : judged 6 40 (SL [SA 4; SA 32; SA 0xF00D]) && oracle 6 40 (SL [SA 4; SA 32; SA
  0xF00D]) [EvBytes gold_num_f00d] = true.
Proof. vm_compute. reflexivity. Qed.
Example anchor_num_f00d_u64 : run_case Wrapping 3 (SL [SA 64; SA 0xF00D]) = [EvBytes gold_num_f00d].
Proof. vm_compute. reflexivity. Qed.
Example anchor_num_f00d_u64_spec : judged 8 3 (SL [SA 64; SA 0xF00D]) && oracle 8 3 (SL [SA 64; SA 0xF00D]) [EvBytes
  gold_num_f00d] = true.
Proof. vm_compute. reflexivity. Qed.
Example anchor_num_f00d_u64_term : run_case Wrapping 40 (SL [SA 4; SA 64; SA 0xF00D]) = [EvBytes gold_num_f00d].
Proof. vm_compute. reflexivity. Qed.
Example anchor_num_f00d_u64_term_spec : judged 6 40 (SL [SA 4; SA 64; SA 0xF00D]) && oracle 6 40 (SL [SA 4; SA 64; SA
  0xF00D]) [EvBytes gold_num_f00d] = true.
Proof. vm_compute. reflexivity. Qed.
Example anchor_num_f00d_usize : run_case Wrapping 3 (SL [SA 0; SA 0xF00D]) = [EvBytes gold_num_f00d].
Proof. vm_compute. reflexivity. Qed.
Example anchor_num_f00d_usize_spec : judged 8 3 (SL [SA 0; SA 0xF00D]) && oracle 8 3 (SL [SA 0; SA 0xF00D]) [EvBytes
  gold_num_f00d] = true.
Proof. vm_compute. reflexivity. Qed.
Example anchor_num_f00d_usize_term : run_case Wrapping 40 (SL [SA 4; SA 0; SA 0xF00D]) = [EvBytes gold_num_f00d].
Proof. vm_compute. reflexivity. Qed.
Example anchor_num_f00d_usize_term_spec : judged 6 40 (SL [SA 4; SA 0; SA 0xF00D]) && oracle 6 40 (SL [SA 4; SA 0; SA
  0xF00D]) [EvBytes gold_num_f00d] = true.
Proof. vm_compute. reflexivity. Qed.

(* ANCHOR test=aml.rs::test_numbers mode=exact *)
Definition gold_num_decaf : list N := [0x0c; 0xaf; 0xec; 0x0d; 0x00].
Example anchor_num_decaf_u32 : run_case Wrapping 3 (SL [SA 32; SA 0xDECAF]) = [EvBytes gold_num_decaf].
Proof. vm_compute. reflexivity. Qed.
Example anchor_num_decaf_u32_spec : judged 8 3 (SL [SA 32; SA 0xDECAF]) && oracle 8 3 (SL [SA 32; SA 0xDECAF])
  [EvBytes gold_num_decaf] = true.
Proof. vm_compute. reflexivity. Qed.
Example anchor_num_decaf_u32_term : run_case Wrapping 40 (SL [SA 4; SA 32; SA 0xDECAF]) = [EvBytes gold_num_decaf].
Proof. vm_compute. reflexivity. Qed.
Example anchor_num_decaf_u32_term_spec : judged 6 40 (SL [SA 4; SA 32; SA 0xDECAF]) && oracle 6 40 (SL [SA 4; SA 32;
  SA 0xDECAF]) [EvBytes gold_num_decaf] = true.
Proof. vm_compute. reflexivity. Qed.
Example anchor_num_decaf_u64 : run_case Wrapping 3 (SL [SA 64; SA 0xDECAF]) = [EvBytes gold_num_decaf].
Proof. vm_compute. reflexivity. Qed.
Example anchor_num_decaf_u64_spec : judged 8 3 (SL [SA 64; SA 0xDECAF]) && oracle 8 3 (SL [SA 64; SA 0xDECAF])
  [EvBytes gold_num_decaf] = true.
Proof. vm_compute. reflexivity. Qed.
Example anchor_num_decaf_u64_term : run_case Wrapping 40 (SL [SA 4; SA 64; SA 0xDECAF]) = [EvBytes gold_num_decaf].
Proof. vm_compute. reflexivity. Qed.
Example anchor_num_decaf_u64_term_spec : judged 6 40 (SL [SA 4; SA 64; SA 0xDECAF]) && oracle 6 40 (SL [SA 4; SA 64;
  SA 0xDECAF]) [EvBytes gold_num_decaf] = true.
Proof. vm_compute. reflexivity. Qed.
Example anchor_num_decaf_usize : run_case Wrapping 3 (SL [SA 0; SA 0xDECAF]) = [EvBytes gold_num_decaf].
Proof. vm_compute. reflexivity. Qed.
Example anchor_num_decaf_usize_spec : judged 8 3 (SL [SA 0; SA 0xDECAF]) && oracle 8 3 (SL [SA 0; SA 0xDECAF])
  [EvBytes gold_num_decaf] = true.
Proof. vm_compute. reflexivity. Qed.
Example anchor_num_decaf_usize_term : run_case Wrapping 40 (SL [SA 4; SA 0; SA 0xDECAF]) = [EvBytes gold_num_decaf].
Proof. vm_compute. reflexivity. Qed.
Example anchor_num_decaf_usize_term_spec : judged 6 40 (SL [SA 4; SA 0; SA 0xDECAF]) && oracle 6 40 (SL [SA 4; SA 0;
  SA 0xDECAF]) [EvBytes gold_num_decaf] = true.
Proof. vm_compute. reflexivity. Qed.

(* ANCHOR test=aml.rs::test_numbers mode=exact *)
Definition gold_num_decafc0ffee : list N := [0x0e; 0xee; 0xff; 0xc0; 0xaf; 0xec; 0x0d; 0x00; 0x00].
Example anchor_num_decafc0ffee_u64 : run_case Wrapping 3 (SL [SA 64; SA 0xDECAFC0FFEE]) = [EvBytes
  gold_num_decafc0ffee].
Proof. vm_compute. reflexivity. Qed.
Example anchor_num_decafc0ffee_u64_spec : judged 8 3 (SL [SA 64; SA 0xDECAFC0FFEE]) && oracle 8 3 (SL [SA 64; SA
  0xDECAFC0FFEE]) [EvBytes gold_num_decafc0ffee] = true.
Proof. vm_compute. reflexivity. Qed.
Example anchor_num_decafc0ffee_u64_term : run_case Wrapping 40 (SL [SA 4; SA 64; SA 0xDECAFC0FFEE]) = [EvBytes
  gold_num_decafc0ffee].
Proof. vm_compute. reflexivity. Qed.
Example anchor_num_decafc0ffee_u64_term_spec : judged 6 40 (SL [SA 4; SA 64; SA 0xDECAFC0FFEE]) && oracle 6 40 (SL [SA
  4; SA 64; SA 0xDECAFC0FFEE]) [EvBytes gold_num_decafc0ffee] = true.
Proof. vm_compute. reflexivity. Qed.
Example anchor_num_decafc0ffee_usize : run_case Wrapping 3 (SL [SA 0; SA 0xDECAFC0FFEE]) = [EvBytes
  gold_num_decafc0ffee].
Proof. vm_compute. reflexivity. Qed.
Example anchor_num_decafc0ffee_usize_spec : judged 8 3 (SL [SA 0; SA 0xDECAFC0FFEE]) && oracle 8 3 (SL [SA 0; SA
  0xDECAFC0FFEE]) [EvBytes gold_num_decafc0ffee] = true.
Proof. vm_compute. reflexivity. Qed.
Example anchor_num_decafc0ffee_usize_term : run_case Wrapping 40 (SL [SA 4; SA 0; SA 0xDECAFC0FFEE]) = [EvBytes
  gold_num_decafc0ffee].
Proof. vm_compute. reflexivity. Qed.
Example anchor_num_decafc0ffee_usize_term_spec : judged 6 40 (SL [SA 4; SA 0; SA 0xDECAFC0FFEE]) && oracle 6 40 (SL
  [SA 4; SA 0; SA 0xDECAFC0FFEE]) [EvBytes gold_num_decafc0ffee] = true.
Proof. vm_compute. reflexivity. Qed.

(* ---- test_pkg_length: component 2 = create_pkg_length(len, include_self) through the verification hook (C07: decodes to
   len + own size, lead-byte format, minimal).  The Rust literals are the expressions [63], [(1 << 6) | (66 & 0xf), 66 >> 4],
   [(2 << 6) | (4099 & 0xf) as u8, (4099 >> 4) as u8, (4099 >> 12) as u8]: written here as their values. *)

(* ANCHOR test=aml.rs::test_pkg_length mode=exact *)
Definition gold_pkglen_62 : list N := [63].
Example anchor_pkglen_62 : run_case Wrapping 2 (SL [SA 62; SA 1]) = [EvBytes gold_pkglen_62].
Proof. vm_compute. reflexivity. Qed.
Example anchor_pkglen_62_checked : run_case Checked 2 (SL [SA 62; SA 1]) = [EvBytes gold_pkglen_62].
Proof. vm_compute. reflexivity. Qed.
Example anchor_pkglen_62_spec : judged 7 2 (SL [SA 62; SA 1]) && oracle 7 2 (SL [SA 62; SA 1]) [EvBytes
  gold_pkglen_62] && oracle 18 2 (SL [SA 62; SA 1]) [EvBytes gold_pkglen_62] = true.
Proof. vm_compute. reflexivity. Qed.

(* ANCHOR test=aml.rs::test_pkg_length mode=exact *)
Definition gold_pkglen_64 : list N := [66; 4].
Example anchor_pkglen_64 : run_case Wrapping 2 (SL [SA 64; SA 1]) = [EvBytes gold_pkglen_64].
Proof. vm_compute. reflexivity. Qed.
Example anchor_pkglen_64_checked : run_case Checked 2 (SL [SA 64; SA 1]) = [EvBytes gold_pkglen_64].
Proof. vm_compute. reflexivity. Qed.
Example anchor_pkglen_64_spec : judged 7 2 (SL [SA 64; SA 1]) && oracle 7 2 (SL [SA 64; SA 1]) [EvBytes
  gold_pkglen_64] && oracle 18 2 (SL [SA 64; SA 1]) [EvBytes gold_pkglen_64] = true.
Proof. vm_compute. reflexivity. Qed.

(* ANCHOR test=aml.rs::test_pkg_length mode=exact *)
Definition gold_pkglen_4096 : list N := [131; 0; 1].
Example anchor_pkglen_4096 : run_case Wrapping 2 (SL [SA 4096; SA 1]) = [EvBytes gold_pkglen_4096].
Proof. vm_compute. reflexivity. Qed.
Example anchor_pkglen_4096_checked : run_case Checked 2 (SL [SA 4096; SA 1]) = [EvBytes gold_pkglen_4096].
Proof. vm_compute. reflexivity. Qed.
Example anchor_pkglen_4096_spec : judged 7 2 (SL [SA 4096; SA 1]) && oracle 7 2 (SL [SA 4096; SA 1]) [EvBytes
  gold_pkglen_4096] && oracle 18 2 (SL [SA 4096; SA 1]) [EvBytes gold_pkglen_4096] = true.
Proof. vm_compute. reflexivity. Qed.

(* Name (_SB_.PCI0._UID, 0x1234) *)
(* ANCHOR test=aml.rs::test_name mode=exact *)
Definition gold_name : list N := [0x08; 0x2F; 0x03; 0x5F; 0x53; 0x42; 0x5F; 0x50; 0x43; 0x49; 0x30; 0x5F; 0x55; 0x49;
  0x44; 0x0b; 0x34; 0x12].
(* case: (40 "_SB_.PCI0._UID" (4 16 4660)) *)
Definition case_name : sx := SL [SA 40; str "_SB_.PCI0._UID"; SL [SA 4; SA 16; SA 0x1234]].
Example anchor_name : run_case Wrapping 40 case_name = [EvBytes gold_name]. Proof. vm_compute. reflexivity. Qed.
Example anchor_name_checked : run_case Checked 40 case_name = [EvBytes gold_name]. Proof. vm_compute. reflexivity. Qed.
Example anchor_name_spec : judged 6 40 case_name && oracle 6 40 case_name [EvBytes gold_name] = true.
Proof. vm_compute. reflexivity. Qed.

(* "ACPI" as &str and as String (the test asserts the same literal twice) *)
(* ANCHOR test=aml.rs::test_string mode=exact *)
Definition gold_string : list N := [0x0d; 65; 67; 80; 73; 0].
(* case: (5 "ACPI") *)
Definition case_string_str : sx := SL [SA 5; str "ACPI"].
Example anchor_string_str : run_case Wrapping 40 case_string_str = [EvBytes gold_string]. Proof. vm_compute. reflexivity. Qed.
Example anchor_string_str_checked : run_case Checked 40 case_string_str = [EvBytes gold_string].
Proof. vm_compute. reflexivity. Qed.
Example anchor_string_str_spec : judged 6 40 case_string_str && oracle 6 40 case_string_str [EvBytes gold_string] =
  true.
Proof. vm_compute. reflexivity. Qed.
(* case: (6 "ACPI") *)
Definition case_string_owned : sx := SL [SA 6; str "ACPI"].
Example anchor_string_owned : run_case Wrapping 40 case_string_owned = [EvBytes gold_string].
Proof. vm_compute. reflexivity. Qed.
Example anchor_string_owned_checked : run_case Checked 40 case_string_owned = [EvBytes gold_string].
Proof. vm_compute. reflexivity. Qed.
Example anchor_string_owned_spec : judged 6 40 case_string_owned && oracle 6 40 case_string_owned [EvBytes
  gold_string] = true.
Proof. vm_compute. reflexivity. Qed.

(* Method (_STA, 0, NotSerialized) { Return (0x0F) } *)
(* ANCHOR test=aml.rs::test_method mode=exact *)
Definition gold_method : list N := [0x14; 0x09; 0x5F; 0x53; 0x54; 0x41; 0x00; 0xA4; 0x0A; 0x0F].
(* case: (44 "_STA" 0 0 ((30 2 (4 8 15)))) *)
Definition case_method : sx := SL [SA 44; str "_STA"; SA 0; SA 0; SL [SL [SA 30; SA 2; SL [SA 4; SA 8; SA 15]]]].
Example anchor_method : run_case Wrapping 40 case_method = [EvBytes gold_method]. Proof. vm_compute. reflexivity. Qed.
Example anchor_method_checked : run_case Checked 40 case_method = [EvBytes gold_method]. Proof. vm_compute. reflexivity. Qed.
Example anchor_method_spec : judged 6 40 case_method && oracle 6 40 case_method [EvBytes gold_method] = true.
Proof. vm_compute. reflexivity. Qed.
Example anchor_method_spec7 : judged 7 40 case_method && oracle 7 40 case_method [EvBytes gold_method] = true.
Proof. vm_compute. reflexivity. Qed.

(* Field (PRST, ByteAcc, NoLock, WriteAsZeros) { Offset (4), CPEN 1, CINS 1, CRMV 1, CEJ0 1, Offset (5), CCMD 8 }  --
  iasl *)
(* ANCHOR test=aml.rs::test_field mode=exact *)
Definition gold_field_byteacc : list N := [0x5B; 0x81; 0x23; 0x50; 0x52; 0x53; 0x54; 0x41; 0x00; 0x20; 0x43; 0x50;
  0x45; 0x4E; 0x01; 0x43; 0x49; 0x4E; 0x53; 0x01; 0x43; 0x52; 0x4D; 0x56; 0x01; 0x43; 0x45; 0x4A; 0x30; 0x01; 0x00;
  0x04; 0x43; 0x43; 0x4D; 0x44; 0x08].
(* case: (51 "PRST" 1 0 2 ((1 32) (0 "CPEN" 1) (0 "CINS" 1) (0 "CRMV" 1) (0 "CEJ0" 1) (1 4) (0 "CCMD" 8))) *)
Definition case_field_byteacc : sx := SL [SA 51; str "PRST"; SA 1; SA 0; SA 2; SL [SL [SA 1; SA 32]; SL [SA 0; str
  "CPEN"; SA 1]; SL [SA 0; str "CINS"; SA 1]; SL [SA 0; str "CRMV"; SA 1]; SL [SA 0; str "CEJ0"; SA 1]; SL [SA 1; SA
  4]; SL [SA 0; str "CCMD"; SA 8]]].
Example anchor_field_byteacc : run_case Wrapping 40 case_field_byteacc = [EvBytes gold_field_byteacc].
Proof. vm_compute. reflexivity. Qed.
Example anchor_field_byteacc_checked : run_case Checked 40 case_field_byteacc = [EvBytes gold_field_byteacc].
Proof. vm_compute. reflexivity. Qed.
Example anchor_field_byteacc_spec : judged 6 40 case_field_byteacc && oracle 6 40 case_field_byteacc [EvBytes
  gold_field_byteacc] = true.
Proof. vm_compute. reflexivity. Qed.
Example anchor_field_byteacc_spec7 : judged 7 40 case_field_byteacc && oracle 7 40 case_field_byteacc [EvBytes
  gold_field_byteacc] = true.
Proof. vm_compute. reflexivity. Qed.

(* Field (PRST, DWordAcc, Lock, Preserve) { CSEL 32, Offset (8), CDAT 32 }  -- iasl *)
(* ANCHOR test=aml.rs::test_field mode=exact *)
Definition gold_field_dwordacc : list N := [0x5B; 0x81; 0x12; 0x50; 0x52; 0x53; 0x54; 0x13; 0x43; 0x53; 0x45; 0x4C;
  0x20; 0x00; 0x20; 0x43; 0x44; 0x41; 0x54; 0x20].
(* case: (51 "PRST" 3 1 0 ((0 "CSEL" 32) (1 32) (0 "CDAT" 32))) *)
Definition case_field_dwordacc : sx := SL [SA 51; str "PRST"; SA 3; SA 1; SA 0; SL [SL [SA 0; str "CSEL"; SA 32]; SL
  [SA 1; SA 32]; SL [SA 0; str "CDAT"; SA 32]]].
Example anchor_field_dwordacc : run_case Wrapping 40 case_field_dwordacc = [EvBytes gold_field_dwordacc].
Proof. vm_compute. reflexivity. Qed.
Example anchor_field_dwordacc_checked : run_case Checked 40 case_field_dwordacc = [EvBytes gold_field_dwordacc].
Proof. vm_compute. reflexivity. Qed.
Example anchor_field_dwordacc_spec : judged 6 40 case_field_dwordacc && oracle 6 40 case_field_dwordacc [EvBytes
  gold_field_dwordacc] = true.
Proof. vm_compute. reflexivity. Qed.
Example anchor_field_dwordacc_spec7 : judged 7 40 case_field_dwordacc && oracle 7 40 case_field_dwordacc [EvBytes
  gold_field_dwordacc] = true.
Proof. vm_compute. reflexivity. Qed.

(* OperationRegion (PRST, SystemIO, 0x0CD8, 0x0C)  -- iasl *)
(* ANCHOR test=aml.rs::test_op_region mode=exact *)
Definition gold_op_region : list N := [0x5B; 0x80; 0x50; 0x52; 0x53; 0x54; 0x01; 0x0B; 0xD8; 0x0C; 0x0A; 0x0C].
(* case: (46 "PRST" 1 (4 0 3288) (4 0 12)) *)
Definition case_op_region : sx := SL [SA 46; str "PRST"; SA 1; SL [SA 4; SA 0; SA 0xCD8]; SL [SA 4; SA 0; SA 12]].
Example anchor_op_region : run_case Wrapping 40 case_op_region = [EvBytes gold_op_region]. Proof. vm_compute. reflexivity. Qed.
Example anchor_op_region_checked : run_case Checked 40 case_op_region = [EvBytes gold_op_region].
Proof. vm_compute. reflexivity. Qed.
Example anchor_op_region_spec : judged 6 40 case_op_region && oracle 6 40 case_op_region [EvBytes gold_op_region] =
  true.
Proof. vm_compute. reflexivity. Qed.

(* Method (TEST, 1) { If (Arg0 == Zero) { Return (One) } Return (Zero) }  -- iasl *)
(* ANCHOR test=aml.rs::test_arg_if mode=exact *)
Definition gold_arg_if : list N := [0x14; 0x0F; 0x54; 0x45; 0x53; 0x54; 0x01; 0xA0; 0x06; 0x93; 0x68; 0x00; 0xA4;
  0x01; 0xA4; 0x00].
(* case: (44 "TEST" 1 0 ((63 (31 0 (12 0) (1)) ((30 2 (2)))) (30 2 (1)))) *)
Definition case_arg_if : sx := SL [SA 44; str "TEST"; SA 1; SA 0; SL [SL [SA 63; SL [SA 31; SA 0; SL [SA 12; SA 0]; SL
  [SA 1]]; SL [SL [SA 30; SA 2; SL [SA 2]]]]; SL [SA 30; SA 2; SL [SA 1]]]].
Example anchor_arg_if : run_case Wrapping 40 case_arg_if = [EvBytes gold_arg_if]. Proof. vm_compute. reflexivity. Qed.
Example anchor_arg_if_checked : run_case Checked 40 case_arg_if = [EvBytes gold_arg_if]. Proof. vm_compute. reflexivity. Qed.
Example anchor_arg_if_spec : judged 6 40 case_arg_if && oracle 6 40 case_arg_if [EvBytes gold_arg_if] = true.
Proof. vm_compute. reflexivity. Qed.
Example anchor_arg_if_spec7 : judged 7 40 case_arg_if && oracle 7 40 case_arg_if [EvBytes gold_arg_if] = true.
Proof. vm_compute. reflexivity. Qed.

(* Method (TEST, 0) { Local0 = One; If (Local0 == Zero) { Return (One) } Return (Zero) }  -- iasl *)
(* ANCHOR test=aml.rs::test_local_if mode=exact *)
Definition gold_local_if : list N := [0x14; 0x12; 0x54; 0x45; 0x53; 0x54; 0x00; 0x70; 0x01; 0x60; 0xA0; 0x06; 0x93;
  0x60; 0x00; 0xA4; 0x01; 0xA4; 0x00].
(* case: (44 "TEST" 0 0 ((31 6 (13 0) (2)) (63 (31 0 (13 0) (1)) ((30 2 (2)))) (30 2 (1)))) *)
Definition case_local_if : sx := SL [SA 44; str "TEST"; SA 0; SA 0; SL [SL [SA 31; SA 6; SL [SA 13; SA 0]; SL [SA 2]];
  SL [SA 63; SL [SA 31; SA 0; SL [SA 13; SA 0]; SL [SA 1]]; SL [SL [SA 30; SA 2; SL [SA 2]]]]; SL [SA 30; SA 2; SL [SA
  1]]]].
Example anchor_local_if : run_case Wrapping 40 case_local_if = [EvBytes gold_local_if]. Proof. vm_compute. reflexivity. Qed.
Example anchor_local_if_checked : run_case Checked 40 case_local_if = [EvBytes gold_local_if].
Proof. vm_compute. reflexivity. Qed.
Example anchor_local_if_spec : judged 6 40 case_local_if && oracle 6 40 case_local_if [EvBytes gold_local_if] = true.
Proof. vm_compute. reflexivity. Qed.
Example anchor_local_if_spec7 : judged 7 40 case_local_if && oracle 7 40 case_local_if [EvBytes gold_local_if] = true.
Proof. vm_compute. reflexivity. Qed.
(* the If object alone: bytes 10..17 of the vector *)
(* case: (63 (31 0 (13 0) (1)) ((30 2 (2)))) *)
Definition case_local_if_if : sx := SL [SA 63; SL [SA 31; SA 0; SL [SA 13; SA 0]; SL [SA 1]]; SL [SL [SA 30; SA 2; SL
  [SA 2]]]].
Example anchor_local_if_if : run_case Wrapping 40 case_local_if_if = [EvBytes (slice 10 7 gold_local_if)].
Proof. vm_compute. reflexivity. Qed.
Example anchor_local_if_if_checked : run_case Checked 40 case_local_if_if = [EvBytes (slice 10 7 gold_local_if)].
Proof. vm_compute. reflexivity. Qed.
Example anchor_local_if_if_spec : judged 6 40 case_local_if_if && oracle 6 40 case_local_if_if [EvBytes (slice 10 7
  gold_local_if)] = true.
Proof. vm_compute. reflexivity. Qed.
Example anchor_local_if_if_spec7 : judged 7 40 case_local_if_if && oracle 7 40 case_local_if_if [EvBytes (slice 10 7
  gold_local_if)] = true.
Proof. vm_compute. reflexivity. Qed.

(* Device (_SB_.MHPC) { _HID PNP0A06; Mutex (MLCK, 0); Method (TEST) { Acquire (MLCK, 0xFFFF); Local0 = One; Release
  (MLCK) } }  -- iasl *)
(* ANCHOR test=aml.rs::test_mutex mode=exact *)
Definition gold_mutex : list N := [0x5B; 0x82; 0x33; 0x2E; 0x5F; 0x53; 0x42; 0x5F; 0x4D; 0x48; 0x50; 0x43; 0x08; 0x5F;
  0x48; 0x49; 0x44; 0x0C; 0x41; 0xD0; 0x0A; 0x06; 0x5B; 0x01; 0x4D; 0x4C; 0x43; 0x4B; 0x00; 0x14; 0x17; 0x54; 0x45;
  0x53; 0x54; 0x00; 0x5B; 0x23; 0x4D; 0x4C; 0x43; 0x4B; 0xFF; 0xFF; 0x70; 0x01; 0x60; 0x5B; 0x27; 0x4D; 0x4C; 0x43;
  0x4B].
(* case: (41 "_SB_.MHPC" ((40 "_HID" (9 "PNP0A06")) (47 "MLCK" 0) (44 "TEST" 0 0 ((48 "MLCK" 65535) (31 6 (13 0) (2))
  (49 "MLCK"))))) *)
Definition case_mutex : sx := SL [SA 41; str "_SB_.MHPC"; SL [SL [SA 40; str "_HID"; SL [SA 9; str "PNP0A06"]]; SL [SA
  47; str "MLCK"; SA 0]; SL [SA 44; str "TEST"; SA 0; SA 0; SL [SL [SA 48; str "MLCK"; SA 0xFFFF]; SL [SA 31; SA 6; SL
  [SA 13; SA 0]; SL [SA 2]]; SL [SA 49; str "MLCK"]]]]].
Example anchor_mutex : run_case Wrapping 40 case_mutex = [EvBytes gold_mutex]. Proof. vm_compute. reflexivity. Qed.
Example anchor_mutex_checked : run_case Checked 40 case_mutex = [EvBytes gold_mutex]. Proof. vm_compute. reflexivity. Qed.
Example anchor_mutex_spec : judged 6 40 case_mutex && oracle 6 40 case_mutex [EvBytes gold_mutex] = true.
Proof. vm_compute. reflexivity. Qed.
Example anchor_mutex_spec7 : judged 7 40 case_mutex && oracle 7 40 case_mutex [EvBytes gold_mutex] = true.
Proof. vm_compute. reflexivity. Qed.

(* Device (_SB.MHPC) { _HID PNP0A06; Method (TEST) { Notify (MHPC, One) } }  -- iasl *)
(* ANCHOR test=aml.rs::test_notify mode=exact *)
Definition gold_notify : list N := [0x5B; 0x82; 0x21; 0x2E; 0x5F; 0x53; 0x42; 0x5F; 0x4D; 0x48; 0x50; 0x43; 0x08;
  0x5F; 0x48; 0x49; 0x44; 0x0C; 0x41; 0xD0; 0x0A; 0x06; 0x14; 0x0C; 0x54; 0x45; 0x53; 0x54; 0x00; 0x86; 0x4D; 0x48;
  0x50; 0x43; 0x01].
(* case: (41 "_SB_.MHPC" ((40 "_HID" (9 "PNP0A06")) (44 "TEST" 0 0 ((31 7 (7 "MHPC") (2)))))) *)
Definition case_notify : sx := SL [SA 41; str "_SB_.MHPC"; SL [SL [SA 40; str "_HID"; SL [SA 9; str "PNP0A06"]]; SL
  [SA 44; str "TEST"; SA 0; SA 0; SL [SL [SA 31; SA 7; SL [SA 7; str "MHPC"]; SL [SA 2]]]]]].
Example anchor_notify : run_case Wrapping 40 case_notify = [EvBytes gold_notify]. Proof. vm_compute. reflexivity. Qed.
Example anchor_notify_checked : run_case Checked 40 case_notify = [EvBytes gold_notify]. Proof. vm_compute. reflexivity. Qed.
Example anchor_notify_spec : judged 6 40 case_notify && oracle 6 40 case_notify [EvBytes gold_notify] = true.
Proof. vm_compute. reflexivity. Qed.
Example anchor_notify_spec7 : judged 7 40 case_notify && oracle 7 40 case_notify [EvBytes gold_notify] = true.
Proof. vm_compute. reflexivity. Qed.

(* Device (_SB.MHPC) { _HID PNP0A06; Method (TEST) { Local0 = Zero; While (Local0 < 4) { Local0 += One } } }  -- iasl
  *)
(* ANCHOR test=aml.rs::test_while mode=exact *)
Definition gold_while : list N := [0x5B; 0x82; 0x28; 0x2E; 0x5F; 0x53; 0x42; 0x5F; 0x4D; 0x48; 0x50; 0x43; 0x08; 0x5F;
  0x48; 0x49; 0x44; 0x0C; 0x41; 0xD0; 0x0A; 0x06; 0x14; 0x13; 0x54; 0x45; 0x53; 0x54; 0x00; 0x70; 0x00; 0x60; 0xA2;
  0x09; 0x95; 0x60; 0x0A; 0x04; 0x72; 0x60; 0x01; 0x60].
(* case: (41 "_SB_.MHPC" ((40 "_HID" (9 "PNP0A06")) (44 "TEST" 0 0 ((31 6 (13 0) (1)) (65 (31 1 (13 0) (4 0 4)) ((32 0
  (13 0) (13 0) (2)))))))) *)
Definition case_while : sx := SL [SA 41; str "_SB_.MHPC"; SL [SL [SA 40; str "_HID"; SL [SA 9; str "PNP0A06"]]; SL [SA
  44; str "TEST"; SA 0; SA 0; SL [SL [SA 31; SA 6; SL [SA 13; SA 0]; SL [SA 1]]; SL [SA 65; SL [SA 31; SA 1; SL [SA
  13; SA 0]; SL [SA 4; SA 0; SA 4]]; SL [SL [SA 32; SA 0; SL [SA 13; SA 0]; SL [SA 13; SA 0]; SL [SA 2]]]]]]]].
Example anchor_while : run_case Wrapping 40 case_while = [EvBytes gold_while]. Proof. vm_compute. reflexivity. Qed.
Example anchor_while_checked : run_case Checked 40 case_while = [EvBytes gold_while]. Proof. vm_compute. reflexivity. Qed.
Example anchor_while_spec : judged 6 40 case_while && oracle 6 40 case_while [EvBytes gold_while] = true.
Proof. vm_compute. reflexivity. Qed.
Example anchor_while_spec7 : judged 7 40 case_while && oracle 7 40 case_while [EvBytes gold_while] = true.
Proof. vm_compute. reflexivity. Qed.
(* the While object alone: the last 10 bytes of the vector *)
(* case: (65 (31 1 (13 0) (4 0 4)) ((32 0 (13 0) (13 0) (2)))) *)
Definition case_while_loop : sx := SL [SA 65; SL [SA 31; SA 1; SL [SA 13; SA 0]; SL [SA 4; SA 0; SA 4]]; SL [SL [SA
  32; SA 0; SL [SA 13; SA 0]; SL [SA 13; SA 0]; SL [SA 2]]]].
Example anchor_while_loop : run_case Wrapping 40 case_while_loop = [EvBytes (skipn 32 gold_while)].
Proof. vm_compute. reflexivity. Qed.
Example anchor_while_loop_checked : run_case Checked 40 case_while_loop = [EvBytes (skipn 32 gold_while)].
Proof. vm_compute. reflexivity. Qed.
Example anchor_while_loop_spec : judged 6 40 case_while_loop && oracle 6 40 case_while_loop [EvBytes (skipn 32
  gold_while)] = true.
Proof. vm_compute. reflexivity. Qed.
Example anchor_while_loop_spec7 : judged 7 40 case_while_loop && oracle 7 40 case_while_loop [EvBytes (skipn 32
  gold_while)] = true.
Proof. vm_compute. reflexivity. Qed.

(* Method (TST1, 1) { TST2 (One, One) } Method (TST2, 2) { TST1 (One) }: two objects serialised into ONE vector  --
  iasl *)
(* ANCHOR test=aml.rs::test_method_call mode=exact *)
Definition gold_method_call : list N := [0x14; 0x0C; 0x54; 0x53; 0x54; 0x31; 0x01; 0x54; 0x53; 0x54; 0x32; 0x01; 0x01;
  0x14; 0x0B; 0x54; 0x53; 0x54; 0x32; 0x02; 0x54; 0x53; 0x54; 0x31; 0x01].
(* case: (44 "TST1" 1 0 ((50 "TST2" ((2) (2))))) *)
Definition case_method_call_1 : sx := SL [SA 44; str "TST1"; SA 1; SA 0; SL [SL [SA 50; str "TST2"; SL [SL [SA 2]; SL
  [SA 2]]]]].
(* case: (44 "TST2" 2 0 ((50 "TST1" ((2))))) *)
Definition case_method_call_2 : sx := SL [SA 44; str "TST2"; SA 2; SA 0; SL [SL [SA 50; str "TST1"; SL [SL [SA 2]]]]].
Example anchor_method_call : cat2 (run_case Wrapping 40 case_method_call_1) (run_case Wrapping 40 case_method_call_2)
  = gold_method_call.
Proof. vm_compute. reflexivity. Qed.
Example anchor_method_call_checked : cat2 (run_case Checked 40 case_method_call_1) (run_case Checked 40
  case_method_call_2) = gold_method_call.
Proof. vm_compute. reflexivity. Qed.
Example anchor_method_call_1 : run_case Wrapping 40 case_method_call_1 = [EvBytes (firstn 13 gold_method_call)].
Proof. vm_compute. reflexivity. Qed.
Example anchor_method_call_1_spec : judged 6 40 case_method_call_1 && oracle 6 40 case_method_call_1 [EvBytes (firstn
  13 gold_method_call)] = true.
Proof. vm_compute. reflexivity. Qed.
Example anchor_method_call_1_spec7 : judged 7 40 case_method_call_1 && oracle 7 40 case_method_call_1 [EvBytes (firstn
  13 gold_method_call)] = true.
Proof. vm_compute. reflexivity. Qed.
Example anchor_method_call_2 : run_case Wrapping 40 case_method_call_2 = [EvBytes (skipn 13 gold_method_call)].
Proof. vm_compute. reflexivity. Qed.
Example anchor_method_call_2_spec : judged 6 40 case_method_call_2 && oracle 6 40 case_method_call_2 [EvBytes (skipn
  13 gold_method_call)] = true.
Proof. vm_compute. reflexivity. Qed.
Example anchor_method_call_2_spec7 : judged 7 40 case_method_call_2 && oracle 7 40 case_method_call_2 [EvBytes (skipn
  13 gold_method_call)] = true.
Proof. vm_compute. reflexivity. Qed.

(* Name (_MAT, Buffer (0x08) { 00 08 00 00 01 00 00 00 })  -- iasl *)
(* ANCHOR test=aml.rs::test_buffer mode=exact *)
Definition gold_buffer : list N := [0x08; 0x5F; 0x4D; 0x41; 0x54; 0x11; 0x0B; 0x0A; 0x08; 0x00; 0x08; 0x00; 0x00;
  0x01; 0x00; 0x00; 0x00].
(* case: (40 "_MAT" (11 #0008000001000000)) *)
Definition case_buffer : sx := SL [SA 40; str "_MAT"; SL [SA 11; SL [SA 0x00; SA 0x08; SA 0x00; SA 0x00; SA 0x01; SA
  0x00; SA 0x00; SA 0x00]]].
Example anchor_buffer : run_case Wrapping 40 case_buffer = [EvBytes gold_buffer]. Proof. vm_compute. reflexivity. Qed.
Example anchor_buffer_checked : run_case Checked 40 case_buffer = [EvBytes gold_buffer]. Proof. vm_compute. reflexivity. Qed.
Example anchor_buffer_spec : judged 6 40 case_buffer && oracle 6 40 case_buffer [EvBytes gold_buffer] = true.
Proof. vm_compute. reflexivity. Qed.

(* Method (MCRS, 0, Serialized) { Name (MR64, ResourceTemplate { QWordMemory 0..0xFFFFFFFFFFFFFFFE }); CreateField
  (MR64, 14, 64, MIN_); (.., 22, 64, MAX_); (.., 38, 64, LEN_) } *)
(* ANCHOR test=aml.rs::test_create_field mode=exact *)
Definition gold_create_field : list N := [0x14; 0x4a; 0x06; 0x4d; 0x43; 0x52; 0x53; 0x08; 0x08; 0x4d; 0x52; 0x36;
  0x34; 0x11; 0x33; 0x0a; 0x30; 0x8a; 0x2b; 0x00; 0x00; 0x0c; 0x03; 0x00; 0x00; 0x00; 0x00; 0x00; 0x00; 0x00; 0x00;
  0x00; 0x00; 0x00; 0x00; 0x00; 0x00; 0x00; 0x00; 0xfe; 0xff; 0xff; 0xff; 0xff; 0xff; 0xff; 0xff; 0x00; 0x00; 0x00;
  0x00; 0x00; 0x00; 0x00; 0x00; 0xff; 0xff; 0xff; 0xff; 0xff; 0xff; 0xff; 0xff; 0x79; 0x00; 0x5b; 0x13; 0x4d; 0x52;
  0x36; 0x34; 0x0a; 0x0e; 0x0a; 0x40; 0x4d; 0x49; 0x4e; 0x5f; 0x5b; 0x13; 0x4d; 0x52; 0x36; 0x34; 0x0a; 0x16; 0x0a;
  0x40; 0x4d; 0x41; 0x58; 0x5f; 0x5b; 0x13; 0x4d; 0x52; 0x36; 0x34; 0x0a; 0x26; 0x0a; 0x40; 0x4c; 0x45; 0x4e; 0x5f].
(* case: (44 "MCRS" 0 1 ((40 "MR64" (62 ((21 64 0 1 1 0 18446744073709551614 ())))) (33 0 (7 "MIN_") (7 "MR64") (4 64
  14) (4 0 64)) (33 0 (7 "MAX_") (7 "MR64") (4 64 22) (4 0 64)) (33 0 (7 "LEN_") (7 "MR64") (4 64 38) (4 0 64)))) *)
Definition case_create_field : sx := SL [SA 44; str "MCRS"; SA 0; SA 1; SL [SL [SA 40; str "MR64"; SL [SA 62; SL [SL
  [SA 21; SA 64; SA 0; SA 1; SA 1; SA 0; SA 0xFFFFFFFFFFFFFFFE; SL []]]]]; SL [SA 33; SA 0; SL [SA 7; str "MIN_"]; SL
  [SA 7; str "MR64"]; SL [SA 4; SA 64; SA 14]; SL [SA 4; SA 0; SA 64]]; SL [SA 33; SA 0; SL [SA 7; str "MAX_"]; SL [SA
  7; str "MR64"]; SL [SA 4; SA 64; SA 22]; SL [SA 4; SA 0; SA 64]]; SL [SA 33; SA 0; SL [SA 7; str "LEN_"]; SL [SA 7;
  str "MR64"]; SL [SA 4; SA 64; SA 38]; SL [SA 4; SA 0; SA 64]]]].
Example anchor_create_field : run_case Wrapping 40 case_create_field = [EvBytes gold_create_field].
Proof. vm_compute. reflexivity. Qed.
Example anchor_create_field_checked : run_case Checked 40 case_create_field = [EvBytes gold_create_field].
Proof. vm_compute. reflexivity. Qed.
Example anchor_create_field_spec : judged 6 40 case_create_field && oracle 6 40 case_create_field [EvBytes
  gold_create_field] = true.
Proof. vm_compute. reflexivity. Qed.
Example anchor_create_field_spec7 : judged 7 40 case_create_field && oracle 7 40 case_create_field [EvBytes
  gold_create_field] = true.
Proof. vm_compute. reflexivity. Qed.
(* the QWordMemory descriptor alone (range size 2^64 - 1, the largest representable): bytes 17..63 of the vector *)
(* case: (21 64 0 1 1 0 18446744073709551614 ()) *)
Definition case_create_field_qword : sx := SL [SA 21; SA 64; SA 0; SA 1; SA 1; SA 0; SA 0xFFFFFFFFFFFFFFFE; SL []].
Example anchor_create_field_qword : run_case Wrapping 40 case_create_field_qword = [EvBytes (slice 17 46
  gold_create_field)].
Proof. vm_compute. reflexivity. Qed.
Example anchor_create_field_qword_checked : run_case Checked 40 case_create_field_qword = [EvBytes (slice 17 46
  gold_create_field)].
Proof. vm_compute. reflexivity. Qed.
Example anchor_create_field_qword_spec : judged 10 40 case_create_field_qword && oracle 10 40 case_create_field_qword
  [EvBytes (slice 17 46 gold_create_field)] = true.
Proof. vm_compute. reflexivity. Qed.
(* one CreateField alone: bytes 65..79 *)
(* case: (33 0 (7 "MIN_") (7 "MR64") (4 64 14) (4 0 64)) *)
Definition case_create_field_min : sx := SL [SA 33; SA 0; SL [SA 7; str "MIN_"]; SL [SA 7; str "MR64"]; SL [SA 4; SA
  64; SA 14]; SL [SA 4; SA 0; SA 64]].
Example anchor_create_field_min : run_case Wrapping 40 case_create_field_min = [EvBytes (slice 65 14
  gold_create_field)].
Proof. vm_compute. reflexivity. Qed.
Example anchor_create_field_min_checked : run_case Checked 40 case_create_field_min = [EvBytes (slice 65 14
  gold_create_field)].
Proof. vm_compute. reflexivity. Qed.
Example anchor_create_field_min_spec : judged 6 40 case_create_field_min && oracle 6 40 case_create_field_min [EvBytes
  (slice 65 14 gold_create_field)] = true.
Proof. vm_compute. reflexivity. Qed.

(* Package::new(vec![&5u8]) and PackageBuilder::new() + add_element(&5u8): the test asserts the same vector for both
  *)
(* ANCHOR test=aml.rs::test_packagebuilder mode=exact *)
Definition gold_packagebuilder : list N := [0x12; 0x04; 0x01; 0x0A; 0x05].
(* case: (60 ((4 8 5))) *)
Definition case_pb_package : sx := SL [SA 60; SL [SL [SA 4; SA 8; SA 5]]].
Example anchor_pb_package : run_case Wrapping 40 case_pb_package = [EvBytes gold_packagebuilder].
Proof. vm_compute. reflexivity. Qed.
Example anchor_pb_package_checked : run_case Checked 40 case_pb_package = [EvBytes gold_packagebuilder].
Proof. vm_compute. reflexivity. Qed.
Example anchor_pb_package_spec : judged 6 40 case_pb_package && oracle 6 40 case_pb_package [EvBytes
  gold_packagebuilder] = true.
Proof. vm_compute. reflexivity. Qed.
Example anchor_pb_package_spec7 : judged 7 40 case_pb_package && oracle 7 40 case_pb_package [EvBytes
  gold_packagebuilder] = true.
Proof. vm_compute. reflexivity. Qed.
(* the harness builds an odd number of elements on PackageBuilder::default(), which is PackageBuilder::new() (impl Default) *)
(* case: (61 ((4 8 5))) *)
Definition case_pb_builder : sx := SL [SA 61; SL [SL [SA 4; SA 8; SA 5]]].
Example anchor_pb_builder : run_case Wrapping 40 case_pb_builder = [EvBytes gold_packagebuilder].
Proof. vm_compute. reflexivity. Qed.
Example anchor_pb_builder_checked : run_case Checked 40 case_pb_builder = [EvBytes gold_packagebuilder].
Proof. vm_compute. reflexivity. Qed.
Example anchor_pb_builder_spec : judged 6 40 case_pb_builder && oracle 6 40 case_pb_builder [EvBytes
  gold_packagebuilder] = true.
Proof. vm_compute. reflexivity. Qed.
Example anchor_pb_builder_spec7 : judged 7 40 case_pb_builder && oracle 7 40 case_pb_builder [EvBytes
  gold_packagebuilder] = true.
Proof. vm_compute. reflexivity. Qed.
(* component 41 = both constructions in one case (C15: the two paths agree) *)
Example anchor_pb_pair : run_case Wrapping 41 (SL [case_pb_package; case_pb_builder]) = [EvBytes gold_packagebuilder;
  EvBytes gold_packagebuilder].
Proof. vm_compute. reflexivity. Qed.
Example anchor_pb_pair_spec : judged 15 41 (SL [case_pb_package; case_pb_builder]) && oracle 15 41 (SL
  [case_pb_package; case_pb_builder]) [EvBytes gold_packagebuilder; EvBytes gold_packagebuilder] = true.
Proof. vm_compute. reflexivity. Qed.

(* a _PRT-style Package of eight Packages { 0xFFFF|0x1FFFF, pin, _SB_.GSIn, 0 } (all integers carried by u32), by
  Package::new and by PackageBuilder *)
(* ANCHOR test=aml.rs::test_packagebuilder_multiple mode=exact *)
Definition gold_packagebuilder_multiple : list N := [0x12; 0x47; 0x9; 0x8; 0x12; 0x10; 0x4; 0xb; 0xff; 0xff; 0x0;
  0x2e; 0x5f; 0x53; 0x42; 0x5f; 0x47; 0x53; 0x49; 0x30; 0x0; 0x12; 0x10; 0x4; 0xb; 0xff; 0xff; 0x1; 0x2e; 0x5f; 0x53;
  0x42; 0x5f; 0x47; 0x53; 0x49; 0x31; 0x0; 0x12; 0x11; 0x4; 0xb; 0xff; 0xff; 0xa; 0x2; 0x2e; 0x5f; 0x53; 0x42; 0x5f;
  0x47; 0x53; 0x49; 0x32; 0x0; 0x12; 0x11; 0x4; 0xb; 0xff; 0xff; 0xa; 0x3; 0x2e; 0x5f; 0x53; 0x42; 0x5f; 0x47; 0x53;
  0x49; 0x33; 0x0; 0x12; 0x12; 0x4; 0xc; 0xff; 0xff; 0x1; 0x0; 0x0; 0x2e; 0x5f; 0x53; 0x42; 0x5f; 0x47; 0x53; 0x49;
  0x31; 0x0; 0x12; 0x12; 0x4; 0xc; 0xff; 0xff; 0x1; 0x0; 0x1; 0x2e; 0x5f; 0x53; 0x42; 0x5f; 0x47; 0x53; 0x49; 0x32;
  0x0; 0x12; 0x13; 0x4; 0xc; 0xff; 0xff; 0x1; 0x0; 0xa; 0x2; 0x2e; 0x5f; 0x53; 0x42; 0x5f; 0x47; 0x53; 0x49; 0x33;
  0x0; 0x12; 0x13; 0x4; 0xc; 0xff; 0xff; 0x1; 0x0; 0xa; 0x3; 0x2e; 0x5f; 0x53; 0x42; 0x5f; 0x47; 0x53; 0x49; 0x30;
  0x0].
(* case: (60 ((60 ((4 32 65535) (4 32 0) (7 "_SB_.GSI0") (4 32 0))) (60 ((4 32 65535) (4 32 1) (7 "_SB_.GSI1") (4 32
  0))) (60 ((4 32 65535) (4 32 2) (7 "_SB_.GSI2") (4 32 0))) (60 ((4 32 65535) (4 32 3) (7 "_SB_.GSI3") (4 32 0))) (60
  ((4 32 131071) (4 32 0) (7 "_SB_.GSI1") (4 32 0))) (60 ((4 32 131071) (4 32 1) (7 "_SB_.GSI2") (4 32 0))) (60 ((4 32
  131071) (4 32 2) (7 "_SB_.GSI3") (4 32 0))) (60 ((4 32 131071) (4 32 3) (7 "_SB_.GSI0") (4 32 0))))) *)
Definition case_pbm_package : sx := SL [SA 60; SL [SL [SA 60; SL [SL [SA 4; SA 32; SA 0xFFFF]; SL [SA 4; SA 32; SA 0];
  SL [SA 7; str "_SB_.GSI0"]; SL [SA 4; SA 32; SA 0]]]; SL [SA 60; SL [SL [SA 4; SA 32; SA 0xFFFF]; SL [SA 4; SA 32;
  SA 1]; SL [SA 7; str "_SB_.GSI1"]; SL [SA 4; SA 32; SA 0]]]; SL [SA 60; SL [SL [SA 4; SA 32; SA 0xFFFF]; SL [SA 4;
  SA 32; SA 2]; SL [SA 7; str "_SB_.GSI2"]; SL [SA 4; SA 32; SA 0]]]; SL [SA 60; SL [SL [SA 4; SA 32; SA 0xFFFF]; SL
  [SA 4; SA 32; SA 3]; SL [SA 7; str "_SB_.GSI3"]; SL [SA 4; SA 32; SA 0]]]; SL [SA 60; SL [SL [SA 4; SA 32; SA
  0x1FFFF]; SL [SA 4; SA 32; SA 0]; SL [SA 7; str "_SB_.GSI1"]; SL [SA 4; SA 32; SA 0]]]; SL [SA 60; SL [SL [SA 4; SA
  32; SA 0x1FFFF]; SL [SA 4; SA 32; SA 1]; SL [SA 7; str "_SB_.GSI2"]; SL [SA 4; SA 32; SA 0]]]; SL [SA 60; SL [SL [SA
  4; SA 32; SA 0x1FFFF]; SL [SA 4; SA 32; SA 2]; SL [SA 7; str "_SB_.GSI3"]; SL [SA 4; SA 32; SA 0]]]; SL [SA 60; SL
  [SL [SA 4; SA 32; SA 0x1FFFF]; SL [SA 4; SA 32; SA 3]; SL [SA 7; str "_SB_.GSI0"]; SL [SA 4; SA 32; SA 0]]]]].
Example anchor_pbm_package : run_case Wrapping 40 case_pbm_package = [EvBytes gold_packagebuilder_multiple].
Proof. vm_compute. reflexivity. Qed.
Example anchor_pbm_package_checked : run_case Checked 40 case_pbm_package = [EvBytes gold_packagebuilder_multiple].
Proof. vm_compute. reflexivity. Qed.
Example anchor_pbm_package_spec : judged 6 40 case_pbm_package && oracle 6 40 case_pbm_package [EvBytes
  gold_packagebuilder_multiple] = true.
Proof. vm_compute. reflexivity. Qed.
Example anchor_pbm_package_spec7 : judged 7 40 case_pbm_package && oracle 7 40 case_pbm_package [EvBytes
  gold_packagebuilder_multiple] = true.
Proof. vm_compute. reflexivity. Qed.
(* case: (61 ((60 ((4 32 65535) (4 32 0) (7 "_SB_.GSI0") (4 32 0))) (60 ((4 32 65535) (4 32 1) (7 "_SB_.GSI1") (4 32
  0))) (60 ((4 32 65535) (4 32 2) (7 "_SB_.GSI2") (4 32 0))) (60 ((4 32 65535) (4 32 3) (7 "_SB_.GSI3") (4 32 0))) (60
  ((4 32 131071) (4 32 0) (7 "_SB_.GSI1") (4 32 0))) (60 ((4 32 131071) (4 32 1) (7 "_SB_.GSI2") (4 32 0))) (60 ((4 32
  131071) (4 32 2) (7 "_SB_.GSI3") (4 32 0))) (60 ((4 32 131071) (4 32 3) (7 "_SB_.GSI0") (4 32 0))))) *)
Definition case_pbm_builder : sx := SL [SA 61; SL [SL [SA 60; SL [SL [SA 4; SA 32; SA 0xFFFF]; SL [SA 4; SA 32; SA 0];
  SL [SA 7; str "_SB_.GSI0"]; SL [SA 4; SA 32; SA 0]]]; SL [SA 60; SL [SL [SA 4; SA 32; SA 0xFFFF]; SL [SA 4; SA 32;
  SA 1]; SL [SA 7; str "_SB_.GSI1"]; SL [SA 4; SA 32; SA 0]]]; SL [SA 60; SL [SL [SA 4; SA 32; SA 0xFFFF]; SL [SA 4;
  SA 32; SA 2]; SL [SA 7; str "_SB_.GSI2"]; SL [SA 4; SA 32; SA 0]]]; SL [SA 60; SL [SL [SA 4; SA 32; SA 0xFFFF]; SL
  [SA 4; SA 32; SA 3]; SL [SA 7; str "_SB_.GSI3"]; SL [SA 4; SA 32; SA 0]]]; SL [SA 60; SL [SL [SA 4; SA 32; SA
  0x1FFFF]; SL [SA 4; SA 32; SA 0]; SL [SA 7; str "_SB_.GSI1"]; SL [SA 4; SA 32; SA 0]]]; SL [SA 60; SL [SL [SA 4; SA
  32; SA 0x1FFFF]; SL [SA 4; SA 32; SA 1]; SL [SA 7; str "_SB_.GSI2"]; SL [SA 4; SA 32; SA 0]]]; SL [SA 60; SL [SL [SA
  4; SA 32; SA 0x1FFFF]; SL [SA 4; SA 32; SA 2]; SL [SA 7; str "_SB_.GSI3"]; SL [SA 4; SA 32; SA 0]]]; SL [SA 60; SL
  [SL [SA 4; SA 32; SA 0x1FFFF]; SL [SA 4; SA 32; SA 3]; SL [SA 7; str "_SB_.GSI0"]; SL [SA 4; SA 32; SA 0]]]]].
Example anchor_pbm_builder : run_case Wrapping 40 case_pbm_builder = [EvBytes gold_packagebuilder_multiple].
Proof. vm_compute. reflexivity. Qed.
Example anchor_pbm_builder_checked : run_case Checked 40 case_pbm_builder = [EvBytes gold_packagebuilder_multiple].
Proof. vm_compute. reflexivity. Qed.
Example anchor_pbm_builder_spec : judged 6 40 case_pbm_builder && oracle 6 40 case_pbm_builder [EvBytes
  gold_packagebuilder_multiple] = true.
Proof. vm_compute. reflexivity. Qed.
Example anchor_pbm_builder_spec7 : judged 7 40 case_pbm_builder && oracle 7 40 case_pbm_builder [EvBytes
  gold_packagebuilder_multiple] = true.
Proof. vm_compute. reflexivity. Qed.
Example anchor_pbm_pair : run_case Wrapping 41 (SL [case_pbm_package; case_pbm_builder]) = [EvBytes
  gold_packagebuilder_multiple; EvBytes gold_packagebuilder_multiple].
Proof. vm_compute. reflexivity. Qed.
Example anchor_pbm_pair_spec : judged 15 41 (SL [case_pbm_package; case_pbm_builder]) && oracle 15 41 (SL
  [case_pbm_package; case_pbm_builder]) [EvBytes gold_packagebuilder_multiple; EvBytes gold_packagebuilder_multiple] =
  true.
Proof. vm_compute. reflexivity. Qed.

(* ====================================================================================================
   src/aml.rs: test_scope_raw -- MODEL-LEVEL ONLY (see "not expressible" at the end)
   ==================================================================================================== *)

(* Scope::raw("_SB_.MBRD".into(), vec![0xAA, 0xBB, 0xCC, 0xDD]).  The children are pre-serialised bytes that no crate
  object serialises to; the Impl term language carries raw child bytes as TFieldName (enc (TFieldName s) = s), which
  is what (8 bytes) decodes to.  The harness cannot replay this case (Name::new_field_name takes a &str and AA BB CC
  DD is not UTF-8) and the Spec does not judge it (not a name segment), so only the Impl model of Scope::raw is
  anchored here. *)
(* ANCHOR test=aml.rs::test_scope_raw mode=exact *)
Definition gold_scope_raw : list N := [0x10; 0x0E; 0x2E; 0x5F; 0x53; 0x42; 0x5F; 0x4D; 0x42; 0x52; 0x44; 0xAA; 0xBB;
  0xCC; 0xDD].
(* case: (43 "_SB_.MBRD" ((8 #aabbccdd))) *)
Definition case_scope_raw : sx := SL [SA 43; str "_SB_.MBRD"; SL [SL [SA 8; SL [SA 0xAA; SA 0xBB; SA 0xCC; SA
  0xDD]]]].
Example anchor_scope_raw : run_case Wrapping 40 case_scope_raw = [EvBytes gold_scope_raw]. Proof. vm_compute. reflexivity. Qed.
Example anchor_scope_raw_checked : run_case Checked 40 case_scope_raw = [EvBytes gold_scope_raw].
Proof. vm_compute. reflexivity. Qed.
Example anchor_scope_raw_enc : enc Wrapping (TScopeRaw (map N_of_ascii (list_ascii_of_string "_SB_.MBRD")) [TFieldName
  [0xAA; 0xBB; 0xCC; 0xDD]]) = Some gold_scope_raw.
Proof. vm_compute. reflexivity. Qed.

(* ====================================================================================================
   src/rimt.rs (component 18 = RIMT table history; the case ends with the observation marker SA 1)
   ==================================================================================================== *)

(* RIMT::new( *b"FOOBAR", *b"CAFEDEAD", 0xdead_beef) *)
Definition rimt_ctor : sx := SL [str "FOOBAR"; str "CAFEDEAD"; SA 0xDEADBEEF].
(* interrupt_wires(): InterruptWire::new(1, true, false, 1), (2, false, true, 2), (3, true, true, 3), (4, false, false, 4) *)
Definition rimt_wires4 : sx :=
  SL [SL [SL [SA 1; SA 1; SA 0; SA 1]; SL [SA 2; SA 0; SA 1; SA 2]; SL [SA 3; SA 1; SA 1; SA 3]; SL [SA 4; SA 0; SA 0; SA 4]]].
(* id_mappings(h): IdMapping::new(1, 2, 10, h, true, true, false), IdMapping::new(2, 3, 5, h, false, false, true); h = the handle
   returned by the first real op *)
Definition rimt_maps2 : sx :=
  SL [SL [SL [SA 1; SA 2; SA 10; SL [SA 104; SA 0]; SA 1; SA 1; SA 0]; SL [SA 2; SA 3; SA 5; SL [SA 104; SA 0]; SA 0; SA 0; SA 1]]].
(* all table-level oracles at once: C01 checksum, C02 length, C03 walk + counts, C04 reference image, C05 handles *)
Definition rimt_spec_ok (c : sx) (evs : list ev) : bool :=
  judged 4 18 c && forallb (fun p => oracle p 18 c evs) [1; 2; 3; 4; 5].

(* RIMT::new(..) serialised at once *)
(* ANCHOR test=rimt.rs::test_rimt mode=exact *)
Definition gold_rimt_empty : list N := [82; 73; 77; 84; 48; 0; 0; 0; 1; 23; 70; 79; 79; 66; 65; 82; 67; 65; 70; 69;
  68; 69; 65; 68; 239; 190; 173; 222; 82; 86; 65; 84; 0; 0; 0; 1; 0; 0; 0; 0; 48; 0; 0; 0; 0; 0; 0; 0].
Definition case_rimt_empty : sx := SL [rimt_ctor; SA 1].
Example anchor_rimt_empty : run_case Wrapping 18 case_rimt_empty = [EvBytes gold_rimt_empty].
Proof. vm_compute. reflexivity. Qed.
Example anchor_rimt_empty_checked : run_case Checked 18 case_rimt_empty = [EvBytes gold_rimt_empty].
Proof. vm_compute. reflexivity. Qed.
Example anchor_rimt_empty_spec : rimt_spec_ok case_rimt_empty [EvBytes gold_rimt_empty] = true.
Proof. vm_compute. reflexivity. Qed.

(* add_iommu(Iommu::new(1, None, Some(PciDevice::new(5, 6, 7, 7)), Some(15), Some(interrupt_wires()))) -> h;
  add_pcie_root_complex(PcieRootComplex::new(1, 1, true, true, Some(id_mappings(h)))) *)
(* ANCHOR test=rimt.rs::test_rimt_pci mode=exact *)
Definition gold_rimt_pci : list N := [82; 73; 77; 84; 168; 0; 0; 0; 1; 242; 70; 79; 79; 66; 65; 82; 67; 65; 70; 69;
  68; 69; 65; 68; 239; 190; 173; 222; 82; 86; 65; 84; 0; 0; 0; 1; 2; 0; 0; 0; 48; 0; 0; 0; 0; 0; 0; 0; 0; 1; 64; 0; 1;
  0; 0; 0; 0; 0; 0; 0; 0; 0; 0; 0; 3; 0; 0; 0; 5; 0; 63; 6; 15; 0; 0; 0; 4; 0; 32; 0; 1; 0; 0; 0; 1; 0; 1; 0; 2; 0; 0;
  0; 2; 0; 2; 0; 3; 0; 0; 0; 3; 0; 3; 0; 4; 0; 0; 0; 0; 0; 4; 0; 1; 1; 56; 0; 1; 0; 1; 0; 3; 0; 0; 0; 16; 0; 2; 0; 1;
  0; 0; 0; 2; 0; 0; 0; 10; 0; 0; 0; 48; 0; 0; 0; 3; 0; 0; 0; 2; 0; 0; 0; 3; 0; 0; 0; 5; 0; 0; 0; 48; 0; 0; 0; 4; 0; 0;
  0].
Definition case_rimt_pci : sx :=
  SL [rimt_ctor;
      SL [SA 1; SA 1; SL []; SL [SL [SA 5; SA 6; SA 7; SA 7]]; SL [SA 15]; rimt_wires4];
      SL [SA 2; SA 1; SA 1; SA 1; SA 1; rimt_maps2];
      SA 1].
(* events: the IommuOffset returned by add_iommu (48 = first device), 0 for add_pcie_root_complex, then the image *)
Example anchor_rimt_pci : run_case Wrapping 18 case_rimt_pci = [EvNum 48; EvNum 0; EvBytes gold_rimt_pci].
Proof. vm_compute. reflexivity. Qed.
Example anchor_rimt_pci_checked : run_case Checked 18 case_rimt_pci = [EvNum 48; EvNum 0; EvBytes gold_rimt_pci].
Proof. vm_compute. reflexivity. Qed.
Example anchor_rimt_pci_spec : rimt_spec_ok case_rimt_pci [EvNum 48; EvNum 0; EvBytes gold_rimt_pci] = true.
Proof. vm_compute. reflexivity. Qed.

(* add_iommu(Iommu::new(1, Some(0x1000), None, Some(15), Some(interrupt_wires()))) -> h; add_platform(Platform::new(1,
  "FULL.PATH.TO.DEVICE", Some(id_mappings(h)))) *)
(* ANCHOR test=rimt.rs::test_rimt_platform mode=exact *)
Definition gold_rimt_platform : list N := [82; 73; 77; 84; 184; 0; 0; 0; 1; 195; 70; 79; 79; 66; 65; 82; 67; 65; 70;
  69; 68; 69; 65; 68; 239; 190; 173; 222; 82; 86; 65; 84; 0; 0; 0; 1; 2; 0; 0; 0; 48; 0; 0; 0; 0; 0; 0; 0; 0; 1; 64;
  0; 1; 0; 0; 0; 0; 16; 0; 0; 0; 0; 0; 0; 2; 0; 0; 0; 0; 0; 0; 0; 15; 0; 0; 0; 4; 0; 32; 0; 1; 0; 0; 0; 1; 0; 1; 0; 2;
  0; 0; 0; 2; 0; 2; 0; 3; 0; 0; 0; 3; 0; 3; 0; 4; 0; 0; 0; 0; 0; 4; 0; 2; 1; 72; 0; 1; 0; 0; 0; 32; 0; 2; 0; 70; 85;
  76; 76; 46; 80; 65; 84; 72; 46; 84; 79; 46; 68; 69; 86; 73; 67; 69; 0; 1; 0; 0; 0; 2; 0; 0; 0; 10; 0; 0; 0; 48; 0;
  0; 0; 3; 0; 0; 0; 2; 0; 0; 0; 3; 0; 0; 0; 5; 0; 0; 0; 48; 0; 0; 0; 4; 0; 0; 0].
Definition case_rimt_platform : sx :=
  SL [rimt_ctor;
      SL [SA 1; SA 1; SL [SA 0x1000]; SL []; SL [SA 15]; rimt_wires4];
      SL [SA 3; SA 1; str "FULL.PATH.TO.DEVICE"; rimt_maps2];
      SA 1].
Example anchor_rimt_platform : run_case Wrapping 18 case_rimt_platform = [EvNum 48; EvNum 0; EvBytes
  gold_rimt_platform].
Proof. vm_compute. reflexivity. Qed.
Example anchor_rimt_platform_checked : run_case Checked 18 case_rimt_platform = [EvNum 48; EvNum 0; EvBytes
  gold_rimt_platform].
Proof. vm_compute. reflexivity. Qed.
Example anchor_rimt_platform_spec : rimt_spec_ok case_rimt_platform [EvNum 48; EvNum 0; EvBytes gold_rimt_platform] =
  true.
Proof. vm_compute. reflexivity. Qed.

(* ---- stand-alone structures (test_interrupt_wire, test_iommu, test_id_mapping, test_pcie_root_complex, test_platform).
   The component-18 vocabulary only adds structures to a table, so each structure is anchored EMBEDDED: it is added to an
   otherwise minimal table and the golden vector must be the slice of the observed image at the structure's offset (header 48,
   a bare IOMMU 32).  The tests build their IdMappings on IommuOffset(48); in a history that is the handle of the first
   add_iommu, written (104 0).  The Spec side is anchored directly: the reference layout function of Spec/RimtS.v, applied to
   the same arguments (and, for handle references, to "one IOMMU at offset 48"), is the golden vector. *)
Definition rimt_bare_iommu : sx := SL [SA 1; SA 0; SL []; SL []; SL []; SL []].        (* 32 bytes at 48, handle 48 *)


(* InterruptWire::new(1, true, true, 1) *)
(* ANCHOR test=rimt.rs::test_interrupt_wire mode=exact *)
Definition gold_rimt_wire : list N := [1; 0; 0; 0; 3; 0; 1; 0].
Definition wire_1111 : sx := SL [SA 1; SA 1; SA 1; SA 1].
Definition case_rimt_wire : sx := SL [rimt_ctor; SL [SA 1; SA 0; SL []; SL []; SL []; SL [SL [wire_1111]]]; SA 1].
Example anchor_rimt_wire : slice 80 8 (last_image (run_case Wrapping 18 case_rimt_wire)) = gold_rimt_wire.
Proof. vm_compute. reflexivity. Qed.
Example anchor_rimt_wire_impl : wire_bytes wire_1111 = Some gold_rimt_wire. Proof. vm_compute. reflexivity. Qed.
Example anchor_rimt_wire_spec : rimt_wire_ref wire_1111 = Some gold_rimt_wire. Proof. vm_compute. reflexivity. Qed.

(* Iommu::new(1, None, Some(PciDevice::new(1, 2, 3, 4)), Some(15), None) *)
(* ANCHOR test=rimt.rs::test_iommu mode=exact *)
Definition gold_rimt_iommu : list N := [0; 1; 32; 0; 1; 0; 0; 0; 0; 0; 0; 0; 0; 0; 0; 0; 3; 0; 0; 0; 1; 0; 28; 2; 15;
  0; 0; 0; 0; 0; 32; 0].
Definition op_rimt_iommu : sx := SL [SA 1; SA 1; SL []; SL [SL [SA 1; SA 2; SA 3; SA 4]]; SL [SA 15]; SL []].
Definition case_rimt_iommu : sx := SL [rimt_ctor; op_rimt_iommu; SA 1].
Example anchor_rimt_iommu : skipn 48 (last_image (run_case Wrapping 18 case_rimt_iommu)) = gold_rimt_iommu.
Proof. vm_compute. reflexivity. Qed.
Example anchor_rimt_iommu_checked : skipn 48 (last_image (run_case Checked 18 case_rimt_iommu)) = gold_rimt_iommu.
Proof. vm_compute. reflexivity. Qed.
Example anchor_rimt_iommu_spec : rimt_entry_ref 0 [] op_rimt_iommu = Some gold_rimt_iommu. Proof. vm_compute. reflexivity. Qed.

(* IdMapping::new(1, 2, 3, IommuOffset(48), true, true, true) *)
(* ANCHOR test=rimt.rs::test_id_mapping mode=exact *)
Definition gold_rimt_id_mapping : list N := [1; 0; 0; 0; 2; 0; 0; 0; 3; 0; 0; 0; 48; 0; 0; 0; 7; 0; 0; 0].
Definition map_123 : sx := SL [SA 1; SA 2; SA 3; SL [SA 104; SA 0]; SA 1; SA 1; SA 1].
Definition case_rimt_id_mapping : sx := SL [rimt_ctor; rimt_bare_iommu; SL [SA 2; SA 0; SA 0; SA 0; SA 0; SL [SL [map_123]]]; SA 1].
Example anchor_rimt_id_mapping : skipn 96 (last_image (run_case Wrapping 18 case_rimt_id_mapping)) =
  gold_rimt_id_mapping.
Proof. vm_compute. reflexivity. Qed.
Example anchor_rimt_id_mapping_spec : rimt_map_ref 1 [(48, 0)] map_123 = Some gold_rimt_id_mapping.
Proof. vm_compute. reflexivity. Qed.

(* PcieRootComplex::new(1, 1, true, true, Some(id_mappings(IommuOffset(48)))) *)
(* ANCHOR test=rimt.rs::test_pcie_root_complex mode=exact *)
Definition gold_rimt_pcierc : list N := [1; 1; 56; 0; 1; 0; 1; 0; 3; 0; 0; 0; 16; 0; 2; 0; 1; 0; 0; 0; 2; 0; 0; 0; 10;
  0; 0; 0; 48; 0; 0; 0; 3; 0; 0; 0; 2; 0; 0; 0; 3; 0; 0; 0; 5; 0; 0; 0; 48; 0; 0; 0; 4; 0; 0; 0].
Definition op_rimt_pcierc : sx := SL [SA 2; SA 1; SA 1; SA 1; SA 1; rimt_maps2].
Definition case_rimt_pcierc : sx := SL [rimt_ctor; rimt_bare_iommu; op_rimt_pcierc; SA 1].
Example anchor_rimt_pcierc : skipn 80 (last_image (run_case Wrapping 18 case_rimt_pcierc)) = gold_rimt_pcierc.
Proof. vm_compute. reflexivity. Qed.
Example anchor_rimt_pcierc_checked : skipn 80 (last_image (run_case Checked 18 case_rimt_pcierc)) = gold_rimt_pcierc.
Proof. vm_compute. reflexivity. Qed.
Example anchor_rimt_pcierc_spec : rimt_entry_ref 1 [(48, 0)] op_rimt_pcierc = Some gold_rimt_pcierc.
Proof. vm_compute. reflexivity. Qed.

(* Platform::new(1, "MUCH.LONGER.NAME", Some(id_mappings(IommuOffset(48)))) *)
(* ANCHOR test=rimt.rs::test_platform mode=exact *)
Definition gold_rimt_platform_alone : list N := [2; 1; 69; 0; 1; 0; 0; 0; 29; 0; 2; 0; 77; 85; 67; 72; 46; 76; 79; 78;
  71; 69; 82; 46; 78; 65; 77; 69; 0; 1; 0; 0; 0; 2; 0; 0; 0; 10; 0; 0; 0; 48; 0; 0; 0; 3; 0; 0; 0; 2; 0; 0; 0; 3; 0;
  0; 0; 5; 0; 0; 0; 48; 0; 0; 0; 4; 0; 0; 0].
Definition op_rimt_platform : sx := SL [SA 3; SA 1; str "MUCH.LONGER.NAME"; rimt_maps2].
Definition case_rimt_platform_alone : sx := SL [rimt_ctor; rimt_bare_iommu; op_rimt_platform; SA 1].
Example anchor_rimt_platform_alone : skipn 80 (last_image (run_case Wrapping 18 case_rimt_platform_alone)) =
  gold_rimt_platform_alone.
Proof. vm_compute. reflexivity. Qed.
Example anchor_rimt_platform_alone_checked : skipn 80 (last_image (run_case Checked 18 case_rimt_platform_alone)) =
  gold_rimt_platform_alone.
Proof. vm_compute. reflexivity. Qed.
Example anchor_rimt_platform_alone_spec : rimt_entry_ref 1 [(48, 0)] op_rimt_platform = Some gold_rimt_platform_alone.
Proof. vm_compute. reflexivity. Qed.

(* ====================================================================================================
   signature checks of other table tests: assert_eq!(bytes[0..4], *b"....")  on a freshly constructed table
   ==================================================================================================== *)

(* weak anchors (4 bytes), kept because they are the only explicit byte literals those test modules compare against: the first
   four bytes of the model's image, and of the Spec's reference image, are the literal *)
Definition some_ctor (oem : string) : sx := SL [str oem; str "SOMETHIN"; SA 0xCAFED00D].
Definition sig_of_model (comp : N) (ctor : sx) : list N := firstn 4 (last_image (run_case Wrapping comp (SL [ctor; SA 1]))).
Definition sig_of_spec (comp : N) (ctor : sx) : list N :=
  match ts_image (spec_of comp) ctor [] with Some r => firstn 4 r | None => [] end.

(* HEST::new( *b"HESSTT", *b"SOMETHIN", 0xcafe_d00d) *)
(* ANCHOR test=hest.rs::test_hest mode=exact *)
Definition gold_sig_hest : list N := [72; 69; 83; 84].
Example anchor_sig_hest : sig_of_model 21 (some_ctor "HESSTT") = gold_sig_hest. Proof. vm_compute. reflexivity. Qed.
Example anchor_sig_hest_spec : sig_of_spec 21 (some_ctor "HESSTT") = gold_sig_hest. Proof. vm_compute. reflexivity. Qed.

(* RQSC::new( *b"RQSSCC", *b"SOMETHIN", 0xcafe_d00d) *)
(* ANCHOR test=rqsc.rs::test_bare_rqsc mode=exact *)
Definition gold_sig_rqsc : list N := [82; 81; 83; 67].
Example anchor_sig_rqsc : sig_of_model 22 (some_ctor "RQSSCC") = gold_sig_rqsc. Proof. vm_compute. reflexivity. Qed.
Example anchor_sig_rqsc_spec : sig_of_spec 22 (some_ctor "RQSSCC") = gold_sig_rqsc. Proof. vm_compute. reflexivity. Qed.

(* SPCR::sbi( *b"SSPCRR", *b"SOMETHIN", 0xcafe_d00d) *)
(* ANCHOR test=spcr.rs::test_sbi_spcr mode=exact *)
Definition gold_sig_spcr : list N := [83; 80; 67; 82].
Example anchor_sig_spcr : sig_of_model 28 (some_ctor "SSPCRR") = gold_sig_spcr. Proof. vm_compute. reflexivity. Qed.
Example anchor_sig_spcr_spec : sig_of_spec 28 (some_ctor "SSPCRR") = gold_sig_spcr. Proof. vm_compute. reflexivity. Qed.

(* ====================================================================================================
   sharpness: the Spec oracles accept the golden vector and NO single-byte corruption of it
   ==================================================================================================== *)

(* for a sample of the vectors above: flipping the low bit of any one byte of the crate's golden bytes makes the Spec-layer
   judgement fail -- the _spec anchors are not satisfied by "some plausible encoding" but by these bytes only *)
Definition flip (k : nat) (l : list N) : list N := (firstn k l ++ [N.lxor (nth k l 0) 1] ++ skipn (S k) l)%list.
Definition accepted_corruptions (p comp : N) (c : sx) (pre : list ev) (g : list N) : list nat :=
  filter (fun k => oracle p comp c (pre ++ [EvBytes (flip k g)])%list) (seq 0 (List.length g)).
Example anchor_sharp_device_c06 : accepted_corruptions 6 40 case_device [] gold_device = [].
Proof. vm_compute. reflexivity. Qed.
Example anchor_sharp_mutex_c06 : accepted_corruptions 6 40 case_mutex [] gold_mutex = []. Proof. vm_compute. reflexivity. Qed.
Example anchor_sharp_while_c06 : accepted_corruptions 6 40 case_while [] gold_while = []. Proof. vm_compute. reflexivity. Qed.
Example anchor_sharp_field_byteacc_c06 : accepted_corruptions 6 40 case_field_byteacc [] gold_field_byteacc = [].
Proof. vm_compute. reflexivity. Qed.
Example anchor_sharp_create_field_c06 : accepted_corruptions 6 40 case_create_field [] gold_create_field = [].
Proof. vm_compute. reflexivity. Qed.
Example anchor_sharp_pbm_builder_c06 : accepted_corruptions 6 40 case_pbm_builder [] gold_packagebuilder_multiple =
  [].
Proof. vm_compute. reflexivity. Qed.
Example anchor_sharp_crs_dwordmem_tpl_c10 : accepted_corruptions 10 40 case_crs_dwordmem_tpl [] (skipn 5
  gold_crs_dwordmem) = [].
Proof. vm_compute. reflexivity. Qed.
Example anchor_sharp_crs_irq_io_tpl_c10 : accepted_corruptions 10 40 case_crs_irq_io_tpl [] (skipn 5 gold_crs_irq_io)
  = [].
Proof. vm_compute. reflexivity. Qed.
Example anchor_sharp_path_multi_c09 : accepted_corruptions 9 4 case_path_multi [] gold_path_multi = [].
Proof. vm_compute. reflexivity. Qed.
Example anchor_sharp_eisa_alone_c16 : accepted_corruptions 16 5 case_eisa_alone [] (skipn 5 gold_eisa_name) = [].
Proof. vm_compute. reflexivity. Qed.
Example anchor_sharp_rimt_pci_c01 : accepted_corruptions 1 18 case_rimt_pci [EvNum 48; EvNum 0] gold_rimt_pci = [].
Proof. vm_compute. reflexivity. Qed.
Example anchor_sharp_rimt_platform_c01 : accepted_corruptions 1 18 case_rimt_platform [EvNum 48; EvNum 0]
  gold_rimt_platform = [].
Proof. vm_compute. reflexivity. Qed.
Example anchor_sharp_rimt_pci_c04 : accepted_corruptions 4 18 case_rimt_pci [EvNum 48; EvNum 0] gold_rimt_pci = [].
Proof. vm_compute. reflexivity. Qed.
Example anchor_sharp_rimt_platform_c04 : accepted_corruptions 4 18 case_rimt_platform [EvNum 48; EvNum 0]
  gold_rimt_platform = [].
Proof. vm_compute. reflexivity. Qed.
(* C05: the handle the crate returned is judged too: any other value than 48 is rejected *)
Example anchor_sharp_rimt_pci_handle : oracle 5 18 case_rimt_pci [EvNum 49; EvNum 0; EvBytes gold_rimt_pci] = false.
Proof. vm_compute. reflexivity. Qed.

(* ====================================================================================================
   NOT EXPRESSIBLE in the exchange vocabulary (golden byte vectors of /repo/src tests that have no run_case anchor)
   ====================================================================================================
   aml.rs::test_scope_raw          Scope::raw(path, Vec<u8>) takes PRE-SERIALISED child bytes; component 40 builds the children of
                                   (43 p (ts)) from crate objects, and no crate object serialises to AA BB CC DD (the only raw-byte
                                   carrier, Name::new_field_name, takes a &str: not UTF-8).  Anchored above at model level only
                                   (anchor_scope_raw and variants), not replayable by the harness and not judged by the Spec.
   rimt.rs::test_interrupt_wire, test_iommu, test_id_mapping, test_pcie_root_complex, test_platform
                                   stand-alone serialisation of a structure: component 18 has no "serialise one structure" case.
                                   Anchored EMBEDDED (slice of a table image) and against the Spec's reference layout functions;
                                   the accessor assertions of these tests (flags(), len(), num_int_wires(), id_mapping_offset())
                                   return numbers, not byte vectors: nothing to anchor.
   aml.rs::test_numbers            `#[cfg(target_pointer_width = "64")] 0xDECAFC0FFEE_usize`: anchored (usize is 64-bit in the model).
   hest.rs (5 further tests), rqsc.rs::test_structures
                                   only literal compared: bytes[0..4] == *b"HEST" / *b"RQSC" on a table with entries; the signature
                                   is anchored once per table on the empty table (sig_hest, sig_rqsc); the entry vocabulary of those
                                   tests has no golden bytes to compare with.
   every other test module (bert, cedt, fadt, facs, hmat, madt, mcfg, pptt, rhct, rsdp, sdt, slit, srat, tpm2, viot, xsdt)
                                   asserts checksum = 0 and lengths only: no explicit byte vector. *)

