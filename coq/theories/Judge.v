(* Single entry points used by the extracted OCaml driver:
   run_case  : the Impl model evaluated on a case of a component;
   oracle    : the Spec-layer judgement of a property on the IMPLEMENTATION's observations. *)
From Coq Require Import NArith List.
From ACPI Require Import Lib.Bytes Lib.Sx Impl.Checksum Spec.ChecksumS.
Import ListNotations.
Open Scope N_scope.

(* component ids *)
Definition C_CKSUM := 1.

Definition run_case (md : mode) (comp : N) (c : sx) : list ev :=
  match comp with
  | 1 => ck_case c
  | _ => [EvPanic]
  end.

(* prop is the numeric part of the property id (C17 -> 17) *)
Definition oracle (prop comp : N) (c : sx) (impl : list ev) : bool :=
  match prop, comp with
  | 17, 1 => ck_oracle c impl
  | _, _ => true
  end.

(* helper for the driver's decimal number reader *)
Definition dec_step (acc d : N) : N := acc * 10 + d.
