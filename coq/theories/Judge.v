(* Single entry points used by the extracted OCaml driver:
   run_case  : the Impl model evaluated on a case of a component;
   oracle    : the Spec-layer judgement of a property on the IMPLEMENTATION's observations. *)
From Coq Require Import NArith List.
From ACPI Require Import Lib.Bytes Lib.Sx Impl.Checksum Spec.ChecksumS Impl.AmlCore Spec.AmlCoreS.
Import ListNotations.
Open Scope N_scope.

(* component ids: 1 checksum accumulator; 2 create_pkg_length (hook); 3 integer constants; 4 Path::new + encode;
   5 EISAName; 6 Uuid *)
Definition run_case (md : mode) (comp : N) (c : sx) : list ev :=
  match comp with
  | 1 => ck_case c
  | 2 => pkglen_case md c
  | 3 => int_case c
  | 4 => path_case c
  | 5 => eisa_case c
  | 6 => uuid_case md c
  | _ => [EvPanic]
  end.

(* prop is the numeric part of the property id (C17 -> 17) *)
Definition oracle (prop comp : N) (c : sx) (impl : list ev) : bool :=
  match prop, comp with
  | 17, 1 => ck_oracle c impl
  | 7, 2 => pkglen_oracle c impl
  | 18, 2 => pkglen_oracle18 c impl
  | 8, 3 => int_oracle c impl
  | 9, 4 => path_oracle c impl
  | 18, 4 => path_oracle c impl
  | 16, 5 => eisa_oracle c impl
  | 16, 6 => uuid_oracle c impl
  | _, _ => true
  end.

(* helper for the driver's decimal number reader *)
Definition dec_step (acc d : N) : N := acc * 10 + d.
