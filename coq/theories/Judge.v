(* Single entry points used by the extracted OCaml driver:
   run_case  : the Impl model evaluated on a case of a component;
   oracle    : the Spec-layer judgement of a property on the IMPLEMENTATION's observations. *)
From Coq Require Import NArith List.
From ACPI Require Import Lib.Bytes Lib.Sx Impl.Checksum Spec.ChecksumS Impl.AmlCore Spec.AmlCoreS Spec.Layout
  Impl.AmlTerm Spec.AmlTermS Spec.SelfCheck.
From ACPI Require Import Impl.Xsdt Impl.Mcfg Impl.Madt Impl.Srat Impl.Slit Impl.Hmat Impl.Pptt Impl.Rhct Impl.Rimt
  Impl.Viot Impl.Cedt Impl.Hest Impl.Rqsc Impl.Tpm2 Impl.Fadt Impl.Bert Impl.Spcr Impl.Facs Impl.Rsdp Impl.Sdt Impl.Misc.
From ACPI Require Import Spec.XsdtS Spec.McfgS Spec.MadtS Spec.SratS Spec.SlitS Spec.HmatS Spec.PpttS Spec.RhctS Spec.RimtS
  Spec.ViotS Spec.CedtS Spec.HestS Spec.RqscS Spec.RqscWalkS Spec.SlitShapeS Spec.Tpm2S Spec.FadtS Spec.BertS Spec.SpcrS Spec.FacsS Spec.RsdpS Spec.SdtS Spec.MiscS.
Import ListNotations.
Open Scope N_scope.

(* component ids:
   1 checksum accumulator; 2 create_pkg_length (hook); 3 integer constants; 4 Path::new + encode; 5 EISAName; 6 Uuid;
   10 XSDT 11 MCFG 12 MADT 13 SRAT 14 SLIT 15 HMAT 16 PPTT 17 RHCT 18 RIMT 19 VIOT 20 CEDT 21 HEST 22 RQSC
   23 Tpm2 24 TpmServer1_2 25 TpmClient1_2 26 FADT 27 BERT 28 SPCR 29 FACS 30 RSDP 31 Sdt
   32 sdt::GenericAddress constructors and the associated size functions (Impl/Misc.v)
   40 one AML term; 41 a pair of AML terms (alternative constructions) *)
Definition run_case0 (md : mode) (comp : N) (c : sx) : list ev :=
  match comp with
  | 1 => ck_case c
  | 2 => pkglen_case md c
  | 3 => int_case c
  | 4 => path_case c
  | 5 => eisa_case c
  | 6 => uuid_case md c
  | 10 => xsdt_case md c | 11 => mcfg_case md c | 12 => madt_case md c | 13 => srat_case md c
  | 14 => slit_case md c | 15 => hmat_case md c | 16 => pptt_case md c | 17 => rhct_case md c
  | 18 => rimt_case md c | 19 => viot_case md c | 20 => cedt_case md c | 21 => hest_case md c
  | 22 => rqsc_case md c | 23 => tpm2_case md c | 24 => tpmserver_case md c | 25 => tpmclient_case md c
  | 26 => fadt_case md c | 27 => bert_case md c | 28 => spcr_case md c | 29 => facs_case md c
  | 30 => rsdp_case md c | 31 => sdt_case md c | 32 => misc_case md c
  | 40 => aml_case md c | 41 => aml_pair_case md c
  | _ => [EvPanic]
  end.

(* components 100 + k (C14): the case of component k observed through every sink; the harness appends the number of sinks
   whose observations differed from the plain vector's, the model expects 0 *)
(* component 200 (C14): comparisons made inside the harness on structures built from the derived Default (raw form =
   serialised form, u8sum = sum, tables fed through add_structure stay consistent): one number, the failures; 0 expected *)
Definition run_case (md : mode) (comp : N) (c : sx) : list ev :=
  if 200 <=? comp then [EvNum 0] else
  if 100 <=? comp then run_case0 md (comp - 100) c ++ [EvNum 0] else run_case0 md comp c.

Definition spec_of (comp : N) : tspec :=
  match comp with
  | 10 => xsdt_spec | 11 => mcfg_spec | 12 => madt_spec | 13 => srat_spec | 14 => slit_spec | 15 => hmat_spec
  | 16 => pptt_spec | 17 => rhct_spec | 18 => rimt_spec | 19 => viot_spec | 20 => cedt_spec | 21 => hest_spec
  | 22 => rqsc_spec | 23 => tpm2_spec | 24 => tpmserver_spec | 25 => tpmclient_spec | 26 => fadt_spec
  | 27 => bert_spec | 28 => spcr_spec | 29 => facs_spec | 30 => rsdp_spec | 31 => sdt_spec
  | _ => null_spec
  end.

Definition is_table (comp : N) : bool := (10 <=? comp) && (comp <=? 31).

(* C01 / C02 special cases: the RSDP has two checksums and its length at offset 20; the FACS has no checksum *)
Definition c01_table_oracle (comp : N) (c : sx) (evs : list ev) : bool :=
  match comp with
  | 29 => true
  | 30 => forallb (fun e => match e with EvBytes img => (sum8 img =? 0) && (sum8 (firstn 20 img) =? 0) | _ => true end) evs
  | _ => c01_oracle c evs
  end.

(* the generic table lets the caller overwrite any byte, the Length field included (C13): a history in which the caller
   itself writes into bytes 4..8 is not a statement about the crate's bookkeeping and is not judged by C02 *)
Definition sdt_writes_length (c : sx) : bool :=
  match c with
  | SL (_ :: ops) =>
      existsb (fun o => match o with
                        | SL [SA 3; SA off; SL bs] => (off <? 8) && (4 <? off + N.of_nat (length bs))
                        | SL [SA 4; SA w; SA off; _] => (off <? 8) && (4 <? off + w)
                        | _ => false end) ops
  | _ => false
  end.

Definition c02_table_oracle (comp : N) (c : sx) (evs : list ev) : bool :=
  match comp with
  | 31 => if sdt_writes_length c then true else c02_oracle c evs
  | 30 => forallb (fun e => match e with EvBytes img => (field_at img 20 4 =? 36) && Nat.eqb (length img) 36 | _ => true end) evs
  | 29 => forallb (fun e => match e with EvBytes img => (field_at img 4 4 =? 64) && Nat.eqb (length img) 64 | _ => true end) evs
  | _ => c02_oracle c evs
  end.

(* prop is the numeric part of the property id (C17 -> 17) *)
(* C07 at the call sites (component 40, cases whose outermost constructor emits a length-prefixed object): after the
   opcode (two bytes when it starts with the extended-opcode prefix 0x5B) the PkgLength decodes to exactly the number of
   bytes from its own first byte to the end of the object, has the specification's lead-byte format, and is the shortest
   encoding that can include its own size.  A refusal is not judged here (C18). *)
Definition c07_framed_head (c : sx) : bool :=
  match c with
  | SL (SA k :: rest) =>
      existsb (N.eqb k) [11; 41; 42; 43; 44; 45; 51; 60; 61; 62; 63; 64; 65]
      || match k, rest with 30, SA 4 :: _ | 30, SA 5 :: _ => true | _, _ => false end
  | _ => false
  end.

Definition c07_frame_oracle (c : sx) (impl : list ev) : bool :=
  if negb (c07_framed_head c) then true else
  match impl with
  | [EvBytes e] =>
      let rest := match e with 0x5B :: _ :: r => r | _ :: r => r | [] => [] end in
      match pkg_decode rest with
      | Some (n, body) =>
          let pre := firstn (length rest - length body) rest in
          (n =? N.of_nat (length rest)) && pkg_lead_format_ok pre && pkg_minimal (N.of_nat (length body)) pre
      | None => false
      end
  | _ => true
  end.

(* C03, per-entry part (Spec/SelfCheck.v): on EVERY observed image, whether or not the Spec has a reference image for the
   history, the walk from the table's first-entry offset lands on the end and every entry found is consistent with itself.
   The only observations exempt are those the HEST protocol defines as showing a stand-alone error structure instead of
   the table (after an op 20 / 21, see Spec/HestS.v). *)
Definition c03_self (comp : N) (img : list N) : bool := c03_self_at (ts_walk (spec_of comp)) comp img.

Definition c03_full_oracle (comp : N) (c : sx) (evs : list ev) : bool :=
  match case_parts c with
  | None => false
  | Some (ctor, ops) =>
      judge_history (ts_returns (spec_of comp))
        (fun img prefix => c03_judge (spec_of comp) ctor img prefix
                           && (if (comp =? 21) && shows_alone prefix then true else c03_self comp img))
        (fun _ _ => true) [] ops evs []
  end.

(* C03 for the two variable-body tables outside the generic walk: the RQSC's nested controller / resource walk
   (Spec/RqscWalkS.v) and the SLIT's count-and-matrix shape (Spec/SlitShapeS.v), judged at every observation *)
Definition c03_extra_oracle (comp : N) (c : sx) (impl : list ev) : bool :=
  match comp, case_parts c with
  | 22, Some (_, ops) =>
      judge_history (fun _ => false) (fun img prefix => rqsc_nested_judge img prefix) (fun _ _ => true) [] ops impl []
  | 14, Some (ctor, ops) =>
      judge_history (fun _ => false) (fun img _ => slit_shape_judge ctor img) (fun _ _ => true) [] ops impl []
  | _, _ => true
  end.

Definition oracle (prop comp : N) (c : sx) (impl : list ev) : bool :=
  if 100 <=? comp then match last impl EvPanic with EvNum 0 => true | _ => false end else
  if is_table comp then
    match prop with
    | 1 => c01_table_oracle comp c impl
    | 2 => c02_table_oracle comp c impl
    | 3 => c03_full_oracle comp c impl && c03_extra_oracle comp c impl
    | 4 | 11 => c04_oracle (spec_of comp) c impl
    | 5 => c05_oracle (spec_of comp) c impl
    | 12 => c04_oracle (spec_of comp) c impl && c01_table_oracle comp c impl
    | 18 => c18_oracle (spec_of comp) c impl && c04_oracle (spec_of comp) c impl
    | 13 => c04_oracle (spec_of comp) c impl && c01_table_oracle comp c impl && sdt_oracle c impl
    | _ => true
    end
  else
  match prop, comp with
  | 17, 1 => ck_oracle c impl
  | 2, 32 | 4, 32 => misc_oracle c impl
  | 7, 2 => pkglen_oracle c impl
  | 7, 40 => c07_frame_oracle c impl && c06_oracle c impl
  | 18, 2 => pkglen_oracle18 c impl
  | 8, 3 => int_oracle c impl
  | 9, 4 => path_oracle c impl
  | 18, 4 => path_oracle c impl
  | 18, 40 => c18_aml_oracle c impl
  | 16, 5 => eisa_oracle c impl
  | 16, 6 => uuid_oracle c impl
  | 6, 40 => c06_oracle c impl
  | 10, 40 => c10_oracle c impl && c06_oracle c impl
  | 15, 41 => c15_oracle c impl
  | 15, 40 => c06_oracle c impl
  | _, _ => true
  end.

(* ---------------------------------------------------------------------------------------------------------------
   Per-property projection of an observation stream (DESIGN.md section 10).  The correspondence K of a property compares the
   model's and the implementation's streams through the part the property's theorems speak about: C01 byte sums, C02 (Length
   field, size), C03 the walk (types, offsets, lengths, landing) and the count fields, C05 the returned handles and the walk;
   refusals are always kept (the theorems speak about accepted histories only).  Every other property is about whole images.
   A change of the crate that leaves the projection alone leaves the property's theorems applicable. *)
Definition walk_digest (comp : N) (img : list N) : list N :=
  match ts_walk (spec_of comp) with
  | Some (first, h) =>
      match walk (S (length img)) h first (skipn first img) with
      | Some found =>
          N.of_nat (length img)
          :: map (fun f => match f with (o, w, _) => field_at img o w end) (ts_counts (spec_of comp) (length found))
          ++ concat (map (fun x => match x with (ty, off, len) => [ty; N.of_nat off; N.of_nat len] end) found)
      | None => []          (* the walk fails (a successful digest starts with the image size) *)
      end
  | None => [N.of_nat (length img)]
  end.

Definition project_ev (prop comp : N) (e : ev) : ev :=
  match e with
  | EvPanic => EvPanic
  | EvNum h => match prop with 5 => EvNum h | _ => EvNum 0 end
  | EvBytes img =>
      match prop with
      | 1 => if comp =? 29 then EvBytes [] else EvBytes [sum8 img; if comp =? 30 then sum8 (firstn 20 img) else 0]
      | 2 => EvBytes [field_at img (if comp =? 30 then 20 else 4) 4; N.of_nat (length img)]
      | 3 => if (comp =? 22) || (comp =? 14) then EvBytes img else EvBytes (walk_digest comp img)
      | 5 => EvBytes (walk_digest comp img)
      | _ => EvBytes img
      end
  end.

Definition project (prop comp : N) (evs : list ev) : list ev :=
  if is_table comp && ((prop =? 1) || (prop =? 2) || (prop =? 3) || (prop =? 5)) then map (project_ev prop comp) evs else evs.

(* helper for the driver's decimal number reader *)
Definition dec_step (acc d : N) : N := acc * 10 + d.

(* is the case inside the domain the property's oracle actually judges? (reported as 'judged' in the evidence) *)
Definition judged (prop comp : N) (c : sx) : bool :=
  match prop, comp with
  | 6, 40 | 15, 40 | 7, 40 => match expect false c with Some _ => env_consistent c | None => false end
  | 10, 40 => match c with
              | SL (SA 62 :: [SL ks]) => match opt_all (map (fun d => match d with SL dl => ref_desc dl | SA _ => None end) ks) with Some _ => true | None => false end
              | SL l => match ref_desc l with Some _ => true | None => false end
              | _ => false end
  | 15, 41 => match c with SL [x; _] => match expect false x with Some _ => true | None => false end | _ => false end
  | _, 14 => true           (* a SLIT reference image can be 2^32 bytes: not computed just for this statistic *)
  | _, _ => if is_table comp then
              match case_parts c with
              | Some (ctor, ops) => match ts_image (spec_of comp) ctor (real_ops ops) with Some _ => true | None => false end
              | None => false end
            else true
  end.
