(* Impl model of rhct.rs (case vocabulary: see Spec/RhctS.v) *)
From Coq Require Import NArith List Bool.
From ACPI Require Import Lib.Bytes Lib.Sx Lib.Machine Impl.Checksum Impl.Table Impl.Fields Impl.Run Impl.Madt.
Import ListNotations.
Open Scope N_scope.

(* ---- IsaStringNode { string: &'static str } ---- *)
(* fn len(): let len = 8 + string.len() + 1; if len % 2 == 0 { len } else { len + 1 } *)
Definition isa_len (str : list N) : N :=
  let len := 8 + N.of_nat (length str) + 1 in
  if len mod 2 =? 0 then len else len + 1.

(* to_aml_bytes: assert!(self.len() <= u16::MAX); strlen = string.len() as u16 + 1 (cannot overflow after the assert);
   padding_reqd = strlen % 2 == 1 *)
Definition isa_bytes (str : list N) : option (list N) :=
  do _ <- assert (isa_len str <=? 65535);
  let strlen := cast U16 (N.of_nat (length str)) + 1 in
  let padding_reqd := strlen mod 2 =? 1 in
  Some (w2 0 ++ w2 (isa_len str) ++ w2 1 ++ w2 strlen ++ str ++ b1 0 ++ (if padding_reqd then b1 0 else [])).

(* ---- MmuNode, CmoNode ---- *)
Definition mmu_bytes (scheme : N) : list N := w2 2 ++ w2 8 ++ w2 1 ++ b1 0 ++ b1 scheme.
Definition cmo_bytes (cbom cbop cboz : N) : list N := w2 1 ++ w2 10 ++ w2 1 ++ b1 0 ++ b1 cbom ++ b1 cbop ++ b1 cboz.

(* ---- HartInfoNode { processor_uid, handles: Vec<u32> }: new(uid, &isa) = vec![isa]; with_cmo pushes ---- *)
Definition hart_len (handles : list N) : N := 12 + 4 * N.of_nat (length handles).

Definition rh_dwords (l : list N) : list N := concat (map d4 l).

Definition hart_bytes (uid : N) (handles : list N) : option (list N) :=
  do _ <- assert (hart_len handles <=? 65535);
  Some (w2 65535 ++ w2 (hart_len handles) ++ w2 1 ++ w2 (N.of_nat (length handles)) ++ d4 uid ++ rh_dwords handles).

Fixpoint handle_refs (s : tbl) (l : list sx) : option (list N) :=
  match l with
  | [] => Some []
  | x :: r => match handle_ref s x, handle_refs s r with Some h, Some hs => Some (h :: hs) | _, _ => None end
  end.

(* ---- table: Header = TableHeader, _reserved u32, timebase_frequency U64, rhct_nodes U32, array_offset U32 = 56 ---- *)
Definition rhct_new (c : sx) : option tbl :=
  match c with
  | SL [o; t; r; SA timebase] =>
      do h <- sx_hdr [82; 72; 67; 84] 1 o t r;          (* "RHCT" *)
      Some (tbl_new KRhct h (q8 timebase))
  | _ => None
  end.

Definition rhct_add (claimed : N) (bytes : list N) (ret : bool) : addition :=
  {| a_style := SumAdd; a_claimed := claimed; a_bytes := bytes; a_returns := ret; a_flag := false |}.

(* every add: handle_offset += len as u32; update_header(node.u8sum(), len as u32); push *)
Definition rhct_addition (s : tbl) (o : sx) : option addition :=
  match o with
  | SL [SA 1; str] =>                                   (* add_isa_string -> IsaStringHandle *)
      do sb <- sx_bytes str;
      do b <- isa_bytes sb;
      Some (rhct_add (isa_len sb) b true)
  | SL [SA 2; SA scheme] => Some (rhct_add 8 (mmu_bytes scheme) false)                (* add_mmu_node *)
  | SL [SA 3; SA cbom; SA cbop; SA cboz] => Some (rhct_add 10 (cmo_bytes cbom cbop cboz) true)   (* add_cmo -> CmoHandle *)
  | SL [SA 4; SA uid; isa; SL cmos] =>                  (* add_hart_info of HartInfoNode::new(uid, isa) followed by with_cmo calls *)
      do ih <- handle_ref s isa;
      do chs <- handle_refs s cmos;
      do b <- hart_bytes uid (ih :: chs);
      Some (rhct_add (hart_len (ih :: chs)) b false)
  | _ => None
  end.

Definition rhct_step : mode -> tbl -> sx -> option (tbl * list ev) := add_step rhct_addition.

Definition rhct_case (md : mode) (c : sx) : list ev :=
  run_history (fun s => Some (tbl_image s)) (rhct_step md) rhct_new c.
