(* Impl model of madt.rs *)
From Coq Require Import NArith List Bool.
From ACPI Require Import Lib.Bytes Lib.Sx Lib.Machine Impl.Checksum Impl.Table Impl.Fields Impl.Run.
Import ListNotations.
Open Scope N_scope.

(* ---- structures (field order = struct declaration order) ---- *)
Definition local_apic (uid apic_id enabled : N) : flds := [F 1 0x0; F 1 8; F 1 uid; F 1 apic_id; F 4 enabled].
Definition io_apic (id addr gsi_base : N) : flds := [F 1 0x1; F 1 12; F 1 id; F 1 0; F 4 addr; F 4 gsi_base].

(* Gicc: indices  0 type 1 length 2 res 3 cpu_if 4 uid 5 flags 6 parking 7 perf_int 8 parked 9 base 10 gicv 11 gich
                  12 maint_int 13 gicr 14 mpidr 15 eff_class 16 res 17 spe 18 trbe *)
Definition gicc_new (status : N) : flds :=
  let flags := match status with 1 => 1 | 2 => 8 | _ => 0 end in     (* Enabled -> bit0; DisabledOnlineCapable -> bit3 *)
  [F 1 0xB; F 1 82; F 2 0; F 4 0; F 4 0; F 4 flags; F 4 0; F 4 0; F 8 0; F 8 0; F 8 0; F 8 0;
   F 4 0; F 8 0; F 8 0; F 1 0; F 1 0; F 2 0; F 2 0].

Definition gicc_setter (f : flds) (o : sx) : option flds :=
  match o with
  | SL [SA 1; SA v] => Some (fset f 3 v)       (* cpu_interface_number *)
  | SL [SA 2; SA v] => Some (fset f 4 v)       (* acpi_processor_uid *)
  | SL [SA 3; SA v] => Some (fset f 6 v)       (* parking_protocol_version *)
  | SL [SA 4; SA v] => Some (fset f 8 v)       (* parked_address *)
  | SL [SA 5; SA v] => Some (fset f 9 v)       (* base_address *)
  | SL [SA 6; SA v] => Some (fset f 10 v)      (* virtual_registers *)
  | SL [SA 7; SA v] => Some (fset f 11 v)      (* control_block_registers *)
  | SL [SA 8; SA v] => Some (fset f 13 v)      (* redistributor_base *)
  | SL [SA 9; SA v] => Some (fset f 14 v)      (* mpidr *)
  | SL [SA 10; SA v] => Some (fset f 15 v)     (* power_efficiency_class *)
  | SL [SA 11; SA v] => Some (fset f 17 v)     (* overflow_interrupt *)
  | SL [SA 12; SA v] => Some (fset f 18 v)     (* trbe_interrupt *)
  | SL [SA 13; SA gsi; SA edge] =>             (* performance_interrupt(gsi, trigger) *)
      Some (fset (if edge =? 1 then f_or f 5 2 else f) 7 gsi)
  | SL [SA 14; SA gsi; SA edge] =>             (* maintenance_interrupt(gsi, trigger) *)
      Some (fset (if edge =? 1 then f_or f 5 4 else f) 12 gsi)
  | _ => None
  end.

Fixpoint apply_setters (setter : flds -> sx -> option flds) (f : flds) (l : list sx) : option flds :=
  match l with
  | [] => Some f
  | o :: r => match setter f o with Some f' => apply_setters setter f' r | None => None end
  end.

Definition gicd (gic_id base version : N) : flds :=
  [F 1 0xC; F 1 24; F 2 0; F 4 gic_id; F 8 base; F 4 0; F 1 version; F 1 0; F 1 0; F 1 0].

(* GicMsi: 0 type 1 length 2 res 3 frame_id 4 base 5 flags 6 spi_count 7 spi_base *)
Definition gicmsi_new : flds := [F 1 0xD; F 1 24; F 2 0; F 4 0; F 8 0; F 4 0; F 2 0; F 2 0].
Definition gicmsi_setter (f : flds) (o : sx) : option flds :=
  match o with
  | SL [SA 1; SA v] => Some (fset f 3 v)
  | SL [SA 2; SA v] => Some (fset f 4 v)
  | SL [SA 3; SA cnt; SA base] => Some (fset (fset (fset f 6 cnt) 7 base) 5 1)
  | _ => None
  end.

Definition gicr (base len : N) : flds := [F 1 0xE; F 1 16; F 2 0; F 8 base; F 4 len].
Definition gic_its (id base : N) : flds := [F 1 0xF; F 1 20; F 2 0; F 4 id; F 8 base; F 4 0].
Definition rintc (status hart uid ext imsic_base imsic_size : N) : flds :=
  [F 1 0x18; F 1 36; F 1 1; F 1 0; F 4 status; F 8 hart; F 4 uid; F 4 ext; F 8 imsic_base; F 4 imsic_size].
Definition imsic (nsup nguest gib hib grib gis : N) : flds :=
  [F 1 0x19; F 1 16; F 1 1; F 1 0; F 1 0; F 1 0; F 1 0; F 1 0; F 2 nsup; F 2 nguest; F 1 gib; F 1 hib; F 1 grib; F 1 gis].
Definition aplic (id : N) (hw : list N) (idcs gsi_base addr size total : N) : flds :=
  [F 1 0x1A; F 1 36; F 1 1; F 1 id; F 4 0] ++ fbytes hw ++ [F 2 idcs; F 2 total; F 4 gsi_base; F 8 addr; F 4 size].
Definition plic (id : N) (hw : list N) (total maxprio size addr gsi_base : N) : flds :=
  [F 1 0x1B; F 1 36; F 1 1; F 1 id] ++ fbytes hw ++ [F 2 total; F 2 maxprio; F 4 0; F 4 size; F 8 addr; F 4 gsi_base].

(* ---- table ---- *)
Definition sx_hdr (sig : list N) (rev : N) (o t r : sx) : option hdr :=
  do oem <- sx_arr 6 o; do tb <- sx_arr 8 t; do orev <- sx_num r;
  Some {| h_sig := sig; h_rev := rev; h_oem := oem; h_tbl := tb; h_orev := orev |}.

Definition madt_new (c : sx) : option tbl :=
  match c with
  | SL [o; t; r; lic] =>
      do h <- sx_hdr [65; 80; 73; 67] 1 o t r;          (* "APIC" *)
      do addr <- (match lic with SL [] => Some 0 | SL [SA a] => Some a | _ => None end);
      Some (tbl_new KMadt h (d4 addr ++ d4 0))
  | _ => None
  end.

(* add_structure(t): update_header(t.as_bytes()); push.  add_imsic additionally asserts !has_imsic and sets it. *)
Definition madt_entry (o : sx) : option flds :=
  match o with
  | SL [SA 1; SA uid; SA id; SA en] => Some (local_apic uid id en)
  | SL [SA 2; SA id; SA addr; SA gsi] => Some (io_apic id addr gsi)
  | SL [SA 3; SA status; SL setters] => apply_setters gicc_setter (gicc_new status) setters
  | SL [SA 4; SA id; SA base; SA ver] => Some (gicd id base ver)
  | SL [SA 5; SL setters] => apply_setters gicmsi_setter gicmsi_new setters
  | SL [SA 6; SA base; SA len] => Some (gicr base len)
  | SL [SA 7; SA id; SA base] => Some (gic_its id base)
  | SL [SA 8; SA st; SA hart; SA uid; SA ext; SA ib; SA isz] => Some (rintc st hart uid ext ib isz)
  | SL [SA 9; SA a; SA b; SA c; SA d; SA e; SA g] => Some (imsic a b c d e g)
  | SL [SA 10; SA a; SA b; SA c; SA d; SA e; SA g] => Some (imsic a b c d e g)
  | SL [SA 11; SA id; hw; SA idcs; SA gsi; SA addr; SA size; SA total] =>
      do hwb <- sx_arr 8 hw; Some (aplic id hwb idcs gsi addr size total)
  | SL [SA 12; SA id; hw; SA total; SA maxp; SA size; SA addr; SA gsi] =>
      do hwb <- sx_arr 8 hw; Some (plic id hwb total maxp size addr gsi)
  | _ => None
  end.

Definition madt_addition (s : tbl) (o : sx) : option addition :=
  let is_add_imsic := match o with SL (SA 10 :: _) => true | _ => false end in
  do _ <- assert (negb (is_add_imsic && t_flag s));
  do f <- madt_entry o;
  let bytes := ser_flds f in
  Some {| a_style := SumAppend; a_claimed := N.of_nat (length bytes); a_bytes := bytes; a_returns := false;
          a_flag := t_flag s || is_add_imsic |}.

Definition madt_step : mode -> tbl -> sx -> option (tbl * list ev) := add_step madt_addition.

Definition madt_case (md : mode) (c : sx) : list ev :=
  run_history (fun s => Some (tbl_image s)) (madt_step md) madt_new c.
