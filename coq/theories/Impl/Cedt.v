(* STUB: Impl model of cedt.rs -- to be written *)
From Coq Require Import NArith List.
From ACPI Require Import Lib.Bytes Lib.Sx Lib.Machine Impl.Checksum Impl.Table Impl.Fields Impl.Run.
Import ListNotations.
Definition cedt_case (md : mode) (c : sx) : list ev := [EvPanic].
