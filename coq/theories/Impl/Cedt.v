(* Impl model of cedt.rs (CXL Early Discovery Table).  Case vocabulary: see Spec/CedtS.v. *)
From Coq Require Import NArith List Bool.
From ACPI Require Import Lib.Bytes Lib.Sx Lib.Machine Impl.Checksum Impl.Table Impl.Fields Impl.Run Impl.Madt.
Import ListNotations.
Open Scope N_scope.

(* CxlVersion as u32 / CxlVersion::len() *)
Definition cxl_version_len (v : N) : option N :=
  match v with 0 => Some 0x2000 | 1 => Some 0x10000 | _ => None end.

(* CxlHostBridge::to_aml_bytes; CxlHostBridge::len() = 32 *)
Definition chbs_bytes (uid ver base verlen : N) : list N :=
  b1 0 ++ b1 0 ++ w2 32 ++ d4 uid ++ d4 ver ++ d4 0 ++ q8 base ++ q8 verlen.

(* InterleaveWays (numbered by its discriminant) -> num_interleaved_ways() *)
Definition num_ways (code : N) : option N :=
  match code with
  | 0 => Some 1 | 1 => Some 2 | 2 => Some 4 | 3 => Some 8 | 4 => Some 16 | 8 => Some 3 | 9 => Some 6 | 10 => Some 12
  | _ => None
  end.

(* WindowRestrictions discriminants of the five builders:
   1 cxl_type_2_memory  2 cxl_type_3_memory  3 volatile  4 persistent  5 fixed_configuration *)
Definition restr_bit (b : N) : option N :=
  match b with 1 => Some 1 | 2 => Some 2 | 3 => Some 4 | 4 => Some 8 | 5 => Some 16 | _ => None end.

Definition restr_builder (o : sx) : option N :=
  match o with SL [SA b] => restr_bit b | _ => None end.

(* window_restrictions starts at 0; each builder does  self.window_restrictions |= bit *)
Definition restr_apply (bits : list N) : N := fold_left N.lor bits 0.

(* CxlFixedMemory: len() = 0x24 + 4 * num_interleaved_ways() -- NOT the number of targets pushed *)
Definition cfmws_len (nways : N) : N := 0x24 + 4 * nways.
Definition cfmws_bytes (base size ways arith gran restr qtg nways : N) (targets : list (list N)) : list N :=
  b1 1 ++ b1 0 ++ w2 (cfmws_len nways) ++ d4 0 ++ q8 base ++ q8 size ++ b1 ways ++ b1 arith ++ w2 0 ++ d4 gran
  ++ w2 restr ++ w2 qtg ++ concat targets.

(* XorInterleaveMath: len() = 8 + 8 * bitmaps.len() *)
Definition cxims_len (n : N) : N := 8 + 8 * n.
Definition cxims_bytes (gran : N) (maps : list N) : list N :=
  let n := N.of_nat (length maps) in
  b1 2 ++ b1 0 ++ w2 (cxims_len n) ++ w2 0 ++ b1 gran ++ b1 n ++ concat (map q8 maps).

(* PortAssociation: len() = 17 *)
Definition rdpas_bytes (seg bdfv proto base : N) : list N :=
  b1 3 ++ b1 0 ++ w2 17 ++ w2 seg ++ w2 bdfv ++ b1 proto ++ q8 base.

Definition cedt_new (c : sx) : option tbl :=
  match c with
  | SL [o; t; r] =>
      do h <- sx_hdr [67; 69; 68; 84] 1 o t r;          (* "CEDT" *)
      Some (tbl_new KCedt h [])
  | _ => None
  end.

(* add_*: update_header(st.u8sum(), len as u32); push.  u8sum runs the serialiser (and its asserts). *)
Definition cedt_addition (s : tbl) (o : sx) : option addition :=
  match o with
  | SL [SA 1; SA uid; SA ver; SA base] =>                                   (* add_host_bridge *)
      do vl <- cxl_version_len ver;
      Some {| a_style := SumAdd; a_claimed := 32; a_bytes := chbs_bytes uid ver base vl; a_returns := false; a_flag := t_flag s |}
  | SL [SA 2; SA base; SA size; SA arith; SA gran; SA ways; SA qtg; SL builders; SL targets] =>   (* add_fixed_memory *)
      do nw <- num_ways ways;
      do bits <- sx_list_all restr_builder builders;
      do tg <- sx_list_all (sx_arr 4) targets;
      (* assert_eq!(self.num_interleaved_ways(), self.interleave_targets.len()) *)
      do _ <- assert (nw =? N.of_nat (length tg));
      Some {| a_style := SumAdd; a_claimed := cfmws_len nw;
              a_bytes := cfmws_bytes base size ways arith gran (restr_apply bits) qtg nw tg; a_returns := false; a_flag := t_flag s |}
  | SL [SA 3; SA gran; SL maps] =>                                          (* add_xor_interleave_math *)
      do ms <- sx_nums maps;
      (* assert!(self.bitmaps.len() <= u8::MAX as usize) *)
      do _ <- assert (N.of_nat (length ms) <=? 255);
      Some {| a_style := SumAdd; a_claimed := cxims_len (N.of_nat (length ms)); a_bytes := cxims_bytes gran ms;
              a_returns := false; a_flag := t_flag s |}
  | SL [SA 4; SA seg; SA bus; SA dev; SA fn; SA proto; SA base] =>          (* add_port_association *)
      do _ <- pci_ok dev fn;
      Some {| a_style := SumAdd; a_claimed := 17; a_bytes := rdpas_bytes seg (bdf bus dev fn) proto base; a_returns := false;
              a_flag := t_flag s |}
  | _ => None
  end.

Definition cedt_step : mode -> tbl -> sx -> option (tbl * list ev) := add_step cedt_addition.

Definition cedt_case (md : mode) (c : sx) : list ev :=
  run_history (fun s => Some (tbl_image s)) (cedt_step md) cedt_new c.
