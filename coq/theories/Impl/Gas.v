(* Impl model of gas.rs: the 12-byte Generic Address Structure.
   #[repr(C, packed)] struct GAS { address_space_id: AddressSpace (u8 enum), register_bit_width: u8,
                                   register_bit_offset: u8, access_size: AccessSize (u8 enum), address: U64 }
   `as_bytes()` (inside the packed structs of hest.rs / fadt.rs) and `to_aml_bytes` (byte, byte, byte, byte, qword;
   used by rqsc.rs) produce the same 12 bytes, so one field list serves both.

   Case vocabulary of a GAS-valued argument (shared by components 21, 22; see Spec/GasS.v):
     (0 space width offset access addr)   GAS::new(space, width, offset, access, addr)
     (1 width access device function reg) GAS::new_pci_config(width, access, device, function, reg)
     (2)                                  GAS::default()
   space = the AddressSpace discriminant (0..0xB, 0x7F), access = the AccessSize discriminant (0..4). *)
From Coq Require Import NArith List Bool.
From ACPI Require Import Lib.Bytes Lib.Sx Lib.Machine Impl.Fields.
Import ListNotations.
Open Scope N_scope.

(* indices: 0 address_space_id 1 register_bit_width 2 register_bit_offset 3 access_size 4 address *)
Definition gas_mk (space width offset access addr : N) : flds :=
  [F 1 space; F 1 width; F 1 offset; F 1 access; F 8 addr].

Definition gas_new (space width offset access addr : N) : flds := gas_mk space width offset access addr.

(* (((device as u64) << 32) | ((function as u64) << 16) | (register as u64)); device, function: u8, register: u16 *)
Definition gas_new_pci_config (width access dev fn reg : N) : flds :=
  gas_mk 2 width 0 access (N.lor (N.lor (N.shiftl (cast U8 dev) 32) (N.shiftl (cast U8 fn) 16)) (cast U16 reg)).

(* #[derive(Default)]: SystemMemory, 0, 0, Undefined, 0 *)
Definition gas_default : flds := gas_mk 0 0 0 0 0.

Definition gas_of_sx (s : sx) : option flds :=
  match s with
  | SL [SA 0; SA sp; SA w; SA o; SA a; SA addr] => Some (gas_new sp w o a addr)
  | SL [SA 1; SA w; SA a; SA d; SA f; SA r] => Some (gas_new_pci_config w a d f r)
  | SL [SA 2] => Some gas_default
  | _ => None
  end.

(* the values of a field list, for assigning a nested struct into consecutive fields of its container *)
Definition fvals (f : flds) : list N := map snd f.

(* self.<struct field> = v : overwrite the values of the consecutive fields i, i+1, ... *)
Fixpoint fset_seq (f : flds) (i : nat) (vals : list N) : flds :=
  match vals with
  | [] => f
  | v :: r => fset_seq (fset f i v) (S i) r
  end.

Lemma gas_of_sx_shape s g : gas_of_sx s = Some g -> exists a b c d e, g = gas_mk a b c d e.
Proof.
  unfold gas_of_sx, gas_new, gas_new_pci_config, gas_default. intros H.
  repeat match type of H with
         | match ?x with _ => _ end = Some _ => destruct x; try discriminate
         end; inversion H; subst; repeat eexists.
Qed.

Lemma length_gas_mk a b c d e : length (ser_flds (gas_mk a b c d e)) = 12%nat.
Proof. reflexivity. Qed.
