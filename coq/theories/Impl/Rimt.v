(* Impl model of rimt.rs (RISC-V IO Mapping Table).  Case vocabulary: see Spec/RimtS.v. *)
From Coq Require Import NArith List Bool.
From ACPI Require Import Lib.Bytes Lib.Sx Lib.Machine Impl.Checksum Impl.Table Impl.Fields Impl.Run Impl.Madt.
Import ListNotations.
Open Scope N_scope.

(* Option<T> arguments: () = None, (v) = Some v *)
Definition opt_num (x : sx) : option (option N) :=
  match x with SL [] => Some None | SL [SA v] => Some (Some v) | _ => None end.

Definition truthy (v : N) : bool := negb (v =? 0).

(* Option<PciDevice>: () | ((segment bus device function)); PciDevice::new asserts device < 32, function < 8.
   Result: Some (as_segment, as_bdf) *)
Definition rimt_pci (x : sx) : option (option (N * N)) :=
  match x with
  | SL [] => Some None
  | SL [SL [SA seg; SA bus; SA dev; SA fn]] => do _ <- pci_ok dev fn; Some (Some (seg, bdf bus dev fn))
  | _ => None
  end.

(* InterruptWire (num level_trig polarity_high aplic_id): to_aml_bytes = dword num, word flags, word aplic_id *)
Definition wire_bytes (w : sx) : option (list N) :=
  match w with
  | SL [SA num; SA lvl; SA pol; SA aplic] =>
      let flags := N.lor (if truthy lvl then 1 else 0) (if truthy pol then 2 else 0) in
      Some (d4 num ++ w2 flags ++ w2 aplic)
  | _ => None
  end.

(* Option<Vec<InterruptWire>>: () = None, ((w ...)) = Some(vec) *)
Definition rimt_wires (x : sx) : option (list (list N)) :=
  match x with
  | SL [] => Some []
  | SL [SL ws] => sx_list_all wire_bytes ws
  | _ => None
  end.

(* IdMapping (src dst num (104 k) ats pri rciep): five dwords; the IommuOffset is the handle of an earlier add_iommu *)
Definition idmap_bytes (s : tbl) (m : sx) : option (list N) :=
  match m with
  | SL [SA src; SA dst; SA num; href; SA ats; SA pri; SA rciep] =>
      do h <- handle_ref s href;
      let flags := N.lor (N.lor (if truthy ats then 1 else 0) (if truthy pri then 2 else 0)) (if truthy rciep then 4 else 0) in
      Some (d4 src ++ d4 dst ++ d4 num ++ d4 (cast U32 h) ++ d4 flags)
  | _ => None
  end.

(* Option<Vec<IdMapping>> *)
Definition rimt_maps (s : tbl) (x : sx) : option (list (list N)) :=
  match x with
  | SL [] => Some []
  | SL [SL ms] => sx_list_all (idmap_bytes s) ms
  | _ => None
  end.

(* Iommu: len() = 32 + 8 * num_int_wires; to_aml_bytes asserts len() <= u16::MAX first *)
Definition iommu_len (nwires : N) : N := 32 + 8 * nwires.
Definition iommu_bytes (id : N) (base : option N) (pci : option (N * N)) (prox : option N) (wires : list (list N)) : list N :=
  let n := N.of_nat (length wires) in
  let flags := N.lor (match pci with Some _ => 1 | None => 0 end) (match prox with Some _ => 2 | None => 0 end) in
  b1 0 ++ b1 1 ++ w2 (iommu_len n) ++ w2 id ++ w2 0 ++ q8 (match base with Some b => b | None => 0 end) ++ d4 flags
  ++ w2 (match pci with Some p => fst p | None => 0 end) ++ w2 (match pci with Some p => snd p | None => 0 end)
  ++ d4 (match prox with Some p => p | None => 0 end) ++ w2 n ++ w2 32 ++ concat wires.

(* PcieRootComplex: len() = 16 + 20 * num_id_mappings *)
Definition pcierc_len (nmaps : N) : N := 16 + 20 * nmaps.
Definition pcierc_bytes (id seg : N) (ats pri : bool) (maps : list (list N)) : list N :=
  let n := N.of_nat (length maps) in
  let flags := N.lor (if ats then 1 else 0) (if pri then 2 else 0) in
  b1 1 ++ b1 1 ++ w2 (pcierc_len n) ++ w2 id ++ w2 seg ++ d4 flags ++ w2 16 ++ w2 n ++ concat maps.

(* Platform: id_mapping_offset() = 12 + name.len() + 1; len() = id_mapping_offset() + 20 * num_id_mappings *)
Definition platform_moff (name : list N) : N := 12 + N.of_nat (length name) + 1.
Definition platform_len (name : list N) (nmaps : N) : N := platform_moff name + 20 * nmaps.
Definition platform_bytes (id : N) (name : list N) (maps : list (list N)) : list N :=
  let n := N.of_nat (length maps) in
  b1 2 ++ b1 1 ++ w2 (platform_len name n) ++ w2 id ++ w2 0 ++ w2 (platform_moff name) ++ w2 n
  ++ concat (map b1 name) ++ b1 0 ++ concat maps.

Definition rimt_new (c : sx) : option tbl :=
  match c with
  | SL [o; t; r] =>
      do h <- sx_hdr [82; 73; 77; 84] 1 o t r;          (* "RIMT" *)
      Some (tbl_new KRimt h [])
  | _ => None
  end.

(* add_*: update_header(dev.u8sum(), dev.len() as u32); handle_offset += dev.len(); push.
   u8sum runs the serialiser, whose first statement is assert!(self.len() <= u16::MAX) *)
Definition rimt_addition (s : tbl) (o : sx) : option addition :=
  match o with
  | SL [SA 1; SA id; base; pci; prox; wires] =>            (* add_iommu -> IommuOffset *)
      do b <- opt_num base; do p <- rimt_pci pci; do px <- opt_num prox; do ws <- rimt_wires wires;
      let len := iommu_len (N.of_nat (length ws)) in
      do _ <- assert (len <=? 65535);
      Some {| a_style := SumAdd; a_claimed := len; a_bytes := iommu_bytes id b p px ws; a_returns := true; a_flag := t_flag s |}
  | SL [SA 2; SA id; SA seg; SA ats; SA pri; maps] =>      (* add_pcie_root_complex *)
      do ms <- rimt_maps s maps;
      let len := pcierc_len (N.of_nat (length ms)) in
      do _ <- assert (len <=? 65535);
      Some {| a_style := SumAdd; a_claimed := len; a_bytes := pcierc_bytes id seg (truthy ats) (truthy pri) ms;
              a_returns := false; a_flag := t_flag s |}
  | SL [SA 3; SA id; name; maps] =>                        (* add_platform *)
      do nm <- sx_bytes name; do ms <- rimt_maps s maps;
      let len := platform_len nm (N.of_nat (length ms)) in
      do _ <- assert (len <=? 65535);
      Some {| a_style := SumAdd; a_claimed := len; a_bytes := platform_bytes id nm ms; a_returns := false; a_flag := t_flag s |}
  | _ => None
  end.

Definition rimt_step : mode -> tbl -> sx -> option (tbl * list ev) := add_step rimt_addition.

Definition rimt_case (md : mode) (c : sx) : list ev :=
  run_history (fun s => Some (tbl_image s)) (rimt_step md) rimt_new c.
