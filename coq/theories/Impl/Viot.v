(* Impl model of viot.rs (Virtual I/O Translation table).  Case vocabulary: see Spec/ViotS.v. *)
From Coq Require Import NArith List Bool.
From ACPI Require Import Lib.Bytes Lib.Sx Lib.Machine Impl.Checksum Impl.Table Impl.Fields Impl.Run Impl.Madt.
Import ListNotations.
Open Scope N_scope.

(* PciDevice::new(segment, bus, device, function): asserts device < 32, function < 8.  Result: (segment, as_bdf) *)
Definition viot_pci (x : sx) : option (N * N) :=
  match x with
  | SL [SA seg; SA bus; SA dev; SA fn] => do _ <- pci_ok dev fn; Some (seg, bdf bus dev fn)
  | _ => None
  end.

(* PciRange: byte 1, byte 0, word 24, dword first.bdf, word first.segment, word last.segment, word first.bdf,
   word last.bdf, word translation_offset, word 0, dword 0 *)
Definition pci_range_bytes (first last : N * N) (off : N) : list N :=
  b1 1 ++ b1 0 ++ w2 24 ++ d4 (cast U32 (snd first)) ++ w2 (fst first) ++ w2 (fst last) ++ w2 (snd first) ++ w2 (snd last)
  ++ w2 off ++ w2 0 ++ d4 0.

(* MmioEndpoint: byte 2, byte 0, word 24, dword endpoint, qword base, word translation_offset, word 0, dword 0 *)
Definition mmio_endpoint_bytes (ep base off : N) : list N :=
  b1 2 ++ b1 0 ++ w2 24 ++ d4 ep ++ q8 base ++ w2 off ++ w2 0 ++ d4 0.

(* VirtIoPciIommu: byte 3, byte 0, word 16, word segment, word bdf, qword 0 *)
Definition virtio_pci_bytes (dev : N * N) : list N :=
  b1 3 ++ b1 0 ++ w2 16 ++ w2 (fst dev) ++ w2 (snd dev) ++ q8 0.

(* VirtIoMmioIommu: byte 4, byte 0, word 16, dword 0, qword base *)
Definition virtio_mmio_bytes (base : N) : list N :=
  b1 4 ++ b1 0 ++ w2 16 ++ d4 0 ++ q8 base.

Definition viot_new (c : sx) : option tbl :=
  match c with
  | SL [o; t; r] =>
      do h <- sx_hdr [86; 73; 79; 84] 1 o t r;          (* "VIOT" *)
      Some (tbl_new KViot h [])
  | _ => None
  end.

(* add_*: update_header(node.u8sum(), T::len() as u32); handle_offset = handle_offset.checked_add(T::len() as u16).expect(..);
   push.  The two IOMMU adds return TranslationHandle(old handle_offset); the claimed lengths are the constants
   PciRange::len() = MmioEndpoint::len() = 24, VirtIoPciIommu::len() = VirtIoMmioIommu::len() = 16. *)
Definition viot_addition (s : tbl) (o : sx) : option addition :=
  match o with
  | SL [SA 1; first; last; href] =>                         (* add_pci_range *)
      do f <- viot_pci first; do l <- viot_pci last; do h <- handle_ref s href;
      Some {| a_style := SumAdd; a_claimed := 24; a_bytes := pci_range_bytes f l h; a_returns := false; a_flag := t_flag s |}
  | SL [SA 2; SA ep; SA base; href] =>                      (* add_mmio_endpoint *)
      do h <- handle_ref s href;
      Some {| a_style := SumAdd; a_claimed := 24; a_bytes := mmio_endpoint_bytes ep base h; a_returns := false; a_flag := t_flag s |}
  | SL [SA 3; dev] =>                                       (* add_virtio_pci_iommu -> TranslationHandle *)
      do d <- viot_pci dev;
      Some {| a_style := SumAdd; a_claimed := 16; a_bytes := virtio_pci_bytes d; a_returns := true; a_flag := t_flag s |}
  | SL [SA 4; SA base] =>                                   (* add_virtio_mmio_iommu -> TranslationHandle *)
      Some {| a_style := SumAdd; a_claimed := 16; a_bytes := virtio_mmio_bytes base; a_returns := true; a_flag := t_flag s |}
  | _ => None
  end.

Definition viot_step : mode -> tbl -> sx -> option (tbl * list ev) := add_step viot_addition.

Definition viot_case (md : mode) (c : sx) : list ev :=
  run_history (fun s => Some (tbl_image s)) (viot_step md) viot_new c.
