(* Impl model of rqsc.rs (uses gas.rs).  Case vocabulary: see Spec/RqscS.v.
   The RQSC is NOT an instance of Impl/Table.v: it keeps no running checksum.  `update_header` adds the controller's
   stored length to header.length and recomputes header.checksum from scratch by serialising the whole table
   (with the checksum byte zeroed) into a fresh Checksum. *)
From Coq Require Import NArith List Bool.
From ACPI Require Import Lib.Bytes Lib.Sx Lib.Machine Impl.Checksum Impl.Table Impl.Fields Impl.Run Impl.Madt Impl.Gas.
Import ListNotations.
Open Scope N_scope.

(* ---- ResourceID: the type byte and what follows it (`as_bytes` of the packed payload struct, or the caller's Vec) ---- *)
Record resid := { ri_type : N; ri_payload : list N }.

Definition resid_of_sx (s : sx) : option resid :=
  match s with
  | SL [SA 0; SA cache_id] =>                   (* Cache(CacheResource::new(cache_id)): U32, U32 reserved, U32 reserved *)
      Some {| ri_type := 0; ri_payload := d4 cache_id ++ d4 0 ++ d4 0 |}
  | SL [SA 1; SA prox; SA bw] =>                (* MemoryAffinityStructure(new(proximity_domain, raw_bandwidth_per_block)) *)
      Some {| ri_type := 1; ri_payload := d4 prox ++ d4 0 ++ d4 0 ++ q8 bw |}
  | SL [SA 2; SA hid; SA uid] =>                (* ACPIDevice(new(acpi_hardware_id, acpi_unique_id)) *)
      Some {| ri_type := 2; ri_payload := q8 hid ++ d4 uid |}
  | SL [SA 3; SA bdf] =>                        (* PCIDevice(new(bdf)) *)
      Some {| ri_type := 3; ri_payload := d4 bdf ++ d4 0 ++ d4 0 |}
  | SL [SA 4; SA ty; b] =>                      (* VendorSpecific(ty, bytes) *)
      do bs <- sx_bytes b; Some {| ri_type := cast U8 ty; ri_payload := map (cast U8) bs |}
  | _ => None
  end.

(* ResourceID::len() = size_of::<u8>() + payload size *)
Definition resid_len (r : resid) : N := 1 + N.of_nat (length (ri_payload r)).

(* ---- ResourceStructure ---- *)
Record resource := { rs_type : N; rs_length : N; rs_flags : N; rs_id : resid }.

(* new: length = size_of::<u8>() * 3 + size_of::<u16>() * 2 + resource_id.len(); assert!(length <= u16::MAX); length as u16 *)
Definition resource_new (rtype flags : N) (id : resid) : option resource :=
  let length := 1 * 3 + 2 * 2 + resid_len id in
  do _ <- assert (length <=? 65535);
  Some {| rs_type := rtype; rs_length := cast U16 length; rs_flags := flags; rs_id := id |}.

(* to_aml_bytes: byte type, byte 0, word length, word flags, byte 0, then ResourceID: byte id type, payload *)
Definition ser_resource (r : resource) : list N :=
  b1 (rs_type r) ++ b1 0 ++ w2 (rs_length r) ++ w2 (rs_flags r) ++ b1 0 ++ b1 (ri_type (rs_id r)) ++ ri_payload (rs_id r).

(* ---- QoSController ---- *)
Record qosc := {
  q_type : N; q_length : N; q_gas : flds; q_rcid : N; q_mcid : N; q_flags : N; q_nres : N;
  q_rres : list resource         (* resource_structure, most recent first *)
}.

Definition qos_new (ctype : N) (gas : flds) (rcid mcid flags : N) : qosc :=
  {| q_type := ctype; q_length := 28; q_gas := gas; q_rcid := rcid; q_mcid := mcid; q_flags := flags; q_nres := 0; q_rres := [] |}.

(* add_resource: number_of_resources.checked_add(1).expect(..); length.checked_add(resource.len() as u16).expect(..); push *)
Definition qos_add_resource (q : qosc) (r : resource) : option qosc :=
  do n <- add_c U16 (q_nres q) 1;
  do len <- add_c U16 (q_length q) (cast U16 (rs_length r));
  Some {| q_type := q_type q; q_length := len; q_gas := q_gas q; q_rcid := q_rcid q; q_mcid := q_mcid q; q_flags := q_flags q;
          q_nres := n; q_rres := r :: q_rres q |}.

(* to_aml_bytes: byte type, byte 0, word length, GAS, dword rcid, dword mcid, word flags, word count, resources *)
Definition ser_qos (q : qosc) : list N :=
  b1 (q_type q) ++ b1 0 ++ w2 (q_length q) ++ ser_flds (q_gas q) ++ d4 (q_rcid q) ++ d4 (q_mcid q) ++ w2 (q_flags q)
  ++ w2 (q_nres q) ++ concat (map ser_resource (frev (q_rres q))).

(* (rtype rflags resource-id): ResourceStructure::new(rtype, rflags, id), then controller.add_resource(it) *)
Definition resource_of_sx (s : sx) : option resource :=
  match s with
  | SL [SA rtype; SA rflags; id] => do i <- resid_of_sx id; resource_new rtype rflags i
  | _ => None
  end.

Fixpoint qos_add_all (q : qosc) (l : list sx) : option qosc :=
  match l with
  | [] => Some q
  | x :: r => do rs <- resource_of_sx x; do q' <- qos_add_resource q rs; qos_add_all q' r
  end.

Definition qos_of_sx (o : sx) : option qosc :=
  match o with
  | SL [SA 1; SA ctype; g; SA rcid; SA mcid; SA flags; SL res] =>
      do gv <- gas_of_sx g; qos_add_all (qos_new ctype gv rcid mcid flags) res
  | _ => None
  end.

(* ---- the table ---- *)
Record rqsc := {
  r_hdr : hdr;
  r_len : N;                 (* header.length *)
  r_hck : N;                 (* header.checksum *)
  r_rcs : list qosc          (* structures, most recent first *)
}.

(* to_aml_bytes with the given checksum byte: header bytes, dword structures.len(), controllers *)
Definition rqsc_bytes (h : hdr) (len cks : N) (rcs : list qosc) : list N :=
  hdr_bytes h len cks ++ d4 (N.of_nat (length rcs)) ++ concat (map ser_qos (frev rcs)).

Definition rqsc_image (s : rqsc) : list N := rqsc_bytes (r_hdr s) (r_len s) (r_hck s) (r_rcs s).

(* new: length = 36 + 4; checksum over the header bytes alone *)
Definition rqsc_new (c : sx) : option rqsc :=
  match c with
  | SL [o; t; r] =>
      do h <- sx_hdr [82; 81; 83; 67] 1 o t r;          (* "RQSC", revision 1 *)
      let len := 36 + 4 in
      Some {| r_hdr := h; r_len := len; r_hck := ck_value (ck_append 0 (hdr_bytes h len 0)); r_rcs := [] |}
  | _ => None
  end.

(* add_controller(q): len = q.len() (= q.length as usize); push; update_header(len):
     new_len = (len as u32) + old_len; checksum = 0; fresh Checksum fed by to_aml_bytes; checksum = value() *)
Definition rqsc_add (md : mode) (s : rqsc) (q : qosc) : option rqsc :=
  let rcs := q :: r_rcs s in
  do new_len <- add_c U32 (cast U32 (q_length q)) (r_len s);
  let ck := ck_sink_vec 0 (rqsc_bytes (r_hdr s) new_len 0 rcs) in
  Some {| r_hdr := r_hdr s; r_len := new_len; r_hck := ck_value ck; r_rcs := rcs |}.

Definition rqsc_step (md : mode) (s : rqsc) (o : sx) : option (rqsc * list ev) :=
  do q <- qos_of_sx o;
  do s' <- rqsc_add md s q;
  Some (s', [EvNum 0]).

Definition rqsc_case (md : mode) (c : sx) : list ev :=
  run_history (fun s => Some (rqsc_image s)) (rqsc_step md) rqsc_new c.
