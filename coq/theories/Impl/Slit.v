(* Impl model of slit.rs (case vocabulary: see Spec/SlitS.v) *)
From Coq Require Import NArith List Bool.
From ACPI Require Import Lib.Bytes Lib.Sx Lib.Machine Impl.Checksum Impl.Table Impl.Fields Impl.Run Impl.Madt.
Import ListNotations.
Open Scope N_scope.

(* Vec<u8> entries.  A freshly resized vector is kept as (length, fill value) until its first write so that the
   constructor can be evaluated for matrices of 2^32 bytes; [vlist] is the vector it stands for. *)
Inductive vec8 := VFill (n v : N) | VList (l : list N).

Definition vlist (x : vec8) : list N :=
  match x with VFill n v => repeatN v (N.to_nat n) | VList l => l end.

Definition vlen (x : vec8) : N :=
  match x with VFill n _ => n | VList l => N.of_nat (length l) end.

(* entries[idx] (panics out of range) *)
Definition vget (x : vec8) (idx : N) : option N :=
  if idx <? vlen x then
    Some (match x with VFill _ v => v | VList l => nth (N.to_nat idx) l 0 end)
  else None.

(* entries[idx] = v *)
Definition vset (x : vec8) (idx v : N) : option vec8 :=
  if idx <? vlen x then Some (VList (upd (vlist x) (N.to_nat idx) v)) else None.

(* cksum.append(&entries) on a vector of n copies of v: n wrapping additions of v *)
Definition ck_append_fill (s v n : N) : N := (s + v * n) mod 256.

Record slit := {
  st_hdr : hdr;
  st_len : N;          (* header.length *)
  st_ck : N;           (* the running Checksum *)
  st_hck : N;          (* header.checksum *)
  st_ents : vec8;      (* entries *)
  st_loc : N           (* localities: u32 *)
}.

(* SLIT::new: entry_count = localities.checked_mul(localities).expect(..); length = entry_count.checked_add(36 + 8).expect(..) *)
Definition slit_new (c : sx) : option slit :=
  match c with
  | SL [o; t; r; SA loc] =>
      do h <- sx_hdr [83; 76; 73; 84] 1 o t r;          (* "SLIT" *)
      do cnt <- mul_c U32 loc loc;
      do len <- add_c U32 cnt 44;
      let ck0 := ck_append (ck_append 0 (hdr_bytes h len 0)) (q8 loc) in
      (* Vec::with_capacity(n); if n > 0 { resize(n, 10); cksum.append(&entries) } *)
      let ck := if 0 <? cnt then ck_append_fill ck0 10 cnt else ck0 in
      Some {| st_hdr := h; st_len := len; st_ck := ck; st_hck := ck_value ck; st_ents := VFill cnt 10; st_loc := loc |}
  | _ => None
  end.

Definition slit_with (s : slit) (ck : N) (e : vec8) : slit :=
  {| st_hdr := st_hdr s; st_len := st_len s; st_ck := ck; st_hck := ck_value ck; st_ents := e; st_loc := st_loc s |}.

(* domain_a + self.localities as usize * domain_b   (usize arithmetic: follows the build profile) *)
Definition slit_idx (md : mode) (s : slit) (a b : N) : option N :=
  do m <- mul_m md U64 (st_loc s) b;
  add_m md U64 a m.

Definition slit_set_distance (md : mode) (s : slit) (a b v : N) : option slit :=
  (* assert!(domain_a < localities && domain_b < localities) *)
  do _ <- assert ((a <? st_loc s) && (b <? st_loc s));
  if a =? b then
    (* a diagonal cell is a single byte: accounted once *)
    do idx <- slit_idx md s a b;
    do old <- vget (st_ents s) idx;
    do e <- vset (st_ents s) idx v;
    let ck := ck_append (ck_delete (st_ck s) [old]) [v] in
    Some (slit_with s ck e)
  else
    do i1 <- slit_idx md s a b;
    do o1 <- vget (st_ents s) i1;
    do i2 <- slit_idx md s b a;
    do o2 <- vget (st_ents s) i2;
    do e1 <- vset (st_ents s) i1 v;
    do e2 <- vset e1 i2 v;
    (* update_header(&old_values, new_value): delete(old_values); append(&[new, new]) *)
    let ck := ck_append (ck_delete (st_ck s) [o1; o2]) [v; v] in
    Some (slit_with s ck e2).

(* to_aml_bytes: header, qword(localities), one byte per entry *)
Definition slit_image (s : slit) : list N :=
  hdr_bytes (st_hdr s) (st_len s) (st_hck s) ++ q8 (st_loc s) ++ vlist (st_ents s).

(* set_distance(a, b, value: u8) returns nothing *)
Definition slit_step (md : mode) (s : slit) (o : sx) : option (slit * list ev) :=
  match o with
  | SL [SA 1; SA a; SA b; SA v] =>
      do s' <- slit_set_distance md s a b (cast U8 v);
      Some (s', [EvNum 0])
  | _ => None
  end.

Definition slit_case (md : mode) (c : sx) : list ev :=
  run_history (fun s => Some (slit_image s)) (slit_step md) slit_new c.
