(* Impl model of the small pure kernels of aml.rs:
   create_pkg_length, the integer cascade, Path (encode + Path::new), EISAName::new, Uuid::new. *)
From Coq Require Import NArith List Bool.
From ACPI Require Import Lib.Bytes Lib.Sx Lib.Machine.
Import ListNotations.
Open Scope N_scope.

(* ---------------- create_pkg_length(len: usize, include_self: bool) ---------------- *)

Definition pkg_ll (len : N) : N :=
  if len <? 2 ^ 6 - 1 then 1
  else if len <? 2 ^ 12 - 2 then 2
  else if len <? 2 ^ 20 - 3 then 3
  else 4.

Definition pkg_len (md : mode) (len : N) (include_self : bool) : option (list N) :=
  let ll := pkg_ll len in
  do length <- add_m md U64 len (if include_self then ll else 0);
  do _ <- assert (length <? 2 ^ 28);
  Some (match ll with
        | 1 => [cast U8 length]
        | 2 => [N.lor (N.shiftl 1 6) (cast U8 (N.land length 15)); cast U8 (N.shiftr length 4)]
        | 3 => [N.lor (N.shiftl 2 6) (cast U8 (N.land length 15)); cast U8 (N.shiftr length 4);
                cast U8 (N.shiftr length 12)]
        | _ => [N.lor (N.shiftl 3 6) (cast U8 (N.land length 15)); cast U8 (N.shiftr length 4);
                cast U8 (N.shiftr length 12); cast U8 (N.shiftr length 20)]
        end).

(* ---------------- integers: impl Aml for u8 / u16 / u32 / u64 / usize ---------------- *)

Definition enc_u8 (n : N) : list N :=
  match n with
  | 0 => [0x00]
  | 1 => [0x01]
  | _ => [0x0A; n]
  end.

Definition enc_u16 (n : N) : list N :=
  if n <=? 255 then enc_u8 (cast U8 n) else 0x0B :: le 2 n.

Definition enc_u32 (n : N) : list N :=
  if n <=? 65535 then enc_u16 (cast U16 n) else 0x0C :: le 4 n.

Definition enc_u64 (n : N) : list N :=
  if n <=? 4294967295 then enc_u32 (cast U32 n) else 0x0E :: le 8 n.

Definition enc_usize (n : N) : list N := enc_u64 (cast U64 n).   (* target_pointer_width = 64 *)

(* ---------------- Path ---------------- *)

Record path := { p_root : bool; p_parts : list (list N) }.   (* name_parts: Vec<[u8;4]> *)

Definition path_enc (p : path) : option (list N) :=
  let n := N.of_nat (length (p_parts p)) in
  do pre <- (match length (p_parts p) with
             | O => None                                  (* panic!("Name cannot be empty") *)
             | 1%nat => Some []
             | 2%nat => Some [0x2E]
             | _ => do _ <- assert (n <=? 255); Some [0x2F; cast U8 n]
             end);
  Some ((if p_root p then [0x5C] else []) ++ pre ++ concat (p_parts p)).

(* str::split('.') on bytes *)
Fixpoint split_dot (cur : list N) (s : list N) : list (list N) :=
  match s with
  | [] => [rev cur]
  | c :: r => if c =? 0x2E then rev cur :: split_dot [] r else split_dot (c :: cur) r
  end.

Definition path_new (s : list N) : option path :=
  let root := match s with c :: _ => c =? 0x5C | [] => false end in
  let body := if root then tl s else s in
  let parts := split_dot [] body in
  if forallb (fun part => Nat.eqb (length part) 4) parts      (* assert_eq!(part.len(), 4) *)
  then Some {| p_root := root; p_parts := parts |} else None.

(* ---------------- EISAName::new (ASCII input) ---------------- *)

(* char::to_digit(16) *)
Definition hex_digit (c : N) : option N :=
  if (48 <=? c) && (c <=? 57) then Some (c - 48)
  else if (97 <=? c) && (c <=? 102) then Some (c - 87)
  else if (65 <=? c) && (c <=? 70) then Some (c - 55)
  else None.

Definition swap_bytes32 (x : N) : N := unle (rev (le 4 x)).

Definition eisa_value (s : list N) : option N :=
  match s with
  | [c0; c1; c2; h3; h4; h5; h6] =>
      do a0 <- sub_c c0 0x40; do a1 <- sub_c c1 0x40; do a2 <- sub_c c2 0x40;
      do d3 <- hex_digit h3; do d4 <- hex_digit h4; do d5 <- hex_digit h5; do d6 <- hex_digit h6;
      Some (swap_bytes32
              (N.lor (N.lor (N.lor (N.lor (N.lor (N.lor
                 (cast U32 (N.shiftl a0 26)) (cast U32 (N.shiftl a1 21))) (cast U32 (N.shiftl a2 16)))
                 (N.shiftl d3 12)) (N.shiftl d4 8)) (N.shiftl d5 4)) d6))
  | _ => None                                              (* assert_eq!(name.len(), 7) *)
  end.

Definition eisa_enc (s : list N) : option (list N) := option_map enc_u32 (eisa_value s).

(* ---------------- Uuid::new (ASCII input) ---------------- *)

Definition hex2byte (v1 v2 : N) : option N :=
  do hi <- hex_digit v1; do lo <- hex_digit v2; Some (N.lor (cast U8 (N.shiftl hi 4)) lo).

Definition uuid_order : list (nat * nat) :=
  [(6,7);(4,5);(2,3);(0,1);(11,12);(9,10);(16,17);(14,15);(19,20);(21,22);(24,25);(26,27);(28,29);(30,31);(32,33);(34,35)]%nat.

Definition uuid_bytes (s : list N) : option (list N) :=
  do _ <- assert (Nat.eqb (length s) 36);
  do _ <- assert ((nth 8 s 0 =? 45) && (nth 13 s 0 =? 45) && (nth 18 s 0 =? 45) && (nth 23 s 0 =? 45));
  opt_all (map (fun '(i, j) => hex2byte (nth i s 0) (nth j s 0)) uuid_order).

(* ---------------- case decoding ---------------- *)

Definition ev_opt (o : option (list N)) : list ev := match o with Some b => [EvBytes b] | None => [EvPanic] end.

(* component 2: (len include_self) via the verification hook *)
Definition pkglen_case (md : mode) (c : sx) : list ev :=
  match c with
  | SL [SA n; SA i] => ev_opt (pkg_len md n (negb (i =? 0)))
  | _ => [EvPanic]
  end.

(* component 3: (type value): type 8/16/32/64/0(usize) *)
Definition int_case (c : sx) : list ev :=
  match c with
  | SL [SA 8; SA n] => [EvBytes (enc_u8 n)]
  | SL [SA 16; SA n] => [EvBytes (enc_u16 n)]
  | SL [SA 32; SA n] => [EvBytes (enc_u32 n)]
  | SL [SA 64; SA n] => [EvBytes (enc_u64 n)]
  | SL [SA 0; SA n] => [EvBytes (enc_usize n)]
  | _ => [EvPanic]
  end.

(* component 4: Path::new(string).to_aml_bytes *)
Definition path_case (c : sx) : list ev :=
  match sx_bytes c with
  | Some s => ev_opt (do p <- path_new s; path_enc p)
  | None => [EvPanic]
  end.

(* component 5 / 6 *)
Definition eisa_case (c : sx) : list ev :=
  match sx_bytes c with Some s => ev_opt (eisa_enc s) | None => [EvPanic] end.

(* ---------------- length-framed objects and BufferData (used by Uuid) ---------------- *)

Definition framed (md : mode) (op body : list N) : option (list N) :=
  do pl <- pkg_len md (N.of_nat (length body)) true; Some (op ++ pl ++ body).

Definition buffer_data (md : mode) (data : list N) : option (list N) :=
  framed md [0x11] (enc_usize (N.of_nat (length data)) ++ data).

Definition uuid_enc (md : mode) (s : list N) : option (list N) :=
  do b <- uuid_bytes s; buffer_data md b.

Definition uuid_case (md : mode) (c : sx) : list ev :=
  match sx_bytes c with Some s => ev_opt (uuid_enc md s) | None => [EvPanic] end.
