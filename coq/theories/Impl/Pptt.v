(* Impl model of pptt.rs (case vocabulary: see Spec/PpttS.v) *)
From Coq Require Import NArith List Bool.
From ACPI Require Import Lib.Bytes Lib.Sx Lib.Machine Impl.Checksum Impl.Table Impl.Fields Impl.Run Impl.Madt.
Import ListNotations.
Open Scope N_scope.

(* ---- ProcessorNode { pub flags, pub parent, pub acpi_processor_id, resources: Vec<CacheHandle> } ---- *)
Record pnode := {
  pn_flags : N; pn_parent : N; pn_uid : N;
  pn_rres : list N            (* resources, most recently pushed first *)
}.

Definition pn_or (p : pnode) (bits : N) : pnode :=
  {| pn_flags := N.lor (pn_flags p) bits; pn_parent := pn_parent p; pn_uid := pn_uid p; pn_rres := pn_rres p |}.

(* builders (consume self) and direct assignments to the three pub fields *)
Definition pnode_builder (s : tbl) (p : pnode) (o : sx) : option pnode :=
  match o with
  | SL [SA 1] => Some (pn_or p 1)            (* physical  *)
  | SL [SA 2] => Some (pn_or p 2)            (* valid     *)
  | SL [SA 3] => Some (pn_or p 4)            (* thread    *)
  | SL [SA 4] => Some (pn_or p 8)            (* leaf      *)
  | SL [SA 5] => Some (pn_or p 16)           (* identical *)
  | SL [SA 6; h] =>                          (* add_cache(&handle): resources.push(c) *)
      do c <- handle_ref s h;
      Some {| pn_flags := pn_flags p; pn_parent := pn_parent p; pn_uid := pn_uid p; pn_rres := c :: pn_rres p |}
  | SL [SA 7; SA v] => Some {| pn_flags := v; pn_parent := pn_parent p; pn_uid := pn_uid p; pn_rres := pn_rres p |}
  | SL [SA 8; h] =>                          (* node.parent = value *)
      do v <- handle_ref s h;
      Some {| pn_flags := pn_flags p; pn_parent := v; pn_uid := pn_uid p; pn_rres := pn_rres p |}
  | SL [SA 9; SA v] => Some {| pn_flags := pn_flags p; pn_parent := pn_parent p; pn_uid := v; pn_rres := pn_rres p |}
  | _ => None
  end.

Fixpoint pnode_builders (s : tbl) (p : pnode) (l : list sx) : option pnode :=
  match l with
  | [] => Some p
  | o :: r => match pnode_builder s p o with Some p' => pnode_builders s p' r | None => None end
  end.

(* fn len(): 20 + resources.len() * 4 *)
Definition pnode_len (p : pnode) : N := 20 + N.of_nat (length (pn_rres p)) * 4.

Definition pp_dwords (l : list N) : list N := concat (map d4 l).

(* to_aml_bytes: assert!(self.len() <= u8::MAX) first *)
Definition pnode_bytes (p : pnode) : option (list N) :=
  do _ <- assert (pnode_len p <=? 255);
  Some (b1 0 ++ b1 (pnode_len p) ++ w2 0 ++ d4 (pn_flags p) ++ d4 (pn_parent p) ++ d4 (pn_uid p) ++
        d4 (N.of_nat (length (pn_rres p))) ++ pp_dwords (frev (pn_rres p))).

(* ---- CacheNodeBuilder -> CacheNode (packed struct)
   indices: 0 type 1 length 2 reserved 3 flags 4 next_level 5 size 6 set_count 7 associativity 8 attributes 9 line_size 10 id *)
Definition cache_default : flds := [F 1 1; F 1 28; F 2 0; F 4 0; F 4 0; F 4 0; F 4 0; F 1 0; F 1 0; F 2 0; F 4 0].

Definition alloc_bits (e : N) : N := match e with 1 => 1 | 2 => 2 | _ => 0 end.     (* Read = 0, Write = 1<<0, Both = 1<<1 *)
Definition ctype_bits (e : N) : N := match e with 1 => 4 | 2 => 8 | _ => 0 end.     (* Data = 0<<2, Instruction = 1<<2, Unified = 1<<3 *)
Definition policy_bits (e : N) : N := match e with 1 => 16 | _ => 0 end.            (* Writeback = 0<<4, Writethrough = 1<<4 *)

Definition cache_setter (s : tbl) (f : flds) (o : sx) : option flds :=
  match o with
  | SL [SA 1; SA v] => Some (f_or (fset f 5 v) 3 1)                     (* size *)
  | SL [SA 2; SA v] => Some (f_or (fset f 6 v) 3 2)                     (* sets *)
  | SL [SA 3; SA v] => Some (f_or (fset f 7 v) 3 4)                     (* associativity *)
  | SL [SA 4; SA e] => Some (f_or (f_or f 8 (alloc_bits e)) 3 8)        (* allocation_type: attributes |= a *)
  | SL [SA 5; SA e] => Some (f_or (f_or f 8 (ctype_bits e)) 3 16)       (* cache_type:      attributes |= c *)
  | SL [SA 6; SA e] => Some (f_or (f_or f 8 (policy_bits e)) 3 32)      (* write_policy:    attributes |= w *)
  | SL [SA 7; SA v] => Some (f_or (fset f 9 v) 3 64)                    (* line_size *)
  | SL [SA 8; SA v] => Some (f_or (fset f 10 v) 3 128)                  (* id *)
  | SL [SA 9; h] => do c <- handle_ref s h; Some (fset f 4 c)           (* next_level(&handle) *)
  | _ => None
  end.

Fixpoint cache_setters (s : tbl) (f : flds) (l : list sx) : option flds :=
  match l with
  | [] => Some f
  | o :: r => match cache_setter s f o with Some f' => cache_setters s f' r | None => None end
  end.

(* ---- table ---- *)
Definition pptt_new (c : sx) : option tbl :=
  match c with
  | SL [o; t; r] =>
      do h <- sx_hdr [80; 80; 84; 84] 1 o t r;          (* "PPTT" *)
      Some (tbl_new KPptt h [])
  | _ => None
  end.

(* ProcessorNode::new(parent, uid): parent () = None, (104 k) = Some(&handle); a bare number = new(None, uid) followed
   by node.parent = number *)
Definition pnode_new (s : tbl) (parent : sx) (uid : N) : option pnode :=
  do p <- (match parent with SL [] => Some 0 | x => handle_ref s x end);
  Some {| pn_flags := 0; pn_parent := p; pn_uid := uid; pn_rres := [] |}.

(* add_processor: handle_offset += node.len() as u32; update_header(node.u8sum(), node.len() as u32)
   add_cache:     handle_offset += 28;                update_header(node.u8sum(), 28) *)
Definition pptt_addition (s : tbl) (o : sx) : option addition :=
  match o with
  | SL [SA 1; parent; SA uid; SL bs] =>
      do p0 <- pnode_new s parent uid;
      do p <- pnode_builders s p0 bs;
      do b <- pnode_bytes p;
      Some {| a_style := SumAdd; a_claimed := pnode_len p; a_bytes := b; a_returns := true; a_flag := false |}
  | SL [SA 2; SL st] =>
      do f <- cache_setters s cache_default st;
      Some {| a_style := SumAdd; a_claimed := 28; a_bytes := ser_flds f; a_returns := true; a_flag := false |}
  | _ => None
  end.

Definition pptt_step : mode -> tbl -> sx -> option (tbl * list ev) := add_step pptt_addition.

Definition pptt_case (md : mode) (c : sx) : list ev :=
  run_history (fun s => Some (tbl_image s)) (pptt_step md) pptt_new c.
