(* Impl model of hmat.rs (case vocabulary: see Spec/HmatS.v) *)
From Coq Require Import NArith List Bool.
From ACPI Require Import Lib.Bytes Lib.Sx Lib.Machine Impl.Checksum Impl.Table Impl.Fields Impl.Run Impl.Madt.
Import ListNotations.
Open Scope N_scope.

(* ---- MemoryProximityDomain: #[repr(C, packed)] struct, serialised with as_bytes() ---- *)
(* type U16, _reserved0 U16, length U32, flags U16, _reserved1 U16, initiator U32, memory U32, _reserved2 [u8; 20] *)
Definition mem_prox (initiator memory : N) : flds :=
  [F 2 0; F 2 0; F 4 40; F 2 1; F 2 0; F 4 initiator; F 4 memory] ++ fbytes (repeatN 0 20).

(* ---- SystemLocality ---- *)
Record sysloc := {
  sl_flags : N;              (* u8 *)
  sl_dt : N;                 (* DataType as u8 *)
  sl_mts : N;                (* MinTransferSize as u8 *)
  sl_unit : N;               (* entry_base_unit u64 *)
  sl_inits : list N;         (* Vec<u32> *)
  sl_targets : list N;       (* Vec<u32> *)
  sl_entries : list N        (* Vec<u16> *)
}.

Definition hm_len {A} (l : list A) : N := N.of_nat (length l).

(* SystemLocality::new: vec![0; ni], vec![0; nt], vec![0xffff; ni * nt]  (usize multiplication).
   The allocation limits of Vec are outside the model. *)
Definition sysloc_new (md : mode) (loc_type dt mts unit ni nt : N) : option sysloc :=
  do cnt <- mul_m md U64 ni nt;
  Some {| sl_flags := cast U8 loc_type; sl_dt := dt; sl_mts := mts; sl_unit := unit;
          sl_inits := repeatN 0 (N.to_nat ni); sl_targets := repeatN 0 (N.to_nat nt);
          sl_entries := repeatN 0xffff (N.to_nat cnt) |}.

Definition sl_with_flags (s : sysloc) (f : N) : sysloc :=
  {| sl_flags := f; sl_dt := sl_dt s; sl_mts := sl_mts s; sl_unit := sl_unit s;
     sl_inits := sl_inits s; sl_targets := sl_targets s; sl_entries := sl_entries s |}.
Definition sl_with_inits (s : sysloc) (l : list N) : sysloc :=
  {| sl_flags := sl_flags s; sl_dt := sl_dt s; sl_mts := sl_mts s; sl_unit := sl_unit s;
     sl_inits := l; sl_targets := sl_targets s; sl_entries := sl_entries s |}.
Definition sl_with_targets (s : sysloc) (l : list N) : sysloc :=
  {| sl_flags := sl_flags s; sl_dt := sl_dt s; sl_mts := sl_mts s; sl_unit := sl_unit s;
     sl_inits := sl_inits s; sl_targets := l; sl_entries := sl_entries s |}.
Definition sl_with_entries (s : sysloc) (l : list N) : sysloc :=
  {| sl_flags := sl_flags s; sl_dt := sl_dt s; sl_mts := sl_mts s; sl_unit := sl_unit s;
     sl_inits := sl_inits s; sl_targets := sl_targets s; sl_entries := l |}.

(* v[idx] = x : panics when idx is out of range *)
Definition hm_vec_set (l : list N) (idx x : N) : option (list N) :=
  if idx <? hm_len l then Some (upd l (N.to_nat idx) x) else None.

(* set_entry_value: assert!(i < initiators.len() && j < targets.len()); entries[i * targets.len() + j] = value *)
(* the usize product/sum cannot overflow after the assert: i * T + j < I * T, the length of a vector that exists
   (or, when the product of `new` wrapped in release, the index check of entries[..] refuses) *)
Definition sysloc_set_entry (s : sysloc) (i j v : N) : option sysloc :=
  do _ <- assert ((i <? hm_len (sl_inits s)) && (j <? hm_len (sl_targets s)));
  do e <- hm_vec_set (sl_entries s) (i * hm_len (sl_targets s) + j) v;
  Some (sl_with_entries s e).

Definition sysloc_builder (s : sysloc) (o : sx) : option sysloc :=
  match o with
  | SL [SA 1] => Some (sl_with_flags s (N.lor (sl_flags s) 0x20))            (* non_sequential_transfers *)
  | SL [SA 2] => Some (sl_with_flags s (N.lor (sl_flags s) 0x10))            (* minimum_transfer_size_required *)
  | SL [SA 3; SA idx; SA v] => option_map (sl_with_inits s) (hm_vec_set (sl_inits s) idx v)       (* set_initiator_value *)
  | SL [SA 4; SA idx; SA v] => option_map (sl_with_targets s) (hm_vec_set (sl_targets s) idx v)   (* set_target_value *)
  | SL [SA 5; SA i; SA j; SA v] => sysloc_set_entry s i j v                                   (* set_entry_value *)
  | _ => None
  end.

Fixpoint sysloc_builders (s : sysloc) (l : list sx) : option sysloc :=
  match l with
  | [] => Some s
  | o :: r => match sysloc_builder s o with Some s' => sysloc_builders s' r | None => None end
  end.

(* fn len(): 4 * initiators + 4 * targets + 2 * entries + 32  (usize; cannot overflow for vectors that exist) *)
Definition sysloc_len (s : sysloc) : N :=
  4 * hm_len (sl_inits s) + 4 * hm_len (sl_targets s) + 2 * hm_len (sl_entries s) + 32.

Definition hm_words (l : list N) : list N := concat (map w2 l).
Definition hm_dwords (l : list N) : list N := concat (map d4 l).

Definition sysloc_bytes (s : sysloc) : list N :=
  w2 1 ++ w2 0 ++ d4 (sysloc_len s) ++ b1 (sl_flags s) ++ b1 (sl_dt s) ++ b1 (sl_mts s) ++ b1 0 ++
  d4 (hm_len (sl_inits s)) ++ d4 (hm_len (sl_targets s)) ++ d4 0 ++ q8 (sl_unit s) ++
  hm_dwords (sl_inits s) ++ hm_dwords (sl_targets s) ++ hm_words (sl_entries s).

(* ---- MemorySideCache ---- *)
Definition msc_attributes (total level assoc policy line : N) : N :=
  N.lor (N.lor (N.lor (N.lor total (N.shiftl level 4)) (N.shiftl assoc 8)) (N.shiftl policy 12)) (N.shiftl (cast U16 line) 16).

Definition msc_len (handles : list N) : N := 32 + hm_len handles * 2.

(* to_aml_bytes: assert!(smbios_handles.len() <= u16::MAX) first *)
Definition msc_bytes (pd size attrs : N) (handles : list N) : option (list N) :=
  do _ <- assert (hm_len handles <=? 65535);
  Some (w2 2 ++ w2 0 ++ d4 (msc_len handles) ++ d4 pd ++ d4 0 ++ q8 size ++ d4 attrs ++ w2 0 ++ w2 (hm_len handles) ++
        hm_words handles).

(* ---- table ---- *)
Definition hmat_new (c : sx) : option tbl :=
  match c with
  | SL [o; t; r] =>
      do h <- sx_hdr [72; 77; 65; 84] 1 o t r;          (* "HMAT" *)
      Some (tbl_new KHmat h [])
  | _ => None
  end.

Definition hmat_add (claimed : N) (bytes : list N) : addition :=
  {| a_style := SumAdd; a_claimed := claimed; a_bytes := bytes; a_returns := false; a_flag := false |}.

(* add_*(x): update_header(x.len() as u32, u8sum(&x)); push.  u8sum runs the serialiser (and its asserts). *)
(* the mode matters only for the usize product ni * nt of SystemLocality::new *)
Definition hmat_addition (md : mode) (s : tbl) (o : sx) : option addition :=
  match o with
  | SL [SA 1; SA ipd; SA mpd] => Some (hmat_add 40 (ser_flds (mem_prox ipd mpd)))
  | SL [SA 2; SA lt; SA dt; SA mts; SA unit; SA ni; SA nt; SL bs] =>
      do sl0 <- sysloc_new md lt dt mts unit ni nt;
      do sl <- sysloc_builders sl0 bs;
      do _ <- assert (sysloc_len sl <? U32);                        (* assert!(self.len() <= u32::MAX as usize) in the serialiser *)
      Some (hmat_add (sysloc_len sl) (sysloc_bytes sl))
  | SL [SA 3; SA pd; SA size; SA total; SA level; SA assoc; SA policy; SA line; SL hs] =>
      do handles <- sx_nums hs;
      do b <- msc_bytes pd size (msc_attributes total level assoc policy line) handles;
      Some (hmat_add (msc_len handles) b)
  | _ => None
  end.

Definition hmat_step (md : mode) : tbl -> sx -> option (tbl * list ev) := add_step (hmat_addition md) md.

Definition hmat_case (md : mode) (c : sx) : list ev :=
  run_history (fun s => Some (tbl_image s)) (hmat_step md) hmat_new c.
