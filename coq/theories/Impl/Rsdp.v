(* Impl model of rsdp.rs *)
From Coq Require Import NArith List Bool.
From ACPI Require Import Lib.Bytes Lib.Sx Lib.Machine Impl.Checksum Impl.Table Impl.Fields Impl.Run.
Import ListNotations.
Open Scope N_scope.

Definition RSDP_SIG : list N := [82; 83; 68; 32; 80; 84; 82; 32].      (* b"RSD PTR " *)

(* struct Rsdp (packed, 36 bytes): signature[8] checksum oem_id[6] revision _rsdt_addr length xsdt_addr
   extended_checksum _reserved[3] *)
Record rsdp := { rs_cks : N; rs_oem : list N; rs_xsdt : N; rs_ext : N }.

Definition rsdp_bytes (r : rsdp) : list N :=
  RSDP_SIG ++ b1 (rs_cks r) ++ rs_oem r ++ b1 2 ++ d4 0 ++ d4 36 ++ q8 (rs_xsdt r) ++ b1 (rs_ext r) ++ [0; 0; 0].

(* Rsdp::new(oem_id, xsdt_addr): both checksums 0, then
   rsdp.checksum = generate_checksum(&rsdp.as_bytes()[0..20]); rsdp.extended_checksum = generate_checksum(rsdp.as_bytes()) *)
Definition rsdp_make (oem : list N) (xsdt : N) : rsdp :=
  let r0 := {| rs_cks := 0; rs_oem := oem; rs_xsdt := xsdt; rs_ext := 0 |} in
  let r1 := {| rs_cks := generate_checksum (firstn 20 (rsdp_bytes r0)); rs_oem := oem; rs_xsdt := xsdt; rs_ext := 0 |} in
  {| rs_cks := rs_cks r1; rs_oem := oem; rs_xsdt := xsdt; rs_ext := generate_checksum (rsdp_bytes r1) |}.

Definition rsdp_new (c : sx) : option rsdp :=
  match c with
  | SL [o; SA xsdt] => do oem <- sx_arr 6 o; Some (rsdp_make oem xsdt)
  | _ => None
  end.

Definition rsdp_step (md : mode) (r : rsdp) (o : sx) : option (rsdp * list ev) := None.

Definition rsdp_case (md : mode) (c : sx) : list ev :=
  run_history (fun r => Some (rsdp_bytes r)) (rsdp_step md) rsdp_new c.
