(* Impl model of the small public items that belong to no table or AML component (component 32):
   sdt.rs GenericAddress::{io_port_address, mmio_address}<T> (emitted through its raw in-memory form) and the associated
   size functions GAS::len, Rsdp::len, FACS::len, TpmServer1_2::len, each `core::mem::size_of::<Self>()`.
   Case vocabulary (shared with harness/src/t_misc.rs):
     (1 k addr)   GenericAddress::io_port_address::<T>(addr as u16).as_bytes(),  k = size_of::<T>()
     (2 k addr)   GenericAddress::mmio_address::<T>(addr).as_bytes()
     (3 w)        w = 0 GAS::len()  1 Rsdp::len()  2 FACS::len()  3 TpmServer1_2::len()
     (4 bytes)    aml::Name::new_field_name(text) serialised: the text's bytes, nothing else
     (5 bytes)    rhct::IsaStringNode::new(text) serialised on its own (the node RHCT::add_isa_string builds) *)
From Coq Require Import NArith List Bool.
From ACPI Require Import Lib.Bytes Lib.Sx Lib.Machine Impl.Fields Impl.Rhct.
Import ListNotations.
Open Scope N_scope.

(* fn access_size_of<T>() -> u8 : match size_of::<T>() { 1 => 1, 2 => 2, 4 => 3, 8 => 4, _ => unreachable!() } *)
Definition access_size_of (k : N) : option N :=
  match k with 1 => Some 1 | 2 => Some 2 | 4 => Some 3 | 8 => Some 4 | _ => None end.

(* struct GenericAddress (packed): address_space_id u8, register_bit_width u8, register_bit_offset u8, access_size u8,
   address u64; `8 * size_of::<T>() as u8` multiplies in u8 *)
Definition generic_address (md : mode) (space k addr : N) : option flds :=
  match mul_m md 256 8 (k mod 256) with
  | None => None
  | Some width =>
      match access_size_of k with
      | None => None
      | Some acc => Some [F 1 space; F 1 width; F 1 0; F 1 acc; F 8 addr]
      end
  end.

Definition misc_case (md : mode) (c : sx) : list ev :=
  match c with
  | SL [SA 1; SA k; SA addr] =>                      (* u64::from(address: u16) *)
      match generic_address md 1 k (addr mod 2 ^ 16) with Some f => [EvBytes (ser_flds f)] | None => [EvPanic] end
  | SL [SA 2; SA k; SA addr] =>
      match generic_address md 0 k addr with Some f => [EvBytes (ser_flds f)] | None => [EvPanic] end
  | SL [SA 3; SA 0] => [EvNum 12]                    (* size_of::<GAS>() *)
  | SL [SA 3; SA 1] => [EvNum 36]                    (* size_of::<Rsdp>() *)
  | SL [SA 3; SA 2] => [EvNum 64]                    (* size_of::<FACS>() *)
  | SL [SA 3; SA 3] => [EvNum 100]                   (* size_of::<TpmServer1_2>() *)
  | SL [SA 4; SL l] =>                               (* bytes.extend_from_slice(field_name.as_bytes()) *)
      match sx_nums l with Some b => [EvBytes b] | None => [EvPanic] end
  | SL [SA 5; SL l] =>
      match sx_nums l with
      | Some b => match isa_bytes b with Some e => [EvBytes e] | None => [EvPanic] end
      | None => [EvPanic]
      end
  | _ => [EvPanic]
  end.
