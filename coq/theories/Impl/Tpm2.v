(* Impl model of tpm2.rs: TpmClient1_2, TpmServer1_2 (builder chain), Tpm2 (incremental set_log_area) *)
From Coq Require Import NArith List Bool.
From ACPI Require Import Lib.Bytes Lib.Sx Lib.Machine Impl.Checksum Impl.Table Impl.Fields Impl.Run Impl.Madt.
Import ListNotations.
Open Scope N_scope.

Definition TCPA : list N := [84; 67; 80; 65].
Definition TPM2_SIG : list N := [84; 80; 77; 50].

(* ================= TpmClient1_2 { header, log_area_min_len: u32, log_area_start_addr: u64 } ================= *)
Record tpmclient := { tc_hdr : hdr; tc_len : N; tc_cks : N; tc_laml : N; tc_lasa : N }.

(* to_aml_bytes: header, sink.word(PlatformClass::Client as u16), sink.dword(laml), sink.qword(lasa) *)
Definition tpmclient_bytes (s : tpmclient) : list N :=
  hdr_bytes (tc_hdr s) (tc_len s) (tc_cks s) ++ w2 0 ++ d4 (tc_laml s) ++ q8 (tc_lasa s).

(* new: header { "TCPA", length 50, revision 2 }; cksum.append(header); cksum.append(laml.as_bytes());
   cksum.append(lasa.as_bytes()) -- the platform class word is not fed to the checksum *)
Definition tpmclient_new (c : sx) : option tpmclient :=
  match c with
  | SL [o; t; r; SA laml; SA lasa] =>
      do h <- sx_hdr TCPA 2 o t r;
      let ck := ck_append (ck_append (ck_append 0 (hdr_bytes h 50 0)) (d4 laml)) (q8 lasa) in
      Some {| tc_hdr := h; tc_len := 50; tc_cks := ck_value ck; tc_laml := laml; tc_lasa := lasa |}
  | _ => None
  end.

Definition tpmclient_step (md : mode) (s : tpmclient) (o : sx) : option (tpmclient * list ev) := None.

Definition tpmclient_case (md : mode) (c : sx) : list ev :=
  run_history (fun s => Some (tpmclient_bytes s)) (tpmclient_step md) tpmclient_new c.

(* ================= TpmServer1_2 (packed, 100 bytes) ================= *)
(* fields after the header, in declaration order:
   0 platform_class(2) 1 _reserved0(2) 2 log_area_min_len(8) 3 log_area_start_addr(8) 4,5 tcg_spec_rev_bcd[2]
   6 device_flags 7 interrupt_flags 8 gpe 9,10,11 _reserved1[3] 12 gsi(4)
   13..17 base_addr: GAS { address_space_id, register_bit_width, register_bit_offset, access_size, address(8) }
   18 _reserved2(4) 19..23 tpm_config_addr: GAS 24 pci_segment 25 pci_bus 26 pci_device 27 pci_function *)
Definition tpmserver_body0 : flds :=
  [F 2 1; F 2 0; F 8 0; F 8 0; F 1 1; F 1 2; F 1 0; F 1 0; F 1 0; F 1 0; F 1 0; F 1 0; F 4 0;
   F 1 0; F 1 0; F 1 0; F 1 0; F 8 0; F 4 0; F 1 0; F 1 0; F 1 0; F 1 0; F 8 0; F 1 0; F 1 0; F 1 0; F 1 0].

Record tpmserver := { sv_hdr : hdr; sv_cks : N; sv_body : flds }.

(* as_bytes() with a given checksum byte *)
Definition tpmserver_bytes_ck (s : tpmserver) (cks : N) : list N :=
  hdr_bytes (sv_hdr s) 100 cks ++ ser_flds (sv_body s).
Definition tpmserver_bytes (s : tpmserver) : list N := tpmserver_bytes_ck s (sv_cks s).

(* new: header { "TCPA", length 100, revision 2 }; cksum.append(header); cksum.append((Server as u16).as_bytes());
   cksum.append(&tcg_spec_rev_bcd); everything else Default (zero) *)
Definition tpmserver_new (c : sx) : option tpmserver :=
  match c with
  | SL [o; t; r] =>
      do h <- sx_hdr TCPA 2 o t r;
      let ck := ck_append (ck_append (ck_append 0 (hdr_bytes h 100 0)) (w2 1)) [1; 2] in
      Some {| sv_hdr := h; sv_cks := ck_value ck; sv_body := tpmserver_body0 |}
  | _ => None
  end.

(* update_header: self.header.checksum = 0; self.header.checksum = generate_checksum(self.as_bytes()) *)
Definition tpmserver_update (s : tpmserver) (body : flds) : tpmserver :=
  let s0 := {| sv_hdr := sv_hdr s; sv_cks := 0; sv_body := body |} in
  {| sv_hdr := sv_hdr s; sv_cks := generate_checksum (tpmserver_bytes s0); sv_body := body |}.

Definition set_gas (f : flds) (i : nat) (sp wd off acc addr : N) : flds :=
  fset (fset (fset (fset (fset f i sp) (i + 1) wd) (i + 2) off) (i + 3) acc) (i + 4) addr.

(* the field updates of each builder (before its update_header) *)
Definition tpmserver_builder (f : flds) (o : sx) : option flds :=
  match o with
  | SL [SA 1; SA laml; SA lasa] => Some (fset (fset f 2 laml) 3 lasa)                (* log_area *)
  | SL [SA 2] => Some (f_or f 7 2)                                                   (* active_low *)
  | SL [SA 3] => Some (f_or f 7 1)                                                   (* edge_triggered *)
  | SL [SA 4; SA gpe] => Some (f_or (fset f 8 gpe) 7 4)                              (* sci_gpe *)
  | SL [SA 5; SA gsi] => Some (f_or (fset f 12 gsi) 7 8)                             (* gsi *)
  | SL [SA 6] => Some (f_or f 6 2)                                                   (* bus_is_pnp *)
  | SL [SA 7; SA seg; SA bus; SA dev; SA fn] =>                                      (* pci_sbdf: asserts first *)
      do _ <- pci_ok dev fn;
      Some (f_or (fset (fset (fset (fset f 24 seg) 25 bus) 26 dev) 27 fn) 6 1)
  | SL [SA 8; SA sp; SA wd; SA off; SA acc; SA addr] => Some (set_gas f 13 sp wd off acc addr)          (* base_addr *)
  | SL [SA 9; SA sp; SA wd; SA off; SA acc; SA addr] => Some (set_gas (f_or f 6 4) 19 sp wd off acc addr) (* config_addr *)
  | _ => None
  end.

Definition tpmserver_step (md : mode) (s : tpmserver) (o : sx) : option (tpmserver * list ev) :=
  do f <- tpmserver_builder (sv_body s) o;
  Some (tpmserver_update s f, [EvNum 0]).

Definition tpmserver_case (md : mode) (c : sx) : list ev :=
  run_history (fun s => Some (tpmserver_bytes s)) (tpmserver_step md) tpmserver_new c.

(* ================= Tpm2 ================= *)
Record tpm2 := {
  t2_hdr : hdr; t2_len : N; t2_hck : N;      (* header, header.length, header.checksum *)
  t2_ck : N;                                  (* the running Checksum *)
  t2_class : N; t2_base : N; t2_sm : N;       (* platform_class as u16, crb_or_fifo_base, start_method as u32 *)
  t2_params : list N; t2_plen : nat;          (* start_method_params: [u8; 12], start_method_param_len *)
  t2_laml : option N; t2_lasa : option N }.

Definition opt_bytes (w : nat) (o : option N) : list N := match o with Some v => le w v | None => [] end.

Definition tpm2_bytes (s : tpm2) : list N :=
  hdr_bytes (t2_hdr s) (t2_len s) (t2_hck s) ++ w2 (t2_class s) ++ w2 0 ++ q8 (t2_base s) ++ d4 (t2_sm s)
  ++ firstn (t2_plen s) (t2_params s) ++ opt_bytes 4 (t2_laml s) ++ opt_bytes 8 (t2_lasa s).

(* enum arguments: PlatformClass 0 Client | 1 Server; StartMethod by its discriminant 1 2 6 7 8 11 12 *)
Definition platform_class_ok (c : N) : bool := c <? 2.
Definition start_method_ok (m : N) : bool :=
  match m with 1 | 2 | 6 | 7 | 8 | 11 | 12 => true | _ => false end.

(* new: header { "TPM2", length 52, revision 1 }; cksum.append(header); append((class as u16)); append(base); append((sm as u32)) *)
Definition tpm2_new (c : sx) : option tpm2 :=
  match c with
  | SL [o; t; r; SA cls; SA base; SA sm] =>
      do h <- sx_hdr TPM2_SIG 1 o t r;
      do _ <- assert (platform_class_ok cls && start_method_ok sm);
      let ck := ck_append (ck_append (ck_append (ck_append 0 (hdr_bytes h 52 0)) (w2 cls)) (q8 base)) (d4 sm) in
      Some {| t2_hdr := h; t2_len := 52; t2_hck := ck_value ck; t2_ck := ck; t2_class := cls; t2_base := base; t2_sm := sm;
              t2_params := repeatN 0 12; t2_plen := 0; t2_laml := None; t2_lasa := None |}
  | _ => None
  end.

(* set_log_area(min_len: u32, base_addr: u64): assert!(old_len == 52); new_len = old_len + 24;
   checksum.delete(old_len); append(new_len); append(min_len); append(base_addr); header.checksum = checksum.value();
   start_method_param_len = 12; log_area_* = Some(..) *)
Definition tpm2_step (md : mode) (s : tpm2) (o : sx) : option (tpm2 * list ev) :=
  match o with
  | SL [SA 1; SA laml; SA lasa] =>
      let old_len := t2_len s in
      do _ <- assert (old_len =? 52);
      do new_len <- add_m md U32 old_len 24;
      let ck := fold_left ck_step [CkDelete (d4 old_len); CkAppend (d4 new_len); CkAppend (d4 laml); CkAppend (q8 lasa)] (t2_ck s) in
      Some ({| t2_hdr := t2_hdr s; t2_len := new_len; t2_hck := ck_value ck; t2_ck := ck; t2_class := t2_class s;
               t2_base := t2_base s; t2_sm := t2_sm s; t2_params := t2_params s; t2_plen := 12;
               t2_laml := Some laml; t2_lasa := Some lasa |}, [EvNum 0])
  | _ => None
  end.

Definition tpm2_case (md : mode) (c : sx) : list ev :=
  run_history (fun s => Some (tpm2_bytes s)) (tpm2_step md) tpm2_new c.
