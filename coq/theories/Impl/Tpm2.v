(* STUB: Impl model of tpm2.rs -- to be written *)
From Coq Require Import NArith List.
From ACPI Require Import Lib.Bytes Lib.Sx Lib.Machine Impl.Checksum Impl.Table Impl.Fields Impl.Run.
Import ListNotations.
Definition tpm2_case (md : mode) (c : sx) : list ev := [EvPanic].
Definition tpmserver_case (md : mode) (c : sx) : list ev := [EvPanic].
Definition tpmclient_case (md : mode) (c : sx) : list ev := [EvPanic].
