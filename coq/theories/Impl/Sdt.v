(* Impl model of sdt.rs: the user-defined generic table `Sdt` (a Vec<u8> with self-maintaining header).
   Case vocabulary (component 31):
     ctor (sig4 length revision oem6 tbl8 oem_revision)
     ops  1                     observation: as_slice()
          (1 w v)               append::<u8|u16|u32|u64>(v)       w = 1 2 4 8
          (2 bytes)             append_slice(bytes)
          (3 off bytes)         write_bytes(off, bytes)
          (4 w off v)           write_u8/16/32/64(off, v)
          (5 w v)               AmlSink::byte/word/dword/qword(v) w = 1 2 4 8
          (6 bytes)             AmlSink::vec(bytes)
          (7)                   update_checksum()
     Every op reports one number: 0 = performed, 1 = refused (the call panicked; the harness catches it and goes on
     with the same table, which must be unchanged). *)
From Coq Require Import NArith List Bool.
From ACPI Require Import Lib.Bytes Lib.Sx Lib.Machine Impl.Checksum Impl.Table Impl.Fields Impl.Run.
Import ListNotations.
Open Scope N_scope.

(* update_checksum: data[9] = 0; data[9] = generate_checksum(data) *)
Definition sdt_update_checksum (data : list N) : list N :=
  let z := upd data 9 0 in upd z 9 (generate_checksum z).

(* write_bytes(offset, bytes): assert!(offset + len <= data.len()); copy; update_checksum.
   None = refused (before any mutation). In release the usize sum may wrap; the slice indexing then refuses. *)
Definition sdt_write_bytes (md : mode) (data : list N) (off : N) (bytes : list N) : option (list N) :=
  do e <- add_m md U64 off (N.of_nat (length bytes));
  do _ <- assert (e <=? N.of_nat (length data));
  do _ <- assert (off <=? e);
  Some (sdt_update_checksum (write_at data (N.to_nat off) bytes)).

(* append<T>(value): resize(new_length, 0); write_u32(4, new_length as u32); write(orig_length, value) *)
Definition sdt_append (md : mode) (data : list N) (w : nat) (v : N) : option (list N) :=
  let orig := length data in
  let d1 := data ++ repeatN 0 w in
  do d2 <- sdt_write_bytes md d1 4 (d4 (N.of_nat (orig + w)));
  sdt_write_bytes md d2 (N.of_nat orig) (le w v).

(* append_slice(bytes): write_u32(4, new_length as u32); extend_from_slice; update_checksum *)
Definition sdt_append_slice (md : mode) (data : list N) (bytes : list N) : option (list N) :=
  do d1 <- sdt_write_bytes md data 4 (d4 (N.of_nat (length data + length bytes)));
  Some (sdt_update_checksum (d1 ++ bytes)).

(* impl AmlSink for Sdt: byte(b) = append(b); word/dword/qword/vec fall back to byte per byte *)
Fixpoint sdt_sink_vec (md : mode) (data : list N) (bytes : list N) : option (list N) :=
  match bytes with
  | [] => Some data
  | b :: r => do d <- sdt_append md data 1 b; sdt_sink_vec md d r
  end.

Definition sdt_new (c : sx) : option (list N) :=
  match c with
  | SL [sg; SA len; SA rev; o; t; SA orev] =>
      do sig <- sx_arr 4 sg; do oem <- sx_arr 6 o; do tb <- sx_arr 8 t;
      do _ <- assert (36 <=? len);
      let hdr := sig ++ d4 len ++ [cast U8 rev] ++ [0] ++ oem ++ tb ++ d4 orev ++ CREATOR_ID ++ CREATOR_REVISION in
      Some (sdt_update_checksum (hdr ++ repeatN 0 (N.to_nat (cast U32 len) - 36)))
  | _ => None
  end.

Definition width_ok (w : N) : option nat :=
  match w with 1 => Some 1%nat | 2 => Some 2%nat | 4 => Some 4%nat | 8 => Some 8%nat | _ => None end.

(* the effect of one op: Some (Some d) performed, Some None refused, None = malformed case *)
Definition sdt_op (md : mode) (data : list N) (o : sx) : option (option (list N)) :=
  match o with
  | SL [SA 1; SA w; SA v] => do k <- width_ok w; Some (sdt_append md data k v)
  | SL [SA 2; b] => do bytes <- sx_bytes b; Some (sdt_append_slice md data bytes)
  | SL [SA 3; SA off; b] => do bytes <- sx_bytes b; Some (sdt_write_bytes md data off bytes)
  | SL [SA 4; SA w; SA off; SA v] => do k <- width_ok w; Some (sdt_write_bytes md data off (le k v))
  | SL [SA 5; SA w; SA v] => do k <- width_ok w; Some (sdt_sink_vec md data (le k v))
  | SL [SA 6; b] => do bytes <- sx_bytes b; Some (sdt_sink_vec md data bytes)
  | SL [SA 7] => Some (Some (sdt_update_checksum data))
  | _ => None
  end.

Definition sdt_step (md : mode) (data : list N) (o : sx) : option (list N * list ev) :=
  match sdt_op md data o with
  | Some (Some d) => Some (d, [EvNum 0])
  | Some None => Some (data, [EvNum 1])
  | None => None
  end.

Definition sdt_case (md : mode) (c : sx) : list ev :=
  run_history (fun d => Some d) (sdt_step md) sdt_new c.
