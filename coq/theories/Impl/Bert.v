(* Impl model of bert.rs *)
From Coq Require Import NArith List Bool.
From ACPI Require Import Lib.Bytes Lib.Sx Lib.Machine Impl.Checksum Impl.Table Impl.Fields Impl.Run Impl.Madt.
Import ListNotations.
Open Scope N_scope.

(* struct BERT { header: TableHeader, error_region_length: U32, error_region_base: U64 } (packed);
   header.length and header.checksum are kept beside the constant header fields *)
Record bert := { be_hdr : hdr; be_len : N; be_cks : N; be_rlen : N; be_rbase : N }.

(* as_bytes() *)
Definition bert_bytes (b : bert) : list N :=
  hdr_bytes (be_hdr b) (be_len b) (be_cks b) ++ d4 (be_rlen b) ++ q8 (be_rbase b).

(* BERT::new: header { "BERT", length = 36 + 12, revision 1, checksum 0 }; cksum.append(bert.as_bytes());
   bert.header.checksum = cksum.value() *)
Definition bert_new (c : sx) : option bert :=
  match c with
  | SL [o; t; r; SA rlen; SA rbase] =>
      do h <- sx_hdr [66; 69; 82; 84] 1 o t r;          (* "BERT" *)
      let b0 := {| be_hdr := h; be_len := 36 + 12; be_cks := 0; be_rlen := rlen; be_rbase := rbase |} in
      let ck := ck_append 0 (bert_bytes b0) in
      Some {| be_hdr := h; be_len := 36 + 12; be_cks := ck_value ck; be_rlen := rlen; be_rbase := rbase |}
  | _ => None
  end.

(* no public mutating operation *)
Definition bert_step (md : mode) (b : bert) (o : sx) : option (bert * list ev) := None.

Definition bert_case (md : mode) (c : sx) : list ev :=
  run_history (fun b => Some (bert_bytes b)) (bert_step md) bert_new c.
