(* Impl model of fadt.rs (uses gas.rs).  Case vocabulary: see Spec/FadtS.v.
   FADTBuilder is one #[repr(C, packed)] struct of 276 bytes (header fields included), Copy; the builder methods assign
   fields; its fields are `pub` (except _reserved0 / _reserved1) and callers also assign them directly
   (`b.sci_int = 9.into()`, `b.reset_reg = GAS::new(..)`); finalize() zeroes the checksum byte, computes generate_checksum
   over as_bytes() and stores it.
   The state of a history is the FADTBuilder value; an observation finalizes a copy and serialises the resulting FADT. *)
From Coq Require Import NArith List Bool.
From ACPI Require Import Lib.Bytes Lib.Sx Lib.Machine Impl.Checksum Impl.Table Impl.Fields Impl.Run Impl.Madt Impl.Gas.
Import ListNotations.
Open Scope N_scope.

(* field indices ([u8; K] fields are one field per byte, a GAS is its five fields):
   0..3 signature  4 length  5 major_version  6 checksum  7..12 oem_id  13..20 oem_table_id  21 oem_revision
   22..25 creator_id  26..29 creator_revision  30 firmware_ctrl  31 dsdt  32 _reserved0  33 preferred_pm_profile
   34 sci_int  35 smi_cmd  36 acpi_enable  37 acpi_disable  38 s4bios_req  39 pstate_cnt  40 pm1a_evt_blk  41 pm1b_evt_blk
   42 pm1a_cnt_blk  43 pm1b_cnt_blk  44 pm2_cnt_blk  45 pm_tmr_blk  46 gpe0_blk  47 gpe1_blk  48 pm1_evt_len  49 pm1_cnt_len
   50 pm2_cnt_len  51 pm_tmr_len  52 gpe0_blk_len  53 gpe1_blk_len  54 gpe1_base  55 cst_cnt  56 p_lvl2_lat  57 p_lvl3_lat
   58 flush_size  59 flush_stride  60 duty_offset  61 duty_width  62 day_alrm  63 mon_alrm  64 century  65 iapc_boot_arch
   66 _reserved1  67 flags  68..72 reset_reg  73 reset_value  74 arm_boot_arch  75 fadt_minor_version  76 x_firmware_ctrl
   77 x_dsdt  78..82 x_pm1a_evt_blk  83..87 x_pm1b_evt_blk  88..92 x_pm1a_cnt_blk  93..97 x_pm1b_cnt_blk  98..102 x_pm2_cnt_blk
   103..107 x_pm_tmr_blk  108..112 x_gpe0_blk  113..117 x_gpe1_blk  118..122 sleep_control_reg  123..127 sleep_status_reg
   128 hypervisor_vendor_identity *)
Definition I_LENGTH := 4%nat.
Definition I_CHECKSUM := 6%nat.
Definition I_FIRMWARE_CTRL := 30%nat.
Definition I_DSDT := 31%nat.
Definition I_PM_PROFILE := 33%nat.
Definition I_ACPI_ENABLE := 36%nat.
Definition I_ACPI_DISABLE := 37%nat.
Definition I_GPE0_BLK := 46%nat.
Definition I_GPE1_BLK := 47%nat.
Definition I_GPE0_BLK_LEN := 52%nat.
Definition I_GPE1_BLK_LEN := 53%nat.
Definition I_GPE1_BASE := 54%nat.
Definition I_FLAGS := 67%nat.
Definition I_X_FIRMWARE_CTRL := 76%nat.
Definition I_X_DSDT := 77%nat.

(* FADT::len() = size_of::<FADTBuilder>() *)
Definition FADT_LEN : N := 276.

(* FADTBuilder::new: signature, versions, creator, length, oem fields; ..Default::default() *)
Definition fadt_new_flds (oem tbl : list N) (orev : N) : flds :=
  fbytes [70; 65; 67; 80]                                   (* b"FACP" *)
  ++ [F 4 FADT_LEN; F 1 6; F 1 0] ++ fbytes oem ++ fbytes tbl ++ [F 4 orev] ++ fbytes CREATOR_ID ++ fbytes CREATOR_REVISION
  ++ [F 4 0; F 4 0; F 1 0; F 1 0; F 2 0; F 4 0; F 1 0; F 1 0; F 1 0; F 1 0;
      F 4 0; F 4 0; F 4 0; F 4 0; F 4 0; F 4 0; F 4 0; F 4 0;
      F 1 0; F 1 0; F 1 0; F 1 0; F 1 0; F 1 0; F 1 0; F 1 0;
      F 2 0; F 2 0; F 2 0; F 2 0; F 1 0; F 1 0; F 1 0; F 1 0; F 1 0; F 2 0; F 1 0; F 4 0]
  ++ gas_default ++ [F 1 0; F 2 0; F 1 5; F 8 0; F 8 0]
  ++ gas_default ++ gas_default ++ gas_default ++ gas_default ++ gas_default
  ++ gas_default ++ gas_default ++ gas_default ++ gas_default ++ gas_default
  ++ [F 8 0].

Definition fadt_new (c : sx) : option flds :=
  match c with
  | SL [o; t; r] =>
      do oem <- sx_arr 6 o; do tb <- sx_arr 8 t; do orev <- sx_num r;
      Some (fadt_new_flds oem tb orev)
  | _ => None
  end.

(* the 25 values of enum Flags in declaration order: Wbinvd = 1 << 0 ... LowPowerS0IdleCapable = 1 << 21,
   PersistentCpuCachesNotReported = 0 << 22, PersistentCpuCachesNotPersistent = 1 << 22, PersistentCpuCachesArePersistent = 2 << 22 *)
Definition flag_bits (i : N) : option N :=
  if i <=? 21 then Some (N.shiftl 1 i)
  else match i with
       | 22 => Some (N.shiftl 0 22)
       | 23 => Some (N.shiftl 1 22)
       | 24 => Some (N.shiftl 2 22)
       | _ => None
       end.

(* direct assignment of a public scalar field, `b.<field> = (v as uN).into()`: (field index, width in bytes = size of the
   field's type) of the k-th `pub` integer field after the header, in declaration order:
   firmware_ctrl dsdt preferred_pm_profile sci_int smi_cmd acpi_enable acpi_disable s4bios_req pstate_cnt pm1a_evt_blk
   pm1b_evt_blk pm1a_cnt_blk pm1b_cnt_blk pm2_cnt_blk pm_tmr_blk gpe0_blk gpe1_blk pm1_evt_len pm1_cnt_len pm2_cnt_len
   pm_tmr_len gpe0_blk_len gpe1_blk_len gpe1_base cst_cnt p_lvl2_lat p_lvl3_lat flush_size flush_stride duty_offset duty_width
   day_alrm mon_alrm century iapc_boot_arch flags reset_value arm_boot_arch fadt_minor_version x_firmware_ctrl x_dsdt
   hypervisor_vendor_identity *)
Definition FADT_ASSIGNABLE : list (nat * nat) :=
  [(30, 4); (31, 4); (33, 1); (34, 2); (35, 4); (36, 1); (37, 1); (38, 1); (39, 1); (40, 4);
   (41, 4); (42, 4); (43, 4); (44, 4); (45, 4); (46, 4); (47, 4); (48, 1); (49, 1); (50, 1);
   (51, 1); (52, 1); (53, 1); (54, 1); (55, 1); (56, 2); (57, 2); (58, 2); (59, 2); (60, 1); (61, 1);
   (62, 1); (63, 1); (64, 1); (65, 2); (67, 4); (73, 1); (74, 2); (75, 1); (76, 8); (77, 8);
   (128, 8)]%nat.

(* the value is converted to the field's type first (`v as uN`) *)
Definition fadt_assign_m (f : flds) (k v : N) : option flds :=
  match nth_error FADT_ASSIGNABLE (N.to_nat k) with
  | Some (i, w) => Some (fset f i (v mod 2 ^ (8 * N.of_nat w)))
  | None => None
  end.

(* direct assignment of a GAS-typed public field, `b.<field> = GAS::new(space, width, offset, access, addr)`: index of the
   first of the five fields of the g-th GAS in declaration order:
   reset_reg x_pm1a_evt_blk x_pm1b_evt_blk x_pm1a_cnt_blk x_pm1b_cnt_blk x_pm2_cnt_blk x_pm_tmr_blk x_gpe0_blk x_gpe1_blk
   sleep_control_reg sleep_status_reg *)
Definition FADT_GAS_FIELDS : list nat := [68; 78; 83; 88; 93; 98; 103; 108; 113; 118; 123]%nat.

Definition fadt_assign_gas_m (f : flds) (g sp bw bo ac addr : N) : option flds :=
  match nth_error FADT_GAS_FIELDS (N.to_nat g) with
  | Some i => Some (fset_seq f i (fvals (gas_new sp bw bo ac addr)))
  | None => None
  end.

(* the nine builder methods; the direct assignments *)
Definition fadt_builder (f : flds) (o : sx) : option flds :=
  match o with
  | SL [SA 1; SA x] => Some (fset (fset f I_DSDT x) I_X_DSDT 0)                                 (* dsdt_32 *)
  | SL [SA 2; SA x] => Some (fset (fset f I_DSDT 0) I_X_DSDT x)                                 (* dsdt_64 *)
  | SL [SA 3; SA x] => Some (fset (fset f I_FIRMWARE_CTRL x) I_X_FIRMWARE_CTRL 0)               (* firmware_ctrl_32 *)
  | SL [SA 4; SA x] => Some (fset (fset f I_FIRMWARE_CTRL 0) I_X_FIRMWARE_CTRL x)               (* firmware_ctrl_64 *)
  | SL [SA 5] => Some (fset (fset f I_ACPI_ENABLE 1) I_ACPI_DISABLE 0)                          (* acpi_enable *)
  | SL [SA 6] => Some (fset (fset f I_ACPI_ENABLE 0) I_ACPI_DISABLE 1)                          (* acpi_disable *)
  | SL [SA 7; SA i] => do b <- flag_bits i; Some (f_or f I_FLAGS b)                             (* flag(Flags): flags |= bits *)
  | SL [SA 8; SA g0; SA g1; SA l0; SA l1; SA base] =>                                            (* gpe_info *)
      Some (fset (fset (fset (fset (fset f I_GPE0_BLK g0) I_GPE1_BLK g1) I_GPE0_BLK_LEN l0) I_GPE1_BLK_LEN l1) I_GPE1_BASE base)
  | SL [SA 9; SA p] => if p <=? 8 then Some (fset f I_PM_PROFILE p) else None                   (* preferred_pm_profile(PmProfile) *)
  | SL [SA 10; SA k; SA v] => fadt_assign_m f k v                                               (* b.<field k> = v *)
  | SL [SA 11; SA g; SA sp; SA bw; SA bo; SA ac; SA addr] => fadt_assign_gas_m f g sp bw bo ac addr   (* b.<gas g> = GAS::new(..) *)
  | _ => None
  end.

(* finalize: self.checksum = 0; self.checksum = generate_checksum(self.as_bytes()) *)
Definition fadt_finalize (f : flds) : flds :=
  let f0 := fset f I_CHECKSUM 0 in
  fset f0 I_CHECKSUM (generate_checksum (ser_flds f0)).

(* impl Aml for FADT: sink.vec(self.table.as_bytes()) *)
Definition fadt_image (f : flds) : list N := ser_flds (fadt_finalize f).

Definition fadt_step (md : mode) (f : flds) (o : sx) : option (flds * list ev) :=
  do f' <- fadt_builder f o; Some (f', [EvNum 0]).

Definition fadt_case (md : mode) (c : sx) : list ev :=
  run_history (fun f => Some (fadt_image f)) (fadt_step md) fadt_new c.
