(* Impl model of the machinery shared by the incrementally maintained tables:
   the 36-byte TableHeader, the running Checksum, the u32 length, entry counts and handle offsets.
   Every table module keeps (header, checksum, entries[, handle_offset]); `update_header` performs
   delta arithmetic on the running checksum.  The deltas are kept here as lists of Checksum operations
   in the order the Rust code performs them. *)
From Coq Require Import NArith List Bool.
From ACPI Require Import Lib.Bytes Lib.Sx Lib.Machine Impl.Checksum.
Import ListNotations.
Open Scope N_scope.

Record hdr := { h_sig : list N; h_rev : N; h_oem : list N; h_tbl : list N; h_orev : N }.

Definition CREATOR_ID : list N := [82; 86; 65; 84].        (* b"RVAT" *)
Definition CREATOR_REVISION : list N := [0; 0; 0; 1].

(* TableHeader.as_bytes() *)
Definition hdr_bytes (h : hdr) (len cks : N) : list N :=
  h_sig h ++ d4 len ++ b1 (h_rev h) ++ b1 cks ++ h_oem h ++ h_tbl h ++ d4 (h_orev h) ++ CREATOR_ID ++ CREATOR_REVISION.

Definition hdr_ok (h : hdr) : bool :=
  Nat.eqb (length (h_sig h)) 4 && Nat.eqb (length (h_oem h)) 6 && Nat.eqb (length (h_tbl h)) 8.

Inductive tkind := KXsdt | KMcfg | KMadt | KSrat | KHmat | KPptt | KRhct | KRimt | KViot | KCedt | KHest.

(* the bytes between the 36-byte header and the first entry, as to_aml_bytes writes them;
   [pre] carries the constructor-supplied part (MADT: address+flags; RHCT: time base) *)
Definition mid (k : tkind) (pre : list N) (cnt : N) : list N :=
  match k with
  | KXsdt | KPptt | KCedt => []
  | KMcfg => q8 0
  | KMadt => pre
  | KSrat => d4 1 ++ q8 0
  | KHmat => d4 0
  | KRhct => d4 0 ++ pre ++ d4 cnt ++ d4 56
  | KRimt => d4 cnt ++ d4 48 ++ d4 0
  | KViot => w2 cnt ++ w2 48 ++ q8 0
  | KHest => d4 cnt
  end.

(* what `new` feeds to the checksum besides the header bytes *)
Definition init_extra (k : tkind) (pre : list N) : list N :=
  match k with
  | KMadt => pre
  | KSrat => [1]
  | KRhct => d4 0 ++ pre ++ d4 0 ++ d4 56
  | KRimt => d4 48
  | KViot => w2 48
  | _ => []
  end.

Record tbl := {
  t_kind : tkind; t_hdr : hdr; t_pre : list N;
  t_len : N;            (* header.length *)
  t_ck : N;             (* the running Checksum *)
  t_hck : N;            (* header.checksum *)
  t_cnt : N;            (* entries.len() / rhct_nodes *)
  t_hoff : N;           (* handle_offset (PPTT, RHCT, RIMT, VIOT) *)
  t_flag : bool;        (* MADT has_imsic *)
  t_rents : list (list N);  (* the serialisation of each pushed entry, most recent first *)
  t_rhandles : list N      (* handle_offset before each add, most recent first (what a returned handle holds) *)
}.

Definition t_ents (s : tbl) : list (list N) := frev (t_rents s).          (* entries in insertion order *)
Definition t_handles (s : tbl) : list N := frev (t_rhandles s).           (* handles by operation index *)

Definition t_body (s : tbl) : list N := concat (t_ents s).

(* to_aml_bytes of the table *)
Definition tbl_image (s : tbl) : list N :=
  hdr_bytes (t_hdr s) (t_len s) (t_hck s) ++ mid (t_kind s) (t_pre s) (t_cnt s) ++ t_body s.

Definition tbl_new (k : tkind) (h : hdr) (pre : list N) : tbl :=
  let len := 36 + N.of_nat (length (mid k pre 0)) in
  let ck := ck_append (ck_append 0 (hdr_bytes h len 0)) (init_extra k pre) in
  {| t_kind := k; t_hdr := h; t_pre := pre; t_len := len; t_ck := ck; t_hck := ck_value ck; t_cnt := 0;
     t_hoff := len; t_flag := false; t_rents := []; t_rhandles := [] |}.

(* how the entry's byte sum reaches the checksum: checksum.add(u8sum(&e)) or checksum.append(e.as_bytes()) *)
Inductive sumstyle := SumAdd | SumAppend.

Definition sum_op (st : sumstyle) (bytes : list N) : ckop :=
  match st with SumAdd => CkAdd (sum8 bytes) | SumAppend => CkAppend bytes end.

(* the Checksum operations of one update_header call, in source order *)
Definition upd_ops (k : tkind) (st : sumstyle) (old_len new_len cnt : N) (bytes : list N) : list ckop :=
  let len_ops := [CkDelete (d4 old_len); CkAppend (d4 new_len)] in
  match k with
  | KRhct => [CkDelete (d4 cnt); CkAppend (d4 (cnt + 1))] ++ len_ops ++ [sum_op st bytes]
  | KRimt | KHest => len_ops ++ [sum_op st bytes; CkDelete (d4 cnt); CkAppend (d4 (cnt + 1))]
  | KViot => len_ops ++ [sum_op st bytes; CkDelete (w2 cnt); CkAppend (w2 ((cnt + 1) mod U16))]
  | _ => len_ops ++ [sum_op st bytes]
  end.

Definition has_count (k : tkind) : bool :=
  match k with KRhct | KRimt | KViot | KHest => true | _ => false end.

(* one add_*: [claimed] is the length the code believes the entry has (its hand-written len()),
   [bytes] what the entry really serialises to.  Returns the new state and the handle (old offset). *)
Definition tbl_add (md : mode) (s : tbl) (st : sumstyle) (claimed : N) (bytes : list N) : option (tbl * N) :=
  let k := t_kind s in
  do new_len <- add_c U32 (cast U32 claimed) (t_len s);           (* old_len.checked_add(len).expect(..): both profiles *)
  do new_cnt <- (match k with
                 | KViot => Some ((t_cnt s + 1) mod U16)          (* nodes.len() as u16 *)
                 | KRhct => add_m md U32 (t_cnt s) 1
                 | _ => Some (t_cnt s + 1)
                 end);
  do new_hoff <- (match k with
                  | KViot => add_c U16 (t_hoff s) (cast U16 claimed)
                  | KPptt | KRhct => add_m md U32 (t_hoff s) (cast U32 claimed)
                  | _ => Some (t_hoff s + claimed)
                  end);
  let ck := fold_left ck_step (upd_ops k st (t_len s) new_len (t_cnt s) bytes) (t_ck s) in
  Some ({| t_kind := k; t_hdr := t_hdr s; t_pre := t_pre s; t_len := new_len; t_ck := ck; t_hck := ck_value ck;
           t_cnt := new_cnt; t_hoff := new_hoff; t_flag := t_flag s; t_rents := bytes :: t_rents s;
           t_rhandles := t_hoff s :: t_rhandles s |},
        t_hoff s).

Definition set_flag (s : tbl) (b : bool) : tbl :=
  {| t_kind := t_kind s; t_hdr := t_hdr s; t_pre := t_pre s; t_len := t_len s; t_ck := t_ck s; t_hck := t_hck s;
     t_cnt := t_cnt s; t_hoff := t_hoff s; t_flag := b; t_rents := t_rents s; t_rhandles := t_rhandles s |}.

(* what one public add operation amounts to: how its sum reaches the checksum, the length the code claims,
   the bytes the entry serialises to, whether the API returns the handle, and the new value of the flag *)
Record addition := { a_style : sumstyle; a_claimed : N; a_bytes : list N; a_returns : bool; a_flag : bool }.

(* every successful operation reports exactly one number: the returned handle, or 0 when the API returns nothing *)
(* a table whose operations are all additions: [entry s o] = None when the operation panics before touching the table *)
Definition add_step (entry : tbl -> sx -> option addition) (md : mode) (s : tbl) (o : sx) : option (tbl * list ev) :=
  do e <- entry s o;
  do r <- tbl_add md s (a_style e) (a_claimed e) (a_bytes e);
  Some (set_flag (fst r) (a_flag e), [EvNum (if a_returns e then snd r else 0)]).

(* resolve a handle reference (h k): the handle returned by the k-th operation *)
Definition handle_ref (s : tbl) (x : sx) : option N :=
  match x with
  | SL [SA 104; SA k] => nth_error (t_handles s) (N.to_nat k)     (* 104 = 'h' *)
  | SA v => Some v                                                 (* a raw offset *)
  | _ => None
  end.
