(* Impl model of spcr.rs *)
From Coq Require Import NArith List Bool.
From ACPI Require Import Lib.Bytes Lib.Sx Lib.Machine Impl.Checksum Impl.Table Impl.Fields Impl.Run Impl.Madt.
Import ListNotations.
Open Scope N_scope.

Definition EMPTY_NAMESPACE : list N := [46; 0].       (* [b'.', 0] *)

(* SerialPortInfo::sbi() (packed, 52 bytes), fields in declaration order; gas::GAS::default() is all zero *)
Definition serial_port_info_sbi : flds :=
  [F 1 0x15;                          (* interface_type = RiscvSbi *)
   F 1 0; F 1 0; F 1 0;               (* reserved0 *)
   F 1 0; F 1 0; F 1 0; F 1 0; F 8 0; (* base_address: GAS { space, bit width, bit offset, access size, address } *)
   F 1 0; F 1 0; F 4 0;               (* interrupt_type, irq, gsi *)
   F 1 0; F 1 0; F 1 0; F 1 0; F 1 0; F 1 0;   (* baud_rate parity stop_bits flow_control terminal_type language *)
   F 2 0xffff; F 2 0xffff;            (* pci_device_id, pci_vendor_id *)
   F 1 0; F 1 0; F 1 0; F 4 0; F 1 0; (* pci_bus pci_device pci_function pci_flags pci_segment *)
   F 4 0; F 4 0;                      (* clock_frequency precise_baud *)
   F 2 2;                             (* namespace_string_len *)
   F 2 (cast U16 (36 + 52))].         (* namespace_string_offset = (TableHeader::len() + Self::len()) as u16 *)

Record spcr := { sp_hdr : hdr; sp_len : N; sp_cks : N; sp_info : flds; sp_ns : list N }.

(* to_aml_bytes: header.as_bytes(), info.as_bytes(), namespace_string *)
Definition spcr_bytes (s : spcr) : list N :=
  hdr_bytes (sp_hdr s) (sp_len s) (sp_cks s) ++ ser_flds (sp_info s) ++ sp_ns s.

(* SPCR::sbi: header { "SPCR", length = (36 + 52 + 2) as u32, revision 4 };
   cksum.append(header); cksum.append(sbi.as_bytes()); cksum.append(&EMPTY_NAMESPACE) *)
Definition spcr_new (c : sx) : option spcr :=
  match c with
  | SL [o; t; r] =>
      do h <- sx_hdr [83; 80; 67; 82] 4 o t r;          (* "SPCR" *)
      let len := cast U32 (36 + 52 + 2) in
      let ck := ck_append (ck_append (ck_append 0 (hdr_bytes h len 0)) (ser_flds serial_port_info_sbi)) EMPTY_NAMESPACE in
      Some {| sp_hdr := h; sp_len := len; sp_cks := ck_value ck; sp_info := serial_port_info_sbi; sp_ns := EMPTY_NAMESPACE |}
  | _ => None
  end.

Definition spcr_step (md : mode) (s : spcr) (o : sx) : option (spcr * list ev) := None.

Definition spcr_case (md : mode) (c : sx) : list ev :=
  run_history (fun s => Some (spcr_bytes s)) (spcr_step md) spcr_new c.
