(* Impl model of the AML object constructors of aml.rs (everything except the kernels of AmlCore.v).
   A term mirrors a tree of crate constructors; [enc] mirrors each to_aml_bytes.  None = the Rust code panics. *)
From Coq Require Import NArith List Bool.
From ACPI Require Import Lib.Bytes Lib.Sx Lib.Machine Impl.AmlCore.
Import ListNotations.
Open Scope N_scope.

(* resource descriptors *)
Inductive desc :=
| DMem32 (rw base len : N)
| DAddr (width : N) (ty : N) (cacheable rw : N) (min max : N) (trans : option N)
    (* AddressSpace<u16|u32|u64>: ty 0 new_memory(cacheable, rw, min, max, trans) 1 new_io(min, max, trans) 2 new_bus_number(min, max) *)
| DIO (min max align len : N)
| DIrq (consumer edge active_low shared number : N)
| DReg (space width offset access addr : N).

Inductive fentry := FNamed (name : list N) (len : N) | FReserved (len : N).

Inductive term :=
| TZero | TOne | TOnes
| TInt (ty n : N)                              (* u8/u16/u32/u64/usize carrier: ty 8 16 32 64 0 *)
| TStr (s : list N)                            (* &'static str and String *)
| TPath (text : list N)                        (* Path::new(text) *)
| TFieldName (s : list N)                      (* Name::new_field_name *)
| TEisa (s : list N) | TUuid (s : list N)
| TBufData (b : list N)
| TArg (n : N) | TLocal (n : N)
| TDesc (d : desc)
| TOp1 (k : N) (a : term)                      (* 0 ObjectType 1 SizeOf 2 Return 3 DeRefOf 4 BufferTerm 5 VarPackageTerm *)
| TOp2 (k : N) (a b : term)                    (* 0..5 Equal LessThan GreaterThan NotEqual GreaterEqual LessEqual (left,right);
                                                  6 Store(name,value) 7 Notify(object,value) 8 ToBuffer(target,a) 9 ToInteger(target,a) *)
| TOp3 (k : N) (target a b : term)             (* the 17 binary_op! constructors, new(target, a, b) *)
| TOp4 (k : N) (a b c d : term)                (* 0 CreateField(name,source,bit_index,bit_num) 1 Mid(source,index,length,result) *)
| TName (path : list N) (inner : term)
| TDevice (path : list N) (kids : list term)
| TScope (path : list N) (kids : list term)
| TScopeRaw (path : list N) (kids : list term) (* Scope::raw(path, pre-serialised children) *)
| TMethod (path : list N) (args serialized : N) (kids : list term)
| TPowerRes (path : list N) (level order : N) (kids : list term)
| TOpRegion (path : list N) (space : N) (offset length : term)
| TMutex (path : list N) (sync : N)
| TAcquire (path : list N) (timeout : N)
| TRelease (path : list N)
| TCall (path : list N) (args : list term)     (* MethodCall *)
| TField (path : list N) (access lock update : N) (entries : list fentry)
| TPackage (kids : list term)
| TPkgBuilder (kids : list term)
| TResTemplate (kids : list term)
| TIf (pred : term) (kids : list term)
| TElse (kids : list term)
| TWhile (pred : term) (kids : list term).

Definition enc_path_text (s : list N) : option (list N) := do p <- path_new s; path_enc p.
Definition enc_string (s : list N) : list N := 0x0D :: s ++ [0].

Definition enc_int (ty n : N) : option (list N) :=
  match ty with
  | 8 => Some (enc_u8 n) | 16 => Some (enc_u16 n) | 32 => Some (enc_u32 n) | 64 => Some (enc_u64 n)
  | 0 => Some (enc_usize n) | _ => None
  end.

Definition enc_desc (d : desc) : option (list N) :=
  match d with
  | DMem32 rw base len => Some ([0x86] ++ w2 9 ++ [rw] ++ d4 base ++ d4 len)
  | DAddr width ty cacheable rw min max trans0 =>
      let tf := match ty with 0 => N.lor (cast U8 (N.shiftl cacheable 1)) rw | 1 => 3 | _ => 0 end in
      let trans := match ty with 2 => None | _ => trans0 end in
      do wd <- (if width =? 16 then Some (0x88, 2%nat, U16) else if width =? 32 then Some (0x87, 4%nat, U32)
                else if width =? 64 then Some (0x8A, 8%nat, U64) else None);
      let '(dcode, w, m) := wd in
      (* max.checked_sub(min).and_then(|l| l.checked_add(1)).expect(..) *)
      do diff <- sub_c max min;
      do len <- add_c m diff 1;
      Some ([dcode] ++ w2 (N.of_nat (3 + 5 * w)) ++ [ty; 0x0C; tf]
            ++ le w 0 ++ le w min ++ le w max ++ le w (match trans with Some t => t | None => 0 end) ++ le w len)
  | DIO min max align len => Some ([0x47; 1] ++ w2 min ++ w2 max ++ [align; len])
  | DIrq consumer edge active_low shared number =>
      let flags := N.lor (N.lor (N.lor (N.shiftl shared 3) (N.shiftl active_low 2)) (N.shiftl edge 1)) consumer in
      Some ([0x89] ++ w2 6 ++ [flags; 1] ++ d4 number)
  | DReg space width offset access addr => Some ([0x82] ++ w2 0x0C ++ [space; width; offset; access] ++ q8 addr)
  end.

Definition enc_fentry (md : mode) (e : fentry) : option (list N) :=
  match e with
  | FNamed name len => do p <- pkg_len md len false; Some (name ++ p)
  | FReserved len => do p <- pkg_len md len false; Some (0 :: p)
  end.

Fixpoint opt_concat_map {A} (f : A -> option (list N)) (l : list A) : option (list N) :=
  match l with
  | [] => Some []
  | x :: r => do a <- f x; do b <- opt_concat_map f r; Some (a ++ b)
  end.

Definition op1_code (k : N) : option (list N) :=
  match k with 0 => Some [0x8E] | 1 => Some [0x87] | 2 => Some [0xA4] | 3 => Some [0x83] | _ => None end.

Definition cmp_code (k : N) : option (list N) :=
  match k with
  | 0 => Some [0x93] | 1 => Some [0x95] | 2 => Some [0x94]
  | 3 => Some [0x92; 0x93] | 4 => Some [0x92; 0x95] | 5 => Some [0x92; 0x94]
  | _ => None
  end.

Definition op3_code (k : N) : option N :=
  nth_error [0x72; 0x73; 0x74; 0x77; 0x79; 0x7A; 0x7B; 0x7C; 0x7D; 0x7E; 0x7F; 0x84; 0x85; 0x88; 0x9C; 0x8A; 0x8F] (N.to_nat k).

Fixpoint enc (md : mode) (t : term) {struct t} : option (list N) :=
  let encs := fix encs (l : list term) : option (list N) :=
                match l with
                | [] => Some []
                | x :: r => do a <- enc md x; do b <- encs r; Some (a ++ b)
                end in
  match t with
  | TZero => Some [0x00] | TOne => Some [0x01] | TOnes => Some [0xFF]
  | TInt ty n => enc_int ty n
  | TStr s => Some (enc_string s)
  | TPath s => enc_path_text s
  | TFieldName s => Some s
  | TEisa s => eisa_enc s
  | TUuid s => uuid_enc md s
  | TBufData b => buffer_data md b
  | TArg n => do _ <- assert (n <=? 6); Some [0x68 + n]
  | TLocal n => do _ <- assert (n <=? 7); Some [0x60 + n]
  | TDesc d => enc_desc d
  | TOp1 k a =>
      do ea <- enc md a;
      match k with
      | 4 => framed md [0x11] ea
      | 5 => framed md [0x13] ea
      | _ => do op <- op1_code k; Some (op ++ ea)
      end
  | TOp2 k a b =>
      do ea <- enc md a; do eb <- enc md b;
      match k with
      | 6 => Some ([0x70] ++ eb ++ ea)                       (* Store: value then name *)
      | 7 => Some ([0x86] ++ ea ++ eb)
      | 8 => Some ([0x96] ++ eb ++ ea)                       (* convert ops: a then target *)
      | 9 => Some ([0x99] ++ eb ++ ea)
      | _ => do op <- cmp_code k; Some (op ++ ea ++ eb)
      end
  | TOp3 k target a b =>
      (* serialisation order a, b, target: a panic in an earlier operand wins, the result is the same None *)
      do ea <- enc md a; do eb <- enc md b; do et <- enc md target;
      do op <- op3_code k; Some ([op] ++ ea ++ eb ++ et)
  | TOp4 k a b c d =>
      do ea <- enc md a; do eb <- enc md b; do ec <- enc md c; do ed <- enc md d;
      match k with
      | 0 => Some ([0x5B; 0x13] ++ eb ++ ec ++ ed ++ ea)     (* CreateField: source, index, num, name *)
      | 1 => Some ([0x9E] ++ ea ++ eb ++ ec ++ ed)
      | _ => None
      end
  | TName path inner => do p <- enc_path_text path; do i <- enc md inner; Some ([0x08] ++ p ++ i)
  | TDevice path kids => do p <- enc_path_text path; do ks <- encs kids; framed md [0x5B; 0x82] (p ++ ks)
  | TScope path kids => do p <- enc_path_text path; do ks <- encs kids; framed md [0x10] (p ++ ks)
  | TScopeRaw path kids =>
      do p <- enc_path_text path; do ks <- encs kids;
      let bytes := [0x10] ++ p ++ ks in
      let n := length bytes in
      do pl <- pkg_len md (N.of_nat (n - 1)) true;
      (* resize(n+m); copy_within(1..n, m+1); [1..m+1] = pkg_length *)
      Some (firstn 1 bytes ++ pl ++ skipn 1 bytes)
  | TMethod path args serialized kids =>
      do p <- enc_path_text path;
      do _ <- assert (args <=? 7);
      let flags := N.lor (N.land args 7) (N.shiftl serialized 3) in
      do ks <- encs kids; framed md [0x14] (p ++ [flags] ++ ks)
  | TPowerRes path level order kids =>
      do p <- enc_path_text path; do ks <- encs kids;
      framed md [0x5B; 0x84] (p ++ [level] ++ w2 order ++ ks)
  | TOpRegion path space offset length =>
      do p <- enc_path_text path; do eo <- enc md offset; do el <- enc md length;
      Some ([0x5B; 0x80] ++ p ++ [space] ++ eo ++ el)
  | TMutex path sync => do p <- enc_path_text path; Some ([0x5B; 0x01] ++ p ++ [sync])
  | TAcquire path timeout => do p <- enc_path_text path; Some ([0x5B; 0x23] ++ p ++ w2 timeout)
  | TRelease path => do p <- enc_path_text path; Some ([0x5B; 0x27] ++ p)
  | TCall path args => do p <- enc_path_text path; do ea <- encs args; Some (p ++ ea)
  | TField path access lock update entries =>
      do p <- enc_path_text path;
      let flags := N.lor (N.lor access (N.shiftl lock 4)) (N.shiftl update 5) in
      do es <- opt_concat_map (enc_fentry md) entries;
      framed md [0x5B; 0x81] (p ++ [flags] ++ es)
  | TPackage kids =>
      do _ <- assert (N.of_nat (length kids) <=? 255);
      do ks <- encs kids; framed md [0x12] (cast U8 (N.of_nat (length kids)) :: ks)
  | TPkgBuilder kids =>
      do ks <- encs kids;
      do _ <- assert (N.of_nat (length kids) <=? 255);
      do pl <- pkg_len md (N.of_nat (length ks) + 1) true;
      Some ([0x12] ++ pl ++ [cast U8 (N.of_nat (length kids))] ++ ks)
  | TResTemplate kids =>
      do ks <- encs kids;
      let bytes := ks ++ [0x79; 0] in
      let blen := enc_usize (N.of_nat (length bytes)) in
      do pl <- pkg_len md (N.of_nat (length bytes + length blen)) true;
      Some ([0x11] ++ pl ++ blen ++ bytes)
  | TIf pred kids => do ep <- enc md pred; do ks <- encs kids; framed md [0xA0] (ep ++ ks)
  | TElse kids => do ks <- encs kids; framed md [0xA1] ks
  | TWhile pred kids => do ep <- enc md pred; do ks <- encs kids; framed md [0xA2] (ep ++ ks)
  end.

(* ---------------- case decoding (vocabulary documented in Spec/AmlTermS.v) ---------------- *)

Definition desc_of_sx (l : list sx) : option desc :=
  match l with
  | [SA 20; SA rw; SA base; SA len] => Some (DMem32 rw base len)
  | [SA 21; SA w; SA ty; SA ca; SA rw; SA min; SA max; SL []] => Some (DAddr w ty ca rw min max None)
  | [SA 21; SA w; SA ty; SA ca; SA rw; SA min; SA max; SL [SA t]] => Some (DAddr w ty ca rw min max (Some t))
  | [SA 22; SA min; SA max; SA al; SA len] => Some (DIO min max al len)
  | [SA 23; SA c; SA e; SA a; SA s; SA n] => Some (DIrq c e a s n)
  | [SA 24; SA sp; SA w; SA o; SA ac; SA ad] => Some (DReg sp w o ac ad)
  | _ => None
  end.

Definition fentry_of_sx (s : sx) : option fentry :=
  match s with
  | SL [SA 0; nm; SA len] => option_map (fun n => FNamed n len) (sx_bytes nm)
  | SL [SA 1; SA len] => Some (FReserved len)
  | _ => None
  end.

Fixpoint map_opt {A B} (f : A -> option B) (l : list A) : option (list B) :=
  match l with
  | [] => Some []
  | x :: r => match f x, map_opt f r with Some a, Some b => Some (a :: b) | _, _ => None end
  end.

Fixpoint term_of_sx (s : sx) {struct s} : option term :=
  let terms := fix terms (l : list sx) : option (list term) :=
                 match l with
                 | [] => Some []
                 | x :: r => match term_of_sx x, terms r with Some a, Some b => Some (a :: b) | _, _ => None end
                 end in
  match s with
  | SA _ => None
  | SL l =>
    match l with
    | [SA 1] => Some TZero | [SA 2] => Some TOne | [SA 3] => Some TOnes
    | [SA 4; SA ty; SA n] => Some (TInt ty n)
    | [SA 5; b] | [SA 6; b] => option_map TStr (sx_bytes b)
    | [SA 7; b] => option_map TPath (sx_bytes b)
    | [SA 8; b] => option_map TFieldName (sx_bytes b)
    | [SA 9; b] => option_map TEisa (sx_bytes b)
    | [SA 10; b] => option_map TUuid (sx_bytes b)
    | [SA 11; b] => option_map TBufData (sx_bytes b)
    | [SA 12; SA n] => Some (TArg n)
    | [SA 13; SA n] => Some (TLocal n)
    | SA 20 :: _ | SA 21 :: _ | SA 22 :: _ | SA 23 :: _ | SA 24 :: _ => option_map TDesc (desc_of_sx l)
    | [SA 30; SA k; a] => option_map (TOp1 k) (term_of_sx a)
    | [SA 31; SA k; a; b] => match term_of_sx a, term_of_sx b with Some x, Some y => Some (TOp2 k x y) | _, _ => None end
    | [SA 32; SA k; t; a; b] =>
        match term_of_sx t, term_of_sx a, term_of_sx b with Some x, Some y, Some z => Some (TOp3 k x y z) | _, _, _ => None end
    | [SA 33; SA k; a; b; c; d] =>
        match term_of_sx a, term_of_sx b, term_of_sx c, term_of_sx d with
        | Some x, Some y, Some z, Some w => Some (TOp4 k x y z w) | _, _, _, _ => None end
    | [SA 40; p; i] => match sx_bytes p, term_of_sx i with Some x, Some y => Some (TName x y) | _, _ => None end
    | [SA 41; p; SL ks] => match sx_bytes p, terms ks with Some x, Some y => Some (TDevice x y) | _, _ => None end
    | [SA 42; p; SL ks] => match sx_bytes p, terms ks with Some x, Some y => Some (TScope x y) | _, _ => None end
    | [SA 43; p; SL ks] => match sx_bytes p, terms ks with Some x, Some y => Some (TScopeRaw x y) | _, _ => None end
    | [SA 44; p; SA a; SA sr; SL ks] => match sx_bytes p, terms ks with Some x, Some y => Some (TMethod x a sr y) | _, _ => None end
    | [SA 45; p; SA lv; SA od; SL ks] => match sx_bytes p, terms ks with Some x, Some y => Some (TPowerRes x lv od y) | _, _ => None end
    | [SA 46; p; SA sp; o; ln] =>
        match sx_bytes p, term_of_sx o, term_of_sx ln with Some x, Some y, Some z => Some (TOpRegion x sp y z) | _, _, _ => None end
    | [SA 47; p; SA sy] => option_map (fun x => TMutex x sy) (sx_bytes p)
    | [SA 48; p; SA tm] => option_map (fun x => TAcquire x tm) (sx_bytes p)
    | [SA 49; p] => option_map TRelease (sx_bytes p)
    | [SA 50; p; SL ks] => match sx_bytes p, terms ks with Some x, Some y => Some (TCall x y) | _, _ => None end
    | [SA 51; p; SA ac; SA lk; SA up; SL es] =>
        match sx_bytes p, map_opt fentry_of_sx es with Some x, Some y => Some (TField x ac lk up y) | _, _ => None end
    | [SA 60; SL ks] => option_map TPackage (terms ks)
    | [SA 61; SL ks] => option_map TPkgBuilder (terms ks)
    | [SA 62; SL ks] => option_map TResTemplate (terms ks)
    | [SA 63; pr; SL ks] => match term_of_sx pr, terms ks with Some x, Some y => Some (TIf x y) | _, _ => None end
    | [SA 64; SL ks] => option_map TElse (terms ks)
    | [SA 65; pr; SL ks] => match term_of_sx pr, terms ks with Some x, Some y => Some (TWhile x y) | _, _ => None end
    | _ => None
    end
  end.

(* component 40: one term, serialised into a Vec<u8> *)
Definition aml_case (md : mode) (c : sx) : list ev :=
  match term_of_sx c with
  | Some t => ev_opt (enc md t)
  | None => [EvPanic]
  end.

(* component 41: two terms, each serialised into its own Vec<u8> *)
Definition aml_pair_case (md : mode) (c : sx) : list ev :=
  match c with
  | SL [x; y] =>
      match term_of_sx x, term_of_sx y with
      | Some a, Some b =>
          match enc md a with
          | Some ba => match enc md b with Some bb => [EvBytes ba; EvBytes bb] | None => [EvBytes ba; EvPanic] end
          | None => [EvPanic]
          end
      | _, _ => [EvPanic]
      end
  | _ => [EvPanic]
  end.
