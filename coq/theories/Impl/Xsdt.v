(* Impl model of xsdt.rs *)
From Coq Require Import NArith List Bool.
From ACPI Require Import Lib.Bytes Lib.Sx Lib.Machine Impl.Checksum Impl.Table Impl.Fields Impl.Run Impl.Madt.
Import ListNotations.
Open Scope N_scope.

(* XSDT::new: header { "XSDT", length = 36, revision 1 }; cksum.append(header.as_bytes()) *)
Definition xsdt_new (c : sx) : option tbl :=
  match c with
  | SL [o; t; r] =>
      do h <- sx_hdr [88; 83; 68; 84] 1 o t r;          (* "XSDT" *)
      Some (tbl_new KXsdt h [])
  | _ => None
  end.

(* add_entry(entry: u64): new_len = old_len + size_of::<u64>() as u32; checksum.delete(old_len); checksum.append(new_len);
   checksum.append(&entry.to_le_bytes()); to_aml_bytes writes sink.qword(entry) *)
Definition xsdt_addition (s : tbl) (o : sx) : option addition :=
  match o with
  | SL [SA 1; SA e] =>
      Some {| a_style := SumAppend; a_claimed := 8; a_bytes := q8 e; a_returns := false; a_flag := t_flag s |}
  | _ => None
  end.

Definition xsdt_step : mode -> tbl -> sx -> option (tbl * list ev) := add_step xsdt_addition.

Definition xsdt_case (md : mode) (c : sx) : list ev :=
  run_history (fun s => Some (tbl_image s)) (xsdt_step md) xsdt_new c.
