(* Impl model of srat.rs *)
From Coq Require Import NArith List Bool.
From ACPI Require Import Lib.Bytes Lib.Sx Lib.Machine Impl.Checksum Impl.Table Impl.Fields Impl.Run Impl.Madt.
Import ListNotations.
Open Scope N_scope.

(* ---- MemoryAffinity { proximity_domain: u32, base_address: u64, length: u64, flags: u32 } ---- *)
Record memaff := { ma_pd : N; ma_base : N; ma_len : N; ma_flags : N }.

Definition memaff_new (pd base len : N) : memaff := {| ma_pd := pd; ma_base := base; ma_len := len; ma_flags := 0 |}.

Definition memaff_or (m : memaff) (bits : N) : memaff :=
  {| ma_pd := ma_pd m; ma_base := ma_base m; ma_len := ma_len m; ma_flags := N.lor (ma_flags m) bits |}.

(* enabled / hotpluggable / nonvolatile: self.flags |= 1 << {0,1,2} *)
Definition memaff_builder (m : memaff) (o : sx) : option memaff :=
  match o with
  | SL [SA 1] => Some (memaff_or m 1)
  | SL [SA 2] => Some (memaff_or m 2)
  | SL [SA 3] => Some (memaff_or m 4)
  | _ => None
  end.

Fixpoint apply_builders {A} (b : A -> sx -> option A) (x : A) (l : list sx) : option A :=
  match l with
  | [] => Some x
  | o :: r => match b x o with Some x' => apply_builders b x' r | None => None end
  end.

Definition LOW32 : N := 0xffffffff.

(* the hand-written serialiser, in the order of the sink calls *)
Definition memaff_bytes (m : memaff) : list N :=
  b1 1 ++ b1 40 ++ d4 (ma_pd m) ++ w2 0
  ++ d4 (N.land (ma_base m) LOW32) ++ d4 (N.land (N.shiftr (ma_base m) 32) LOW32)
  ++ d4 (N.land (ma_len m) LOW32) ++ d4 (N.land (N.shiftr (ma_len m) 32) LOW32)
  ++ d4 0 ++ d4 (ma_flags m) ++ q8 0.

(* ---- Handle ---- *)
Inductive handle :=
| HAcpi (hid uid : list N)
| HPci (seg bus dev fn : N).

(* handle argument: (0 hid8 uid4) = Handle::Acpi / new_acpi; (1 seg bus dev fn) = the struct literal Handle::Pci {..}
   (no assertion); (2 seg bus dev fn) = Handle::new_pci (asserts device < 32, function < 8) *)
Definition sx_handle (x : sx) : option handle :=
  match x with
  | SL [SA 0; hid; uid] => do h <- sx_arr 8 hid; do u <- sx_arr 4 uid; Some (HAcpi h u)
  | SL [SA 1; SA seg; SA bus; SA dev; SA fn] => Some (HPci seg bus dev fn)
  | SL [SA 2; SA seg; SA bus; SA dev; SA fn] => do _ <- pci_ok dev fn; Some (HPci seg bus dev fn)
  | _ => None
  end.

(* fn devfn(device: u8, function: u8) -> u8 { (device << 3) | function }  -- the shift drops the high bits *)
Definition devfn (dev fn : N) : N := N.lor (cast U8 (N.shiftl dev 3)) fn.

Definition handle_bytes (h : handle) : list N :=
  match h with
  | HAcpi hid uid => hid ++ uid ++ d4 0
  | HPci seg bus dev fn => w2 seg ++ b1 bus ++ b1 (devfn dev fn) ++ d4 0 ++ q8 0
  end.

(* ---- GenericInitiator { proximity_domain: u32, handle: Handle, flags: u32 } ---- *)
Record geninit := { gi_pd : N; gi_handle : handle; gi_flags : N }.

Definition geninit_or (g : geninit) (bits : N) : geninit :=
  {| gi_pd := gi_pd g; gi_handle := gi_handle g; gi_flags := N.lor (gi_flags g) bits |}.

(* enabled / architectural: self.flags |= 1 << {0,1} *)
Definition geninit_builder (g : geninit) (o : sx) : option geninit :=
  match o with
  | SL [SA 1] => Some (geninit_or g 1)
  | SL [SA 2] => Some (geninit_or g 2)
  | _ => None
  end.

Definition geninit_bytes (g : geninit) : list N :=
  b1 5 ++ b1 32 ++ b1 0 ++ b1 (match gi_handle g with HAcpi _ _ => 0 | HPci _ _ _ _ => 1 end)
  ++ d4 (gi_pd g) ++ handle_bytes (gi_handle g) ++ d4 (gi_flags g) ++ d4 0.

(* ---- RintcAffinity (packed): 0 type 1 length 2 reserved 3 proximity_domain 4..7 acpi_processor_uid 8 flags 9 clock_domain ---- *)
Definition rintc_aff_new (uid : list N) (clock : N) : flds :=
  [F 1 7; F 1 20; F 2 0; F 4 0] ++ fbytes uid ++ [F 4 0; F 4 clock].

Definition rintc_aff_builder (f : flds) (o : sx) : option flds :=
  match o with
  | SL [SA 1] => Some (f_or f 8 1)           (* enabled: flags = flags | FLAGS_ENABLED *)
  | SL [SA 2; SA pd] => Some (fset f 3 pd)   (* proximity_domain(pd) *)
  | _ => None
  end.

(* ---- table ---- *)
(* SRAT::new: header { "SRAT", length = 36 + 12, revision 1 }; cksum.append(header.as_bytes()); cksum.add(1);
   to_aml_bytes: header, sink.dword(1), sink.qword(0), structures *)
Definition srat_new (c : sx) : option tbl :=
  match c with
  | SL [o; t; r] =>
      do h <- sx_hdr [83; 82; 65; 84] 1 o t r;          (* "SRAT" *)
      Some (tbl_new KSrat h [])
  | _ => None
  end.

(* add_*: update_header(T::len() as u32, st.u8sum()): delete(old_len), append(new_len), checksum.add(sum).
   MemoryAffinity::len() = 40 and GenericInitiator::len() = 32 are hand-written; RintcAffinity::len() = size_of::<Self>() = 20 *)
Definition srat_addition (s : tbl) (o : sx) : option addition :=
  match o with
  | SL [SA 1; SA pd; SA base; SA len; SL bs] =>
      do m <- apply_builders memaff_builder (memaff_new pd base len) bs;
      Some {| a_style := SumAdd; a_claimed := 40; a_bytes := memaff_bytes m; a_returns := false; a_flag := t_flag s |}
  | SL [SA 2; SA pd; h; SL bs] =>
      do hd <- sx_handle h;
      do g <- apply_builders geninit_builder {| gi_pd := pd; gi_handle := hd; gi_flags := 0 |} bs;
      Some {| a_style := SumAdd; a_claimed := 32; a_bytes := geninit_bytes g; a_returns := false; a_flag := t_flag s |}
  | SL [SA 3; uid; SA clock; SL bs] =>
      do u <- sx_arr 4 uid;
      do f <- apply_builders rintc_aff_builder (rintc_aff_new u clock) bs;
      Some {| a_style := SumAdd; a_claimed := 20; a_bytes := ser_flds f; a_returns := false; a_flag := t_flag s |}
  | _ => None
  end.

Definition srat_step : mode -> tbl -> sx -> option (tbl * list ev) := add_step srat_addition.

Definition srat_case (md : mode) (c : sx) : list ev :=
  run_history (fun s => Some (tbl_image s)) (srat_step md) srat_new c.
