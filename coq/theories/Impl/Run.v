(* The history runner shared by all table components:
   case = (ctor op ...) ; op = 1 (observe the image) | (opcode args ...) *)
From Coq Require Import NArith List.
From ACPI Require Import Lib.Bytes Lib.Sx Impl.Table.
Import ListNotations.
Open Scope N_scope.

Section Run.
  Context {S : Type}.
  Variable image : S -> option (list N).
  Variable step : S -> sx -> option (S * list ev).

  (* accumulator-passing (events most recent first) so that the extracted code runs in constant stack *)
  Fixpoint run_ops_acc (s : S) (ops : list sx) (acc : list ev) : list ev :=
    match ops with
    | [] => frev acc
    | SA 1 :: r => match image s with
                   | Some b => run_ops_acc s r (EvBytes b :: acc)
                   | None => frev (EvPanic :: acc)
                   end
    | o :: r => match step s o with
                | Some (s', evs) => run_ops_acc s' r (rev_append evs acc)
                | None => frev (EvPanic :: acc)
                end
    end.

  Definition run_ops (s : S) (ops : list sx) : list ev := run_ops_acc s ops [].

  Definition run_history (new : sx -> option S) (c : sx) : list ev :=
    match c with
    | SL (ctor :: ops) => match new ctor with Some s => run_ops s ops | None => [EvPanic] end
    | _ => [EvPanic]
    end.
End Run.
