(* Packed structs as ordered field lists (width in bytes, value); builders as field updates.
   `IntoBytes::as_bytes` of a #[repr(C, packed)] struct = the fields in declaration order, little-endian. *)
From Coq Require Import NArith List Bool.
From ACPI Require Import Lib.Bytes Lib.Sx Lib.Machine.
Import ListNotations.
Open Scope N_scope.

Definition flds := list (nat * N).
Definition F (w : nat) (v : N) : nat * N := (w, v).
Arguments F w%nat v%N.

Definition ser_flds (f : flds) : list N := concat (map (fun wv => le (fst wv) (snd wv)) f).

Fixpoint flds_len (f : flds) : nat := match f with [] => O | (w, _) :: r => (w + flds_len r)%nat end.

(* self.field = v *)
Fixpoint fset (f : flds) (i : nat) (v : N) : flds :=
  match f, i with
  | [], _ => []
  | (w, _) :: r, O => (w, v) :: r
  | x :: r, S i' => x :: fset r i' v
  end.

(* self.field |= bits *)
Fixpoint f_or (f : flds) (i : nat) (bits : N) : flds :=
  match f, i with
  | [], _ => []
  | (w, v) :: r, O => (w, N.lor v bits) :: r
  | x :: r, S i' => x :: f_or r i' bits
  end.

Definition fget (f : flds) (i : nat) : N := snd (nth i f (0%nat, 0)).

(* raw byte-array fields ([u8; K]) are kept as one field per byte *)
Definition fbytes (l : list N) : flds := map (fun b => (1%nat, b)) l.

Fixpoint sx_list_all {A} (f : sx -> option A) (l : list sx) : option (list A) :=
  match l with
  | [] => Some []
  | x :: r => match f x, sx_list_all f r with Some a, Some r' => Some (a :: r') | _, _ => None end
  end.

(* [u8; K] argument: exactly K bytes *)
Definition sx_arr (k : nat) (s : sx) : option (list N) :=
  match sx_bytes s with Some b => if Nat.eqb (length b) k then Some b else None | None => None end.

(* PCI bus/device/function packing used by several tables: asserts device < 32, function < 8 *)
Definition pci_ok (dev fn : N) : option unit := do _ <- assert (dev <? 32); assert (fn <? 8).
Definition bdf (bus dev fn : N) : N :=
  N.lor (N.lor (N.shiftl (cast U16 bus) 8) (N.shiftl (cast U16 dev) 3)) (cast U16 fn).
