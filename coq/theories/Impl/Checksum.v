(* Impl model of lib.rs: Checksum (u8 accumulator), its AmlSink impl, generate_checksum. *)
From Coq Require Import NArith List.
From ACPI Require Import Lib.Bytes Lib.Sx.
Import ListNotations.
Open Scope N_scope.

(* state = the private field `value: u8` *)
Definition ck_append (s : N) (data : list N) : N := fold_left wadd8 data s.   (* wrapping_add per byte *)
Definition ck_delete (s : N) (data : list N) : N := fold_left wsub8 data s.   (* wrapping_sub per byte *)
Definition ck_add (s b : N) : N := wadd8 s b.
Definition ck_sub (s b : N) : N := wsub8 s b.
Definition ck_raw (s : N) : N := s.
Definition ck_value (s : N) : N := ((255 - s) + 1) mod 256.                   (* (255 - v).wrapping_add(1) *)

(* impl AmlSink for Checksum: only `byte` is overridden; word/dword/qword -> vec(le bytes) -> byte each *)
Definition ck_sink_byte (s b : N) : N := ck_add s b.
Definition ck_sink_vec (s : N) (v : list N) : N := fold_left ck_sink_byte v s.
Definition ck_sink_word (s x : N) : N := ck_sink_vec s (le 2 x).
Definition ck_sink_dword (s x : N) : N := ck_sink_vec s (le 4 x).
Definition ck_sink_qword (s x : N) : N := ck_sink_vec s (le 8 x).

(* generate_checksum(data) = (255 - fold wrapping_add).wrapping_add(1) *)
Definition generate_checksum (data : list N) : N := ck_value (fold_left wadd8 data 0).

Inductive ckop :=
| CkAdd (b : N) | CkSub (b : N) | CkAppend (l : list N) | CkDelete (l : list N)
| CkByte (b : N) | CkWord (x : N) | CkDword (x : N) | CkQword (x : N) | CkVec (l : list N).

Definition ck_step (s : N) (o : ckop) : N :=
  match o with
  | CkAdd b => ck_add s b
  | CkSub b => ck_sub s b
  | CkAppend l => ck_append s l
  | CkDelete l => ck_delete s l
  | CkByte b => ck_sink_byte s b
  | CkWord x => ck_sink_word s x
  | CkDword x => ck_sink_dword s x
  | CkQword x => ck_sink_qword s x
  | CkVec l => ck_sink_vec s l
  end.

Definition ck_run (ops : list ckop) : N := fold_left ck_step ops 0.   (* Checksum::default() = 0 *)

(* ---- case decoding for the correspondence harness ---- *)
Definition ckop_of_sx (s : sx) : option ckop :=
  match s with
  | SL [SA 0; SA b] => Some (CkAdd b)
  | SL [SA 1; SA b] => Some (CkSub b)
  | SL [SA 2; l] => option_map CkAppend (sx_bytes l)
  | SL [SA 3; l] => option_map CkDelete (sx_bytes l)
  | SL [SA 4; SA b] => Some (CkByte b)
  | SL [SA 5; SA x] => Some (CkWord x)
  | SL [SA 6; SA x] => Some (CkDword x)
  | SL [SA 7; SA x] => Some (CkQword x)
  | SL [SA 8; l] => option_map CkVec (sx_bytes l)
  | _ => None
  end.

(* observation after every operation: raw_value() then value() *)
Fixpoint ck_trace (s : N) (ops : list sx) : list ev :=
  match ops with
  | [] => []
  | o :: r => match ckop_of_sx o with
              | Some op => let s' := ck_step s op in EvNum (ck_raw s') :: EvNum (ck_value s') :: ck_trace s' r
              | None => [EvPanic]
              end
  end.

Definition ck_case (c : sx) : list ev :=
  match c with SL ops => ck_trace 0 ops | SA _ => [EvPanic] end.
