(* Impl model of the two remaining AmlSink implementations of the crate, and of the two serialisation routes of a
   structure that can also be handed over in its raw in-memory form (C14).

   sdt.rs     impl AmlSink for Sdt            { fn byte(&mut self, b) { self.append(b) } }
              word / dword / qword / vec are the trait defaults of lib.rs:51-71:
                vec(v) = one self.byte call per element of v,  word(x) = self.vec(&x.to_le_bytes()), ...
   aml.rs     impl AmlSink for PackageBuilder { fn byte(b) { self.data.push(b) }  fn vec(v) { self.data.extend_from_slice(v) } }
              word / dword / qword are the trait defaults, i.e. they go through the overridden vec.
   gas.rs     GAS has a zerocopy derive (as_bytes) AND a hand-written impl Aml (byte, byte, byte, byte, qword).
   lib.rs     aml_as_bytes!(T): impl Aml for T { fn to_aml_bytes(&self, sink) { sink.vec(self.as_bytes()) } }

   A panic (only `Sdt::append` can: its write_bytes asserts) is None, as everywhere in the model. *)
From Coq Require Import NArith List Bool.
From ACPI Require Import Lib.Bytes Lib.Sx Lib.Machine Impl.Checksum Impl.Fields Impl.Sink Impl.Sdt Impl.Gas.
Import ListNotations.
Open Scope N_scope.

(* ---------------- impl AmlSink for Sdt ---------------- *)
Definition sdt_state := list N.                      (* struct Sdt { data: Vec<u8> } *)

(* fn byte(&mut self, byte: u8) { self.append(byte); }     append::<u8> of Impl/Sdt.v *)
Definition sdt_sink_byte (md : mode) (s : sdt_state) (b : N) : option sdt_state := sdt_append md s 1 b.

(* the same step in the option monad (a panic in an earlier call: nothing more happens) *)
Definition sdt_append_byte (md : mode) (s : option sdt_state) (b : N) : option sdt_state :=
  do d <- s; sdt_sink_byte md d b.

(* default vec: one `byte` call per element, in order *)
Fixpoint sdt_sink_bytes (md : mode) (s : sdt_state) (l : list N) : option sdt_state :=
  match l with
  | [] => Some s
  | b :: r => do d <- sdt_sink_byte md s b; sdt_sink_bytes md d r
  end.

Definition sdt_sink_call (md : mode) (s : sdt_state) (c : scall) : option sdt_state :=
  match c with
  | SByte b => sdt_sink_byte md s b
  | SWord x => sdt_sink_bytes md s (le 2 x)          (* self.vec(&word.to_le_bytes()) *)
  | SDword x => sdt_sink_bytes md s (le 4 x)
  | SQword x => sdt_sink_bytes md s (le 8 x)
  | SVec l => sdt_sink_bytes md s l
  end.

Fixpoint run_sdt (md : mode) (s : sdt_state) (t : list scall) : option sdt_state :=
  match t with
  | [] => Some s
  | c :: r => do d <- sdt_sink_call md s c; run_sdt md d r
  end.

(* ---------------- impl AmlSink for PackageBuilder ---------------- *)
Record pkgb_state := mk_pkgb { pb_data : list N; pb_elements : N }.   (* { data: Vec<u8>, elements: usize } *)

Definition pkgb_new : pkgb_state := mk_pkgb [] 0.

Definition pkgb_byte (s : pkgb_state) (b : N) : pkgb_state := mk_pkgb (pb_data s ++ [b]) (pb_elements s).         (* push *)
Definition pkgb_vec (s : pkgb_state) (l : list N) : pkgb_state := mk_pkgb (pb_data s ++ l) (pb_elements s).       (* extend_from_slice *)

Definition pkgb_call (s : pkgb_state) (c : scall) : pkgb_state :=
  match c with
  | SByte b => pkgb_byte s b
  | SWord x => pkgb_vec s (le 2 x)
  | SDword x => pkgb_vec s (le 4 x)
  | SQword x => pkgb_vec s (le 8 x)
  | SVec l => pkgb_vec s l
  end.

Definition run_pkgb (s : pkgb_state) (t : list scall) : pkgb_state := fold_left pkgb_call t s.

(* add_element(aml): aml.to_aml_bytes(self); self.elements += 1   (usize: cannot overflow before memory does) *)
Definition pkgb_add_element (s : pkgb_state) (t : list scall) : pkgb_state :=
  let s' := run_pkgb s t in mk_pkgb (pb_data s') (pb_elements s' + 1).

(* ---------------- raw form and serialised form ---------------- *)
(* GAS, raw: IntoBytes::as_bytes of the #[repr(C, packed)] struct = the fields in declaration order *)
Definition gas_raw (space width offset access addr : N) : list N := ser_flds (gas_mk space width offset access addr).

(* GAS, serialised: the hand-written impl Aml of gas.rs
     sink.byte(self.address_space_id as u8); sink.byte(self.register_bit_width); sink.byte(self.register_bit_offset);
     sink.byte(self.access_size as u8); sink.qword(self.address.into()); *)
Definition gas_ser (space width offset access addr : N) : list scall :=
  [SByte (cast U8 space); SByte width; SByte offset; SByte (cast U8 access); SQword addr].

(* aml_as_bytes!(T): one slice call carrying the raw form *)
Definition as_bytes_ser (raw : list N) : list scall := [SVec raw].
Definition flds_ser (f : flds) : list scall := as_bytes_ser (ser_flds f).

(* u8sum(aml): a default Checksum fed with the object's serialiser, then raw_value() *)
Definition u8sum_of (t : list scall) : N := ck_raw (run_cksum 0 t).
