(* Impl model of the AmlSink trait of lib.rs: the five entry points, their default implementations, and the built-in
   sinks (Vec<u8>, Checksum, Sdt via append, PackageBuilder). A serialiser is a trace of sink calls. *)
From Coq Require Import NArith List.
From ACPI Require Import Lib.Bytes Lib.Sx Impl.Checksum.
Import ListNotations.
Open Scope N_scope.

Inductive scall := SByte (b : N) | SWord (x : N) | SDword (x : N) | SQword (x : N) | SVec (l : list N).

(* the bytes a call stands for *)
Definition call_bytes (c : scall) : list N :=
  match c with
  | SByte b => [b] | SWord x => le 2 x | SDword x => le 4 x | SQword x => le 8 x | SVec l => l
  end.

Definition flatten (t : list scall) : list N := concat (map call_bytes t).

Section DefaultSink.
  (* a sink that implements only the mandatory `byte` *)
  Context {S : Type}.
  Variable bytef : S -> N -> S.

  (* trait defaults: vec = byte per byte; word/dword/qword = vec(to_le_bytes) *)
  Definition d_vec (s : S) (l : list N) : S := fold_left bytef l s.
  Definition d_call (s : S) (c : scall) : S :=
    match c with
    | SByte b => bytef s b
    | SWord x => d_vec s (le 2 x)
    | SDword x => d_vec s (le 4 x)
    | SQword x => d_vec s (le 8 x)
    | SVec l => d_vec s l
    end.
  Definition run_default (s : S) (t : list scall) : S := fold_left d_call t s.
End DefaultSink.

(* impl AmlSink for Vec<u8>: byte = push, vec = extend_from_slice; word/dword/qword by default through vec *)
Definition vec_call (s : list N) (c : scall) : list N :=
  match c with SByte b => s ++ [b] | _ => s ++ call_bytes c end.
Definition run_vec (s : list N) (t : list scall) : list N := fold_left vec_call t s.

(* impl AmlSink for Checksum: only `byte` (= add) *)
Definition run_cksum (s : N) (t : list scall) : N := run_default ck_add s t.
