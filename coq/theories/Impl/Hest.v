(* Impl model of hest.rs (uses gas.rs).  Case vocabulary: see Spec/HestS.v.
   HEST is an instance of Impl/Table.v (kind KHest): `add_structure::<T>(t)` calls `update_header(t.as_bytes())`, i.e. the
   length it adds is `data.len()` and the bytes reach the checksum through `checksum.append(data)`.
   The two stand-alone structures GenericErrorStatus / GenericErrorData (never added to a HEST) are modelled as two extra
   operation kinds (20, 21) that build the structure, serialise it alone and make *it* the thing the following
   observations show (until the next add_structure): see [hstate] below. *)
From Coq Require Import NArith List Bool.
From ACPI Require Import Lib.Bytes Lib.Sx Lib.Machine Impl.Checksum Impl.Table Impl.Fields Impl.Run Impl.Madt Impl.Gas.
Import ListNotations.
Open Scope N_scope.

(* ---- the three PCIe AER source structures (packed; field order = declaration order) ----
   common part, indices: 0 type 1 source_id 2 _reserved0 3 flags 4 enabled 5 num_records 6 max_sections 7 bus 8 device
   9 function 10 device_control 11 _reserved1 12 uncorrectable_error_mask 13 uncorrectable_error_severity
   14 correctable_error_mask 15 aer_cap_ctrl; then
   root port: 16 root_error_command
   bridge:    16 secondary_uncorrectable_error_mask 17 secondary_uncorrectable_error_severity 18 secondary_aer_cap_ctrl *)
Definition aer_common (ty flags bus dev fn : N) : flds :=
  [F 2 ty; F 2 0; F 2 0; F 1 flags; F 1 0; F 4 0; F 4 0; F 4 bus; F 2 dev; F 2 fn; F 2 0; F 2 0; F 4 0; F 4 0; F 4 0; F 4 0].

Definition aer_tail (ty : N) : flds :=
  match ty with 6 => [F 4 0] | 8 => [F 4 0; F 4 0; F 4 0] | _ => [] end.

(* (0) = T::new_global() ; (1 ff bus dev fn) = T::new_root_port / new_bridge (ff, PciDevice::new(bus, dev, fn)) *)
Definition aer_new (ty : N) (c : sx) : option flds :=
  match c with
  | SL [SA 0] => Some (aer_common ty 2 0 0 0 ++ aer_tail ty)                    (* FLAG_GLOBAL = 1 << 1 *)
  | SL [SA 1; SA ff; SA bus; SA dev; SA fn] =>
      do _ <- pci_ok (cast U8 dev) (cast U8 fn);                              (* PciDevice::new asserts *)
      Some (aer_common ty ff (cast U8 bus) (cast U8 dev) (cast U8 fn) ++ aer_tail ty)
  | _ => None
  end.

(* mutable_setter!: self.field = v *)
Definition aer_setter (ty : N) (f : flds) (o : sx) : option flds :=
  match o with
  | SL [SA 1; SA v] => Some (fset f 5 v)        (* num_records *)
  | SL [SA 2; SA v] => Some (fset f 6 v)        (* max_sections *)
  | SL [SA 3; SA v] => Some (fset f 10 v)       (* device_control *)
  | SL [SA 4; SA v] => Some (fset f 12 v)       (* uncorrectable_error_mask *)
  | SL [SA 5; SA v] => Some (fset f 13 v)       (* uncorrectable_error_severity *)
  | SL [SA 6; SA v] => Some (fset f 14 v)       (* correctable_error_mask *)
  | SL [SA 7; SA v] => Some (fset f 15 v)       (* aer_cap_ctrl *)
  | SL [SA 8; SA v] =>                          (* root_error_command | secondary_uncorrectable_error_mask *)
      match ty with 6 | 8 => Some (fset f 16 v) | _ => None end
  | SL [SA 9; SA v] => match ty with 8 => Some (fset f 17 v) | _ => None end   (* secondary_uncorrectable_error_severity *)
  | SL [SA 10; SA v] => match ty with 8 => Some (fset f 18 v) | _ => None end  (* secondary_aer_cap_ctrl *)
  | _ => None
  end.

(* ---- NotificationStructure: 0 type 1 length 2 conf_write_en 3 poll_interval_ms 4 vector 5 polling_threshold_value
        6 polling_threshold_window_ms 7 error_threshold_value 8 error_threshold_window_ms ---- *)
Definition notif_new (ty : N) : flds := [F 1 ty; F 1 28; F 2 0; F 4 0; F 4 0; F 4 0; F 4 0; F 4 0; F 4 0].
Definition notif_setter (f : flds) (o : sx) : option flds :=
  match o with
  | SL [SA 1; SA v] => Some (fset f 2 v)
  | SL [SA 2; SA v] => Some (fset f 3 v)
  | SL [SA 3; SA v] => Some (fset f 4 v)
  | SL [SA 4; SA v] => Some (fset f 5 v)
  | SL [SA 5; SA v] => Some (fset f 6 v)
  | SL [SA 6; SA v] => Some (fset f 7 v)
  | SL [SA 7; SA v] => Some (fset f 8 v)
  | _ => None
  end.

(* ---- GenericHardwareSource (type 9) / GenericHardwareSourceV2 (type 10)
   indices: 0 type 1 source_id 2 related_source_id 3 _flags 4 enabled 5 num_records 6 max_sections 7 max_raw_length
   8..12 error_status_address (GAS) 13..21 notification 22 error_status_block_len;
   V2: 23..27 read_ack_register (GAS) 28 read_ack_preserve 29 read_ack_write ---- *)
Definition ghes_new (ty source_id enabled : N) : flds :=
  [F 2 ty; F 2 source_id; F 2 0xffff; F 1 0; F 1 enabled; F 4 0; F 4 0; F 4 0] ++ gas_default
  ++ notif_new 0                                   (* NotificationStructure::new(NotificationType::default()) *)
  ++ [F 4 0]
  ++ match ty with 10 => gas_default ++ [F 8 0; F 8 0] | _ => [] end.

Definition ghes_setter (ty : N) (f : flds) (o : sx) : option flds :=
  match o with
  | SL [SA 1; SA v] => Some (fset f 5 v)        (* num_records *)
  | SL [SA 2; SA v] => Some (fset f 6 v)        (* max_sections *)
  | SL [SA 3; SA v] => Some (fset f 7 v)        (* max_raw_length *)
  | SL [SA 4; g] => do gv <- gas_of_sx g; Some (fset_seq f 8 (fvals gv))       (* error_status_address *)
  | SL [SA 5; SA nty; SL nsetters] =>                                          (* notification(NotificationStructure::new(t)...) *)
      do n <- apply_setters notif_setter (notif_new nty) nsetters; Some (fset_seq f 13 (fvals n))
  | SL [SA 6; SA v] => Some (fset f 22 v)       (* error_status_block_len *)
  | SL [SA 7; g] => match ty with 10 => do gv <- gas_of_sx g; Some (fset_seq f 23 (fvals gv)) | _ => None end
  | SL [SA 8; SA v] => match ty with 10 => Some (fset f 28 v) | _ => None end  (* read_ack_preserve *)
  | SL [SA 9; SA v] => match ty with 10 => Some (fset f 29 v) | _ => None end  (* read_ack_write *)
  | _ => None
  end.

(* ---- the table ---- *)
Definition hest_new (c : sx) : option tbl :=
  match c with
  | SL [o; t; r] =>
      do h <- sx_hdr [72; 69; 83; 84] 1 o t r;          (* "HEST", revision 1 *)
      Some (tbl_new KHest h [])
  | _ => None
  end.

Definition hest_entry (o : sx) : option flds :=
  match o with
  | SL [SA 1; c; SL st] => do f <- aer_new 6 c; apply_setters (aer_setter 6) f st      (* PcieAerRootPort *)
  | SL [SA 2; c; SL st] => do f <- aer_new 7 c; apply_setters (aer_setter 7) f st      (* PcieAerDevice *)
  | SL [SA 3; c; SL st] => do f <- aer_new 8 c; apply_setters (aer_setter 8) f st      (* PcieAerBridge *)
  | SL [SA 4; SA id; SA en; SL st] => apply_setters (ghes_setter 9) (ghes_new 9 id en) st
  | SL [SA 5; SA id; SA en; SL st] => apply_setters (ghes_setter 10) (ghes_new 10 id en) st
  | _ => None
  end.

(* add_structure(t): update_header(t.as_bytes()); structures.push(Box::new(t)) *)
Definition hest_addition (s : tbl) (o : sx) : option addition :=
  do f <- hest_entry o;
  let bytes := ser_flds f in
  Some {| a_style := SumAppend; a_claimed := N.of_nat (length bytes); a_bytes := bytes; a_returns := false;
          a_flag := t_flag s |}.

(* ---- stand-alone structures ---- *)
(* GenericErrorStatus::new(correctable_count: u32, uncorrectable_count: u32, severity) and its to_aml_bytes
   (dword status, raw_data_offset, raw_data_length, generic_data_length, severity; no entries can be added) *)
Definition ges_bytes (cc uc sev : N) : list N :=
  let cc := cast U32 cc in let uc := cast U32 uc in
  let s1 := if cc =? 1 then 2 else if 1 <? cc then 8 else 0 in
  let s2 := if uc =? 1 then 1 else if 1 <? uc then 4 else 0 in
  d4 (N.lor s1 s2) ++ d4 0 ++ d4 0 ++ d4 0 ++ d4 sev.

(* GenericErrorData: pub fields, Default + new(severity); to_aml_bytes = word section_type, dword severity, word revision,
   byte validation, byte flags, dword error_data_length, vec fru_id, vec fru_text, vec timestamp (no data added).
   indices: 0 section_type 1 severity 2 revision 3 validation 4 flags 5 error_data_length 6..21 fru_id 22..41 fru_text
   42..49 timestamp *)
Definition ged_new (sev : N) : flds :=
  [F 2 0; F 4 sev; F 2 0; F 1 0; F 1 0; F 4 0] ++ fbytes (repeatN 0 16) ++ fbytes (repeatN 0 20) ++ fbytes (repeatN 0 8).

(* field assignments d.field = v *)
Definition ged_assign (f : flds) (o : sx) : option flds :=
  match o with
  | SL [SA 1; SA v] => Some (fset f 0 v)
  | SL [SA 2; SA v] => Some (fset f 1 v)
  | SL [SA 3; SA v] => Some (fset f 2 v)
  | SL [SA 4; SA v] => Some (fset f 3 v)
  | SL [SA 5; SA v] => Some (fset f 4 v)
  | SL [SA 6; SA v] => Some (fset f 5 v)
  | SL [SA 7; b] => do bs <- sx_arr 16 b; Some (fset_seq f 6 bs)
  | SL [SA 8; b] => do bs <- sx_arr 20 b; Some (fset_seq f 22 bs)
  | SL [SA 9; b] => do bs <- sx_arr 8 b; Some (fset_seq f 42 bs)
  (* d.add_data(Box::new(payload)): to_aml_bytes emits the boxed objects after the 50 fixed bytes, in insertion order;
     error_data_length is a pub field the caller sets, add_data does not touch it *)
  | SL [SA 10; b] => do bs <- sx_bytes b; Some (f ++ fbytes (map (fun x => x mod 256) bs))
  | _ => None
  end.

Definition is_alone (o : sx) : bool :=
  match o with SL (SA 20 :: _) | SL (SA 21 :: _) => true | _ => false end.

Definition hest_alone (o : sx) : option (list N) :=
  match o with
  | SL [SA 20; SL [SA cc; SA uc]; SA sev] => Some (ges_bytes cc uc sev)
  | SL [SA 21; SA sev; SL assigns] => do f <- apply_setters ged_assign (ged_new sev) assigns; Some (ser_flds f)
  | _ => None
  end.

(* state of a component-21 history: the HEST under construction, and the serialisation of the stand-alone structure
   built by the last operation if that operation was (20 ...) / (21 ...) *)
Record hstate := { hs_tbl : tbl; hs_alone : option (list N) }.

Definition hest_image (s : hstate) : option (list N) :=
  Some (match hs_alone s with Some b => b | None => tbl_image (hs_tbl s) end).

Definition hest_step (md : mode) (s : hstate) (o : sx) : option (hstate * list ev) :=
  if is_alone o then
    do b <- hest_alone o; Some ({| hs_tbl := hs_tbl s; hs_alone := Some b |}, [EvNum 0])
  else
    do r <- add_step hest_addition md (hs_tbl s) o; Some ({| hs_tbl := fst r; hs_alone := None |}, snd r).

Definition hest_case (md : mode) (c : sx) : list ev :=
  run_history hest_image (hest_step md)
    (fun c => option_map (fun t => {| hs_tbl := t; hs_alone := None |}) (hest_new c)) c.
