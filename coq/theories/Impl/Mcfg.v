(* Impl model of mcfg.rs *)
From Coq Require Import NArith List Bool.
From ACPI Require Import Lib.Bytes Lib.Sx Lib.Machine Impl.Checksum Impl.Table Impl.Fields Impl.Run Impl.Madt.
Import ListNotations.
Open Scope N_scope.

(* struct EcamEntry { base_addr: U64, segment: U16, start_bus: u8, end_bus: u8, _reserved: [u8; 4] } (packed) *)
Definition ecam_entry (base seg sb eb : N) : flds :=
  [F 8 base; F 2 seg; F 1 sb; F 1 eb; F 1 0; F 1 0; F 1 0; F 1 0].

(* MCFG::new: header { "MCFG", length = 36 + 8, revision 1 }; cksum.append(header.as_bytes());
   to_aml_bytes writes the header, sink.qword(0), then the entries *)
Definition mcfg_new (c : sx) : option tbl :=
  match c with
  | SL [o; t; r] =>
      do h <- sx_hdr [77; 67; 70; 71] 1 o t r;          (* "MCFG" *)
      Some (tbl_new KMcfg h [])
  | _ => None
  end.

(* add_ecam(base_addr, segment, start_bus, end_bus): update_header(entry.as_bytes()) with
   len = data.len() as u32 = size_of::<EcamEntry>() = 16; checksum.delete(old_len); append(new_len); append(data) *)
Definition mcfg_addition (s : tbl) (o : sx) : option addition :=
  match o with
  | SL [SA 1; SA base; SA seg; SA sb; SA eb] =>
      Some {| a_style := SumAppend; a_claimed := 16; a_bytes := ser_flds (ecam_entry base seg sb eb);
              a_returns := false; a_flag := t_flag s |}
  | _ => None
  end.

Definition mcfg_step : mode -> tbl -> sx -> option (tbl * list ev) := add_step mcfg_addition.

Definition mcfg_case (md : mode) (c : sx) : list ev :=
  run_history (fun s => Some (tbl_image s)) (mcfg_step md) mcfg_new c.
