(* Impl model of facs.rs.  Case vocabulary: see Spec/FacsS.v.
   FACS is one #[repr(C, packed)] struct of 64 bytes, Copy, built by FACS::new(); its fields are `pub` (except the two reserved
   arrays) and callers fill it by assigning them directly (`f.hardware_signature = 0x1234.into()`).  It has no checksum and
   is serialised through as_bytes() (aml_as_bytes!). *)
From Coq Require Import NArith List Bool.
From ACPI Require Import Lib.Bytes Lib.Sx Lib.Machine Impl.Checksum Impl.Table Impl.Fields Impl.Run.
Import ListNotations.
Open Scope N_scope.

(* struct FACS (packed, 64 bytes), fields in declaration order ([u8; K] fields are one field per byte):
   0..3 signature[4]  4 length  5 hardware_signature  6 waking  7 lock  8 flags  9 x_waking  10 version  11..13 _reserved1[3]
   14 ospm_flags  15..38 _reserved2[24] *)
Definition facs_new_flds : flds :=
  fbytes [70; 65; 67; 83]                               (* "FACS" *)
  ++ [F 4 64;                                           (* length = size_of::<FACS>() as u32 *)
      F 4 0; F 4 0; F 4 0; F 4 0; F 8 0; F 1 1]         (* hardware_signature waking lock flags x_waking version *)
  ++ fbytes [0; 0; 0]
  ++ [F 4 0]
  ++ fbytes (repeatN 0 24).

(* FACS::new() *)
Definition facs_new (c : sx) : option flds :=
  match c with
  | SL [] => Some facs_new_flds
  | _ => None
  end.

(* direct assignment of a public field, `f.<field> = (v as uN).into()`: (field index, width in bytes) of the k-th `pub`
   field after signature and length, in declaration order:
   hardware_signature waking lock flags x_waking version ospm_flags *)
Definition FACS_ASSIGNABLE : list (nat * nat) := [(5, 4); (6, 4); (7, 4); (8, 4); (9, 8); (10, 1); (14, 4)]%nat.

Definition facs_assign_m (s : flds) (k v : N) : option flds :=
  match nth_error FACS_ASSIGNABLE (N.to_nat k) with
  | Some (i, w) => Some (fset s i (v mod 2 ^ (8 * N.of_nat w)))
  | None => None
  end.

Definition facs_step (md : mode) (s : flds) (o : sx) : option (flds * list ev) :=
  match o with
  | SL [SA 10; SA k; SA v] => do s' <- facs_assign_m s k v; Some (s', [EvNum 0])
  | _ => None
  end.

Definition facs_case (md : mode) (c : sx) : list ev :=
  run_history (fun s => Some (ser_flds s)) (facs_step md) facs_new c.
