(* Impl model of facs.rs *)
From Coq Require Import NArith List Bool.
From ACPI Require Import Lib.Bytes Lib.Sx Lib.Machine Impl.Checksum Impl.Table Impl.Fields Impl.Run.
Import ListNotations.
Open Scope N_scope.

(* struct FACS (packed, 64 bytes), fields in declaration order:
   0 signature[4] ... 4 length 5 hardware_signature 6 waking 7 lock 8 flags 9 x_waking 10 version 11.. _reserved1[3]
   14 ospm_flags 15.. _reserved2[24] *)
Definition facs_new_flds : flds :=
  fbytes [70; 65; 67; 83]                               (* "FACS" *)
  ++ [F 4 64;                                           (* length = size_of::<FACS>() as u32 *)
      F 4 0; F 4 0; F 4 0; F 4 0; F 8 0; F 1 1]         (* hardware_signature waking lock flags x_waking version *)
  ++ fbytes [0; 0; 0]
  ++ [F 4 0]
  ++ fbytes (repeatN 0 24).

(* FACS::new() *)
Definition facs_new (c : sx) : option flds :=
  match c with
  | SL [] => Some facs_new_flds
  | _ => None
  end.

Definition facs_step (md : mode) (s : flds) (o : sx) : option (flds * list ev) := None.

Definition facs_case (md : mode) (c : sx) : list ev :=
  run_history (fun s => Some (ser_flds s)) (facs_step md) facs_new c.
