(* The exchange language between the Rust harness and the extracted model:
   cases are S-expressions of numbers; observations are event lists. *)
From Coq Require Import NArith List Bool.
From ACPI Require Import Lib.Bytes.
Import ListNotations.
Open Scope N_scope.
Open Scope bool_scope.

Inductive sx := SA (n : N) | SL (l : list sx).

Inductive mode := Checked | Wrapping.   (* debug profile (overflow checks) | release profile *)

Inductive ev := EvBytes (l : list N) | EvNum (n : N) | EvPanic.

Definition sx_num (s : sx) : option N := match s with SA n => Some n | SL _ => None end.
Definition sx_list (s : sx) : option (list sx) := match s with SL l => Some l | SA _ => None end.

Fixpoint sx_nums (l : list sx) : option (list N) :=
  match l with
  | [] => Some []
  | SA n :: r => match sx_nums r with Some r' => Some (n :: r') | None => None end
  | SL _ :: _ => None
  end.

Definition sx_bytes (s : sx) : option (list N) :=
  match s with SL l => sx_nums l | SA _ => None end.

Definition sx_bool (s : sx) : option bool :=
  match s with SA 0 => Some false | SA 1 => Some true | _ => None end.

Fixpoint list_N_eqb (x y : list N) : bool :=
  match x, y with
  | [], [] => true
  | p :: x', q :: y' => N.eqb p q && list_N_eqb x' y'
  | _, _ => false
  end.

Definition ev_eqb (a b : ev) : bool :=
  match a, b with
  | EvBytes x, EvBytes y => list_N_eqb x y
  | EvNum x, EvNum y => N.eqb x y
  | EvPanic, EvPanic => true
  | _, _ => false
  end.

Lemma list_N_eqb_eq x y : list_N_eqb x y = true <-> x = y.
Proof.
  revert y; induction x as [|p x IH]; intros [|q y]; cbn [list_N_eqb]; split; intros H; try congruence; try reflexivity.
  - apply Bool.andb_true_iff in H. destruct H as [H1 H2]. apply N.eqb_eq in H1. apply IH in H2. congruence.
  - inversion H; subst. apply Bool.andb_true_iff. split; [apply N.eqb_refl|]. now apply IH.
Qed.

Fixpoint evs_eqb (a b : list ev) : bool :=
  match a, b with
  | [], [] => true
  | x :: a', y :: b' => ev_eqb x y && evs_eqb a' b'
  | _, _ => false
  end.
