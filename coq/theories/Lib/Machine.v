(* Machine-integer conventions: casts truncate, + - * follow the build profile. *)
From Coq Require Import NArith List.
From ACPI Require Import Lib.Bytes Lib.Sx.
Open Scope N_scope.

Definition U8 := 2 ^ 8.
Definition U16 := 2 ^ 16.
Definition U32 := 2 ^ 32.
Definition U64 := 2 ^ 64.

Definition cast (m x : N) : N := x mod m.              (* `x as uN` *)

(* a + b on a type of modulus m: panics in Checked mode on overflow, wraps otherwise *)
Definition add_m (md : mode) (m a b : N) : option N :=
  if a + b <? m then Some (a + b)
  else match md with Checked => None | Wrapping => Some ((a + b) mod m) end.

Definition sub_m (md : mode) (m a b : N) : option N :=
  if b <=? a then Some (a - b)
  else match md with Checked => None | Wrapping => Some ((a + m - b) mod m) end.

Definition mul_m (md : mode) (m a b : N) : option N :=
  if a * b <? m then Some (a * b)
  else match md with Checked => None | Wrapping => Some ((a * b) mod m) end.

(* checked_add / checked_sub / checked_mul followed by expect()/unwrap(): refuse in every profile *)
Definition add_c (m a b : N) : option N := if a + b <? m then Some (a + b) else None.
Definition sub_c (a b : N) : option N := if b <=? a then Some (a - b) else None.
Definition mul_c (m a b : N) : option N := if a * b <? m then Some (a * b) else None.

Definition assert (c : bool) : option unit := if c then Some tt else None.
