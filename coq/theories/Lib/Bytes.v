(* Byte lists over N: little-endian images, mod-256 sums, basic list lemmas.
   Model definitions and their characterising lemmas; no property statement lives here. *)
From Coq Require Import NArith ZArith List Lia Bool Arith.
Import ListNotations.
Open Scope N_scope.

Ltac Zify.zify_post_hook ::= Z.to_euclidean_division_equations.

Arguments N.add : simpl never.
Arguments N.sub : simpl never.
Arguments N.mul : simpl never.
Arguments N.div : simpl never.
Arguments N.modulo : simpl never.
Arguments N.eqb : simpl never.
Arguments N.ltb : simpl never.
Arguments N.leb : simpl never.
Arguments N.pow : simpl never.
Arguments N.land : simpl never.
Arguments N.lor : simpl never.
Arguments N.shiftl : simpl never.
Arguments N.shiftr : simpl never.

(* ---------- little-endian images ---------- *)

(* [le w n]: the w-byte little-endian image of n mod 2^(8w) (what `x as uW` then to_le_bytes gives) *)
Fixpoint le (w : nat) (n : N) : list N :=
  match w with
  | O => []
  | S w' => (n mod 256) :: le w' (n / 256)
  end.

Fixpoint unle (l : list N) : N :=
  match l with
  | [] => 0
  | x :: r => x + 256 * unle r
  end.

Definition b1 (n : N) : list N := le 1 n.
Definition w2 (n : N) : list N := le 2 n.
Definition d4 (n : N) : list N := le 4 n.
Definition q8 (n : N) : list N := le 8 n.

Definition is_byte (x : N) : bool := x <? 256.
Definition bytes_ok (l : list N) : bool := forallb is_byte l.

Lemma length_le w n : length (le w n) = w.
Proof. revert n; induction w as [|w IH]; intros n; cbn [le length]; [reflexivity|]. now rewrite IH. Qed.

Lemma le_bytes_ok w n : bytes_ok (le w n) = true.
Proof.
  revert n; induction w as [|w IH]; intros n; cbn [le bytes_ok forallb]; [reflexivity|].
  apply andb_true_iff; split; [|apply IH].
  unfold is_byte. apply N.ltb_lt. apply N.mod_lt. lia.
Qed.

Lemma unle_le w n : unle (le w n) = n mod 2 ^ (8 * N.of_nat w).
Proof.
  revert n; induction w as [|w IH]; intros n.
  - cbn [le unle]. change (8 * N.of_nat 0) with 0. rewrite N.pow_0_r, N.mod_1_r. reflexivity.
  - cbn [le unle]. rewrite IH.
    replace (8 * N.of_nat (S w)) with (8 + 8 * N.of_nat w) by lia.
    rewrite N.pow_add_r. change (2 ^ 8) with 256.
    rewrite N.mod_mul_r by (try apply N.pow_nonzero; lia).
    reflexivity.
Qed.

Lemma unle_le_small w n : n < 2 ^ (8 * N.of_nat w) -> unle (le w n) = n.
Proof. intros H. rewrite unle_le. now apply N.mod_small. Qed.

Lemma unle_bound l : bytes_ok l = true -> unle l < 2 ^ (8 * N.of_nat (length l)).
Proof.
  induction l as [|x r IH]; intros H.
  - cbn. lia.
  - cbn [bytes_ok forallb] in H. apply andb_true_iff in H. destruct H as [Hx Hr].
    unfold is_byte in Hx. apply N.ltb_lt in Hx. specialize (IH Hr).
    cbn [unle length].
    replace (8 * N.of_nat (S (length r))) with (8 + 8 * N.of_nat (length r)) by lia.
    rewrite N.pow_add_r. change (2 ^ 8) with 256. nia.
Qed.

Lemma le_unle l : bytes_ok l = true -> le (length l) (unle l) = l.
Proof.
  induction l as [|x r IH]; intros H; [reflexivity|].
  cbn [bytes_ok forallb] in H. apply andb_true_iff in H. destruct H as [Hx Hr].
  unfold is_byte in Hx. apply N.ltb_lt in Hx.
  cbn [length le unle].
  replace ((x + 256 * unle r) mod 256) with x.
  2:{ replace (x + 256 * unle r) with (x + unle r * 256) by lia.
      rewrite N.mod_add by lia. symmetry. now apply N.mod_small. }
  replace ((x + 256 * unle r) / 256) with (unle r).
  2:{ replace (x + 256 * unle r) with (x + unle r * 256) by lia.
      rewrite N.div_add by lia. rewrite (N.div_small x 256) by lia. lia. }
  now rewrite IH.
Qed.

Lemma le_mod w n : le w (n mod 2 ^ (8 * N.of_nat w)) = le w n.
Proof.
  revert n; induction w as [|w IH]; intros n; [reflexivity|].
  cbn [le].
  replace (8 * N.of_nat (S w)) with (8 + 8 * N.of_nat w) by lia.
  rewrite N.pow_add_r. change (2 ^ 8) with 256.
  assert (Hp : 2 ^ (8 * N.of_nat w) <> 0) by (apply N.pow_nonzero; lia).
  f_equal.
  - rewrite N.mod_mul_r by lia.
    replace (n mod 256 + 256 * ((n / 256) mod 2 ^ (8 * N.of_nat w)))
      with (n mod 256 + ((n / 256) mod 2 ^ (8 * N.of_nat w)) * 256) by lia.
    rewrite N.mod_add by lia. apply N.mod_mod. lia.
  - rewrite <- IH. rewrite <- (IH (n / 256)). f_equal.
    rewrite N.mod_mul_r by lia.
    replace (n mod 256 + 256 * ((n / 256) mod 2 ^ (8 * N.of_nat w)))
      with (n mod 256 + ((n / 256) mod 2 ^ (8 * N.of_nat w)) * 256) by lia.
    rewrite N.div_add by lia.
    rewrite (N.div_small (n mod 256) 256) by (apply N.mod_lt; lia).
    rewrite N.add_0_l. rewrite N.mod_mod by lia. reflexivity.
Qed.

(* ---------- sums ---------- *)

Fixpoint sumN (l : list N) : N :=
  match l with
  | [] => 0
  | x :: r => x + sumN r
  end.

Definition sum8 (l : list N) : N := sumN l mod 256.

Lemma sumN_app a b : sumN (a ++ b) = sumN a + sumN b.
Proof. induction a as [|x a IH]; cbn [sumN app]; [lia|]. rewrite IH. lia. Qed.

Lemma sum8_app a b : sum8 (a ++ b) = (sum8 a + sum8 b) mod 256.
Proof. unfold sum8. rewrite sumN_app. now rewrite N.add_mod by lia. Qed.

Lemma sum8_lt l : sum8 l < 256.
Proof. unfold sum8. apply N.mod_lt. lia. Qed.

(* the wrapping fold the Rust code performs *)
Definition wadd8 (a x : N) : N := (a + x) mod 256.
Definition wsub8 (a x : N) : N := (a + 256 - x mod 256) mod 256.

Lemma fold_wadd8 l a : fold_left wadd8 l a = (a + sumN l) mod 256 \/ l = [] /\ fold_left wadd8 l a = a.
Proof.
  revert a; induction l as [|x r IH]; intros a.
  - right. split; reflexivity.
  - left. cbn [fold_left sumN]. destruct (IH (wadd8 a x)) as [H|[H1 H2]].
    + rewrite H. unfold wadd8. rewrite N.add_mod_idemp_l by lia. f_equal. lia.
    + subst r. cbn [fold_left sumN]. unfold wadd8. f_equal. lia.
Qed.

Lemma fold_wadd8_mod l a : a < 256 -> fold_left wadd8 l a = (a + sumN l) mod 256.
Proof.
  intros Ha. destruct (fold_wadd8 l a) as [H|[H1 H2]]; [exact H|].
  subst l. cbn [sumN fold_left]. rewrite N.add_0_r. symmetry. now apply N.mod_small.
Qed.

(* ---------- list utilities ---------- *)

Fixpoint upd {A} (l : list A) (i : nat) (v : A) : list A :=
  match l, i with
  | [], _ => []
  | _ :: r, O => v :: r
  | x :: r, S i' => x :: upd r i' v
  end.

Lemma length_upd {A} (l : list A) i v : length (upd l i v) = length l.
Proof. revert i; induction l as [|x r IH]; intros [|i]; cbn [upd length]; auto. Qed.

Lemma nth_upd_same {A} (l : list A) i v d : (i < length l)%nat -> nth i (upd l i v) d = v.
Proof. revert i; induction l as [|x r IH]; intros [|i] H; cbn [length upd nth] in *; try lia; auto. apply IH. lia. Qed.

Lemma nth_upd_other {A} (l : list A) i j v d : i <> j -> nth j (upd l i v) d = nth j l d.
Proof.
  revert i j; induction l as [|x r IH]; intros [|i] [|j] H; cbn [upd nth]; auto; try congruence.
Qed.

(* write a slice at an offset (caller guarantees it fits) *)
Fixpoint write_at {A} (l : list A) (off : nat) (data : list A) {struct off} : list A :=
  match off with
  | O => data ++ skipn (length data) l
  | S o => match l with
           | x :: r => x :: write_at r o data
           | [] => []
           end
  end.

Lemma length_write_at {A} (l : list A) off data :
  (off + length data <= length l)%nat -> length (write_at l off data) = length l.
Proof.
  revert l; induction off as [|o IH]; intros l H.
  - cbn [write_at]. rewrite app_length, skipn_length. cbn in H. lia.
  - destruct l as [|x r]; cbn [length] in H; [lia|]. cbn [write_at length]. rewrite IH; [reflexivity|lia].
Qed.

Lemma write_at_spec {A} (l : list A) off data :
  (off + length data <= length l)%nat ->
  write_at l off data = firstn off l ++ data ++ skipn (off + length data) l.
Proof.
  revert l; induction off as [|o IH]; intros l H.
  - reflexivity.
  - destruct l as [|x r]; cbn [length] in H; [lia|].
    cbn [write_at firstn app]. rewrite IH by lia. reflexivity.
Qed.

Fixpoint repeatN {A} (x : A) (n : nat) : list A := match n with O => [] | S k => x :: repeatN x k end.

Lemma length_repeatN {A} (x : A) n : length (repeatN x n) = n.
Proof. induction n; cbn; auto. Qed.

Lemma sumN_repeatN x n : sumN (repeatN x n) = N.of_nat n * x.
Proof. induction n as [|n IH]; cbn [repeatN sumN]; [lia|]. rewrite IH. lia. Qed.

Definition option_bind {A B} (o : option A) (f : A -> option B) : option B :=
  match o with Some a => f a | None => None end.
Notation "'do' x <- o ; k" := (option_bind o (fun x => k)) (at level 200, x pattern, o at level 100, k at level 200).

Definition guard (c : bool) : option unit := if c then Some tt else None.

Lemma firstn_le_app w n r : firstn w (le w n ++ r) = le w n.
Proof.
  rewrite firstn_app, length_le, Nat.sub_diag. cbn [firstn]. rewrite app_nil_r.
  rewrite <- (length_le w n) at 1. apply firstn_all.
Qed.

Lemma skipn_le_app w n r : skipn w (le w n ++ r) = r.
Proof.
  rewrite skipn_app, length_le, Nat.sub_diag. cbn [skipn].
  rewrite <- (length_le w n) at 1. rewrite skipn_all. reflexivity.
Qed.

Lemma firstn_app_exact {A} (a b : list A) : firstn (length a) (a ++ b) = a.
Proof. rewrite firstn_app, Nat.sub_diag. cbn [firstn]. rewrite app_nil_r. apply firstn_all. Qed.

Lemma skipn_app_exact {A} (a b : list A) : skipn (length a) (a ++ b) = b.
Proof. rewrite skipn_app, Nat.sub_diag, skipn_all. reflexivity. Qed.

(* linear-time reverse for executable definitions (List.rev is quadratic once extracted) *)
Definition frev {A} (l : list A) : list A := rev_append l [].
Lemma frev_rev {A} (l : list A) : frev l = rev l.
Proof. unfold frev. symmetry. apply rev_alt. Qed.

Fixpoint opt_all {A} (l : list (option A)) : option (list A) :=
  match l with
  | [] => Some []
  | Some x :: r => option_map (cons x) (opt_all r)
  | None :: _ => None
  end.

